"""C14 - procedural generators give valid meshes of the promised shape, for all parameters."""
import itertools
import json
import math
import os
import sys

from .. import core
from ..core import zlit, coq_list, zlist, coq_bool, float_pair
from ..translate import c14 as tr

META = {
    "property_id": "C14",
    "design_ref": "DESIGN.md section 5, C14",
    "technique": "Coq proof about definitions GENERATED from the current source of mouette/procedural (loops -> flat_map "
                 "over zrange, tables, coordinates over an abstract operation record, call plumbing), for all parameters "
                 "(in_flat_map / In_zrange / nia, explicit witnesses); verified boolean checkers evaluated by vm_compute "
                 "for the constant-table solids; kernel-checked correspondence batches (exact face/edge/cell lists, "
                 "coordinates through binary64) and an independent half-edge oracle on the real meshes",
    "level_text": "Machine-checked Coq theorems about the definitions generated on every run from the current source of "
                  "mouette/procedural, for ALL parameters the code accepts: each theorem on a parametric generator g is stated under "
                  "`g_rejects p = false`, g_rejects being the generated `if ...: raise` guard, and C14_rejects states exactly what each "
                  "guard rejects (grid/triangle resolutions < 2, torus segments < 3, cylinder N < 3, sphere_uv n_lat < 1 or n_long < 3, "
                  "ring N < 3 or n_cover < 1, flat_ring N < 1 or n_cover < 1); rejection is also exercised by a malformed stream. For unit_grid, unit_triangle, torus, sphere_uv, cylinder (with/without "
                  "caps), ring (open/closed), flat_ring: (C14_well_formed) indices in range, every vertex used, simple faces, no "
                  "directed edge twice (consistently oriented edge-manifold, no repeated face); (C14_vertex_manifold) every vertex "
                  "umbrella is one fan, with the explicit corner ring of each vertex class (interior/border/corner vertices, poles, "
                  "cap centres, apex); (C14_topology) closedness or the explicit border cycle(s), connectedness and Euler "
                  "characteristic 2/0/1/0; (C14_counts) documented vertex/face/edge counts incl. unequal resolutions. "
                  "(C14_tables) the constant-table solids triangle, quad, tetrahedron, hexahedron, cube, hexahedron_4pts, icosahedron "
                  "and the duals octahedron, dodecahedron, by a sound checker evaluated in the kernel. (C14_params_honoured) "
                  "triangulate/volume/open/loop switches, ring's N<3 guard, call plumbing; (C14_ring_apex_defect) the generated body "
                  "of ring's bisection loop yields |defect(apex) - requested| < 1e-6 whenever the loop stops, incl. the bracket-"
                  "enlargement branch, CONDITIONAL on three named facts about the real angle function (monotone in the apex height, "
                  "defect 0 at height 0, no stop while the bracket is enlarged), which are checked numerically on every run. "
                  "(C14_on_surface) identities over the reals for every generated coordinate formula: sphere_uv, torus, icosahedron, "
                  "cylinder, ring and flat_ring rims, sphere_fibonacci points, icosphere's radial projection and base mesh, unit "
                  "square, requested corners. (C14_unit_triangle_counts) the number of faces of unit_triangle for every admissible "
                  "pair of resolutions, equal or not ((nv-1)^2 when nv <= nu), all faces triangles. (C14_flat_ring_apex_defect, "
                  "unconditional) closed form of flat_ring's rim - vertex i+1 at the angle i*(2pi - clamped defect)/N on the unit "
                  "circle - hence every triangle has that apex angle at the origin, counter-clockwise, N of them leave exactly "
                  "the requested defect, and a defect in [0, 2pi - 0.01) is not altered by the clamp. (C14_ring_triangles_congruent) with "
                  "ring's apex on the axis at any height h every triangle (0,a,b) has |p-apex|^2 = |q-apex|^2 = 1+h^2 and "
                  "(p-apex).(q-apex) = cos(2pi/N)+h^2, so all apex angles equal the one the bisection measures on vertices 1, 2 "
                  "(incl. the closing triangle of a closed ring and the duplicated last vertex of an open one). "
                  "(C14_ring_apex_defect_geometric) for the geometric angle acos((A-P).(B-P)/(|A-P||B-P|)) - what "
                  "atan2(|cross|, dot) of geometry.angle_3pts is over the reals - taken, as the code does, on vertices 1 and 2 of the "
                  "generated ring: two of the three hypotheses of C14_ring_apex_defect are PROVED for every N >= 3 (the defect is "
                  "monotone in the apex height; the flat ring has defect 0), only `no early stop while the bracket is enlarged` "
                  "is left as a hypothesis (still checked numerically). "
                  "(C14_sphere_uv_latitudes) the "
                  "vertices of sphere_uv are the poles and n_lat rings at n_lat pairwise distinct heights strictly between the "
                  "poles. (C14_rotation_helpers) the helpers rotate_2d and rotate_around_axis of mouette/geometry/rotations.py that "
                  "flat_ring and cylinder call are no longer hand-written mirrors: they are GENERATED from their source "
                  "(geom_rotate_2d, geom_rotate_around_axis, incl. the early return for a tiny angle/axis), fail-closed, and "
                  "proved to turn by the angle / keep unit vectors orthogonal to the axis. Outside the generated model (independent oracle on the real meshes only): the faces of "
                  "sphere_fibonacci(build_surface) (scipy ConvexHull), the loop subdivision rounds of icosphere (counts/topology), "
                  "spherify_vertices, cylindrify_edges, and dual_mesh on arbitrary input (also compared with a hand model).",
    "level_note": "Trusted: Coq kernel + vm_compute; the Python-ast -> Gallina translator vf/translate/c14.py (exercised: "
                  "every generated definition is also run against the implementation); the driver's canonicalisation; "
                  "numpy linspace/cos/sin vs. the model's binary64 evaluation within 1e-9; the hand models of Vec.normalized / "
                  "Vec.norm / np.linspace in Model.v; RawMeshData.prepare / "
                  "SurfaceMesh construction keep the appended faces in order (checked by the correspondence); an undirected edge "
                  "declared twice (closed chain of 2 points: (0,1) and (1,0)) may be kept once, first declaration, or as often "
                  "as declared - the text does not say, both are accepted by the correspondence and C14_counts speaks of the "
                  "declared edges; "
                  "scipy ConvexHull (sphere_fibonacci) and loop subdivision (icosphere) are outside the model. "
                  "Deliberately left free: the exception class and message of a refusal (a parameter below the stated "
                  "minimum may be refused with anything; only an ANSWER to it is a violation); whether numpy scalars, "
                  "lists/arrays for points, all-positional calls and ints for booleans are accepted or refused (if "
                  "answered, the answer must satisfy the property); the numbering of vertices, the order of the faces, "
                  "edges and cells, the starting corner of a face row and which vertex is the apex of a ring (the "
                  "implementation-side oracle counts half-edges and compares points as multisets and segments by their "
                  "end positions, within 1e-9(1+|x|) relative to the radius/scale); whether the side of a cylinder is made of "
                  "triangles or quads (when all faces are triangles their number is the documented 2N + N per cap), the "
                  "counts of unit_triangle with unequal resolutions (nothing documented; the model's counts are proved "
                  "in C14_counts and compared by the correspondence) and which diagonal splits a "
                  "triangulated cell; the class of the returned object beyond surface / volume / polyline / point cloud "
                  "as promised; extra attributes on the result, attribute names left on input meshes by dual_mesh, "
                  "warnings, log lines, repr, dtypes of index rows; last-bit float differences from re-associated "
                  "expressions. The Coq correspondence does compare the generated model's own numbering with the "
                  "implementation; when only that differs the line is `no-failing-input-found`, never a VIOLATION.",
}

HEADER = """From Coq Require Import ZArith List Bool PrimFloat.
Import ListNotations.
Require Import MV.Lib.Base MV.Lib.FloatLit MV.C14.Model MV.C14.Gen MV.C14.Run.
Open Scope Z_scope.
"""

DRIVER = "vf.impl.c14_driver"
_INFO = {}


def gen(ctx):
    text, info = tr.translate()
    _INFO.clear()
    _INFO.update(info)
    return {"C14/Gen.v": text}


# ====================================================================== independent oracle
def cyc(f):
    return [(f[k], f[(k + 1) % len(f)]) for k in range(len(f))]


def canon_face(f):
    """canonical form of a cyclic sequence up to rotation and reversal"""
    n = len(f)
    best = None
    for g in (list(f), list(reversed(f))):
        for r in range(n):
            c = tuple(g[r:] + g[:r])
            if best is None or c < best:
                best = c
    return best


def topo(V, F):
    """Half-edge counting on a face list: the combinatorial content of the property sentence."""
    t = {}
    t["in_range"] = all(isinstance(v, int) and 0 <= v < V for f in F for v in f)
    used = set(v for f in F for v in f)
    t["all_used"] = all(v in used for v in range(V))
    t["simple"] = all(len(f) >= 3 and len(set(f)) == len(f) for f in F)
    cf = [canon_face(f) for f in F]
    t["no_repeat"] = len(set(cf)) == len(cf)
    he = {}
    for fi, f in enumerate(F):
        for e in cyc(f):
            he.setdefault(e, []).append(fi)
    t["oriented_manifold"] = all(len(v) == 1 for v in he.values()) and all(a != b for a, b in he)
    und = set(frozenset(e) for e in he)
    t["euler"] = V - len(und) + len(F)
    border = [e for e in he if (e[1], e[0]) not in he]
    t["closed"] = not border
    # border loops: successor map on border edges (needs one outgoing border edge per border vertex)
    loops = None
    out = {}
    ok = True
    for a, b in border:
        if a in out:
            ok = False
        out[a] = b
    if ok:
        seen, loops = set(), 0
        for a in out:
            if a in seen:
                continue
            x, n = a, 0
            while x not in seen and x in out and n <= len(out):
                seen.add(x)
                x = out[x]
                n += 1
            if x != a:
                ok = False
                break
            loops += 1
    t["border_loops"] = loops if ok else None
    # vertex umbrellas: corners at v glued along shared edges must form one fan
    vm = True
    corners = {}
    for fi, f in enumerate(F):
        n = len(f)
        for k, v in enumerate(f):
            corners.setdefault(v, []).append((fi, f[(k - 1) % n], f[(k + 1) % n]))
    for v, cs in corners.items():
        # union corners sharing an edge at v: corner (fi, p, n) and corner (fj, p', n') with n == p' (edge v-n)
        parent = list(range(len(cs)))

        def find(x):
            while parent[x] != x:
                parent[x] = parent[parent[x]]
                x = parent[x]
            return x
        for i, (fi, p, n) in enumerate(cs):
            for j, (fj, p2, n2) in enumerate(cs):
                if i != j and (n == p2 or p == n2 or n == n2 or p == p2):
                    parent[find(i)] = find(j)
        if len(set(find(i) for i in range(len(cs)))) != 1:
            vm = False
    t["vertex_manifold"] = vm
    # connected 1-skeleton
    adj = {}
    for a, b in he:
        adj.setdefault(a, set()).add(b)
        adj.setdefault(b, set()).add(a)
    if V > 0:
        seen = {0}
        st = [0]
        while st:
            x = st.pop()
            for y in adj.get(x, ()):
                if y not in seen:
                    seen.add(y)
                    st.append(y)
        t["connected"] = len(seen) == V
    else:
        t["connected"] = True
    return t


def shape_fail(t, cls):
    """cls: sphere | torus | disk | annulus ; returns None or the first clause of the property that fails"""
    for k in ("in_range", "all_used", "simple", "no_repeat", "oriented_manifold", "vertex_manifold", "connected"):
        if not t[k]:
            return {"in_range": "an index is out of range", "all_used": "a vertex is used by no face",
                    "simple": "a face is degenerate", "no_repeat": "a face is repeated",
                    "oriented_manifold": "not a consistently oriented manifold (a directed edge is traversed twice)",
                    "vertex_manifold": "a vertex umbrella is not a single fan", "connected": "not connected"}[k]
    want = {"sphere": (True, 2, 0), "torus": (True, 0, 0), "disk": (False, 1, 1), "annulus": (False, 0, 2)}[cls]
    if t["closed"] != want[0]:
        return "the surface is %s but a %s was promised" % ("closed" if t["closed"] else "not closed", cls)
    if t["euler"] != want[1]:
        return "Euler characteristic %d, a %s has %d" % (t["euler"], cls, want[1])
    if t["border_loops"] != want[2]:
        return "%s border loops, a %s has %d" % (t["border_loops"], cls, want[2])
    return None


def close(a, b, tol=1e-9):
    return abs(a - b) <= tol * (1 + abs(b))


def at_dist(p, c, r):
    """|p - c| = r within 1e-9 relative to r (plus the cancellation error of the subtraction)"""
    d = vnorm(vsub(p, c))
    return abs(d - r) <= 1e-9 * abs(r) + 8e-16 * (vnorm(p) + vnorm(c))


def vsub(a, b):
    return [x - y for x, y in zip(a, b)]


def vnorm(a):
    return math.sqrt(sum(x * x for x in a))


def vdot(a, b):
    return sum(x * y for x, y in zip(a, b))


def angle(a, b, c):
    """angle at b"""
    u, v = vsub(a, b), vsub(c, b)
    cr = [u[1] * v[2] - u[2] * v[1], u[2] * v[0] - u[0] * v[2], u[0] * v[1] - u[1] * v[0]]
    return math.atan2(vnorm(cr), vdot(u, v))


def accepted(g, kw):
    """The parameters each generator's own guard lets through (C14_rejects states the same about the generated guards)."""
    if g in ("unit_grid", "unit_triangle"):
        return kw["nu"] >= 2 and kw["nv"] >= 2
    if g == "torus":
        return kw.get("major_segments", 50) >= 3 and kw.get("minor_segments", 30) >= 3
    if g == "cylinder":
        return kw.get("N", 50) >= 3
    if g == "sphere_uv":
        return kw.get("n_lat", 30) >= 1 and kw.get("n_long", 50) >= 3
    if g == "ring":
        return kw["N"] >= 3 and kw.get("n_cover", 1) >= 1
    if g == "flat_ring":
        return kw["N"] >= 1 and kw.get("n_cover", 1) >= 1
    return True


GUARDED = ("unit_grid", "unit_triangle", "torus", "cylinder", "sphere_uv", "ring", "flat_ring")


def admissible(g, kw):
    """The parameter choices the property quantifies over (minimal resolutions included)."""
    if g in ("unit_grid", "unit_triangle"):
        return kw["nu"] >= 2 and kw["nv"] >= 2
    if g == "torus":
        return kw["major_segments"] >= 3 and kw["minor_segments"] >= 3 and 0 < kw.get("minor_radius", 0.3) < kw.get("major_radius", 1.0)
    if g == "cylinder":
        return kw["N"] >= 3 and kw.get("radius", 1.0) > 0
    if g == "sphere_uv":
        return kw["n_lat"] >= 1 and kw["n_long"] >= 3 and kw.get("radius", 1.0) > 0
    if g in ("ring",):
        return kw["N"] >= 3 and kw.get("n_cover", 1) >= 1
    if g == "flat_ring":
        # every triangle of the fan must have an apex angle below pi
        d = max(min(kw["defect"], 2 * math.pi - 0.01), 0.)
        return kw["N"] >= 1 and kw.get("n_cover", 1) >= 1 and (2 * math.pi - d) / kw["N"] < math.pi - 1e-6
    if g == "chain_of_vertices":
        n = len(kw["vertices"]["arr"])
        return n >= (3 if kw.get("loop") else 1)
    if g == "icosphere":
        return kw.get("n_refine", 3) >= 0
    if g == "sphere_fibonacci":
        return kw["n_pts"] >= 4
    if g == "cylindrify_edges":
        return kw.get("N", 50) >= 3
    if g == "spherify_vertices":
        return kw.get("n_subdiv", 1) >= 0
    return True


def vec_of(kw, name, default):
    v = kw.get(name)
    return list(v["vec"]) if isinstance(v, dict) else list(default)


def oracle(case, ob):
    """The property sentence restated on one concrete call. Returns None or (class_key, message).
    A call below a generator's minimum resolution may be refused (any exception); if it is answered, the answer is judged
    like any other and a failure is reported as `<gen>/invalid-below-minimum`."""
    g, kw = case["gen"], case.get("kw", {})
    below = ob.get("exc") is None and not accepted(g, kw)
    try:
        r = _oracle(case, ob)
    except Exception as ex:  # noqa
        if not below:
            raise
        r = ("x", "the returned mesh cannot be judged (%r)" % (ex,))
    if r and below:
        return ("%s/invalid-below-minimum" % g, "%s(%s) is below the minimum resolution, was not refused, and returned an invalid mesh: %s"
                % (g, short(kw), r[1]))
    return r


def same_points(X, want, tol=1e-9):
    """the two point lists are equal as multisets (numbering is free)"""
    if len(X) != len(want):
        return False
    left = [list(w) + [0.0] * (3 - len(w)) for w in want]
    for p in X:
        for j, w in enumerate(left):
            if all(abs(a - b) <= tol * (1 + abs(b)) for a, b in zip(p, w)):
                del left[j]
                break
        else:
            return False
    return True


def same_segments(X, E, want, tol=1e-9):
    """the edges, as unordered pairs of POSITIONS, are the wanted segments (numbering and direction free)"""
    got = [(X[a], X[b]) for a, b in E]
    if len(got) != len(want):
        return False
    left = list(want)
    cl = lambda p, w: all(abs(a - b) <= tol * (1 + abs(b)) for a, b in zip(p, list(w) + [0.0] * (3 - len(w))))
    for p, q in got:
        for j, (u, v) in enumerate(left):
            if (cl(p, u) and cl(q, v)) or (cl(p, v) and cl(q, u)):
                del left[j]
                break
        else:
            return False
    return True


def _oracle(case, ob):
    g, kw = case["gen"], case.get("kw", {})
    if ob.get("exc") is not None:
        if ob.get("defaults_unchanged") is False:
            return ("%s/default-mutated" % g, "%s(%s): the (failing) call changed a default parameter value" % (g, short(kw)))
        if not accepted(g, kw):
            return None   # below the minimum resolution: a refusal, whatever its exception class or message
        if not admissible(g, kw):
            return None
        if case.get("form") and (set(case["form"]) & {"np", "aslist", "positional"} or any(
                isinstance(v, int) and not isinstance(v, bool) and k in ("triangulate", "generate_uvs", "open", "uv", "volume", "colored", "fill_caps", "loop")
                for k, v in kw.items())):
            return None   # an argument FORM the property does not speak about (numpy scalars, 1 for True, lists, positional): may be refused
        return ("%s/exception" % g, "%s(%s) raised %s: %s" % (g, short(kw), ob.get("exc_type"), ob["exc"][:200]))
    if ob.get("defaults_unchanged") is False:
        return ("%s/default-mutated" % g, "%s(%s): the call changed the default value of one of its own optional parameters" % (g, short(kw)))
    if ob.get("args_unchanged") is False:
        return ("%s/argument-mutated" % g, "%s(%s): the call modified an argument object passed by the caller" % (g, short(kw)))
    if ob.get("alias_free") not in (None, True):
        return ("%s/aliases-caller-array" % g, "%s(%s): editing the caller's array after the call changes the returned mesh (%s)"
                % (g, short(kw), ob.get("alias_free")))
    fr = ob.get("fresh")
    if fr is not None:
        if fr.get("error"):
            return ("%s/second-call" % g, "%s(%s): the second call with the same parameters failed: %s" % (g, short(kw), fr["error"]))
        if fr["same_object"] or fr["shared"]:
            return ("%s/not-fresh" % g, "%s(%s): two calls with the same parameters return %s; editing the first result in place changes the second"
                    % (g, short(kw), "the same mesh object" if fr["same_object"] else "meshes sharing %s" % fr["shared"]))
        if not fr["second_equal"]:
            return ("%s/not-fresh" % g, "%s(%s): after the first result was edited in place a second call returns a different mesh: %s"
                    % (g, short(kw), json.dumps(fr["second"])[:300]))
    below = not accepted(g, kw)
    if not below and not admissible(g, kw):
        return None
    V, F, X = ob["V"], ob["F"], ob["X"]
    tri = kw.get("triangulate", False)

    def fail(key, msg):
        return ("%s/%s" % (g, key), "%s(%s): %s" % (g, short(kw), msg))

    def counts(v, f, key="counts"):
        if V != v or (f is not None and len(F) != f):
            return fail(key, "%d vertices and %d faces, documented %s and %s" % (V, len(F), v, f))
        return None

    def shape(cls, key=None):
        m = shape_fail(topo(V, F), cls)
        return fail(key or "shape", "%s [expected a %s]" % (m, cls)) if m else None

    def arity(n, key="triangulate"):
        if any(len(f) != n for f in F):
            return fail(key, "faces are not all %d-gons although triangulate=%s" % (n, tri))
        return None

    def on(pred, what, key="surface"):
        for i, p in enumerate(X):
            if not pred(i, p):
                return fail(key, "vertex %d = %s is not %s" % (i, [round(c, 6) for c in p], what))
        return None

    def first(*checks):
        for c in checks:
            r = c() if callable(c) else c
            if r:
                return r
        return None

    def surface_type(tn="SurfaceMesh"):
        # the class of the returned object is left free; what matters: a volume has cells, a point cloud has no faces
        if tn == "VolumeMesh" and not ob["C"]:
            return fail("type", "no cell although a volume was requested")
        if tn == "PointCloud" and (F or ob["E"]):
            return fail("type", "faces/edges although only points were requested")
        return None

    def corners(P, key="corners"):
        return None if same_points(X, P) else fail(key, "the vertices %s are not the requested corners %s"
                                                   % ([[round(t, 6) for t in p] for p in X[:8]], [[round(t, 6) for t in p] for p in P[:8]]))

    if g == "triangle":
        P = [kw[k]["vec"] for k in ("P0", "P1", "P2")]
        return first(surface_type(), counts(3, 1), lambda: shape("disk"),
                     lambda: corners(P))
    if g == "quad":
        P0, P1, P2 = (kw[k]["vec"] for k in ("P0", "P1", "P2"))
        P3 = [b + c - a for a, b, c in zip(P0, P1, P2)]
        want = [P0, P1, P3, P2]
        return first(surface_type(), counts(4, 2 if tri else 1), lambda: arity(3 if tri else 4), lambda: shape("disk"),
                     lambda: corners(want))
    if g == "unit_grid":
        nu, nv = kw["nu"], kw["nv"]
        r = first(surface_type(), counts(nu * nv, (nu - 1) * (nv - 1) * (2 if tri else 1), "counts-nu%snv" % ("=" if nu == nv else "!=")),
                  lambda: arity(3 if tri else 4),
                  lambda: shape("disk", "shape-nu%snv" % ("=" if nu == nv else "!=")),
                  lambda: on(lambda i, p: -1e-12 <= p[0] <= 1 + 1e-12 and -1e-12 <= p[1] <= 1 + 1e-12 and p[2] == 0, "in the unit square"),
                  lambda: (None if {(round(p[0], 9), round(p[1], 9)) for p in X} >= {(0, 0), (1, 0), (0, 1), (1, 1)}
                           else fail("surface", "the corners of the unit square are not all vertices")))
        if r:
            return r
        if kw.get("generate_uvs"):
            if "uv_coords" not in ob["vattrs"] or not isinstance(ob["uv"], list):
                return fail("uvs", "generate_uvs=True but no readable uv_coords attribute (%s)" % (ob["uv"],))
            for i, (p, u) in enumerate(zip(X, ob["uv"])):
                if not (close(p[0], u[0]) and close(p[1], u[1])):
                    return fail("uvs-nu%snv" % ("=" if nu == nv else "!="), "uv of vertex %d is %s, position %s" % (i, u, p[:2]))
        return None
    if g == "unit_triangle":
        nu, nv = kw["nu"], kw["nv"]
        rel = "=" if nu == nv else ("<" if nu < nv else ">")
        r = first(surface_type(),
                  (lambda: counts(nu * (nu + 1) // 2, (nu - 1) ** 2)) if nu == nv else None,     # "half of a unit grid" of (nu-1)^2 cells
                  lambda: arity(3, "arity"),
                  lambda: shape("disk", "shape-nu%snv" % rel),
                  lambda: on(lambda i, p: -1e-12 <= p[0] <= 1 + 1e-12 and -1e-12 <= p[1] <= 1 + 1e-12 and p[2] == 0, "in the unit square"))
        if r:
            return r
        if kw.get("generate_uvs"):
            if "uv_coords" not in ob["vattrs"] or not isinstance(ob["uv"], list):
                return fail("uvs", "generate_uvs=True but no readable uv_coords attribute")
            for i, (p, u) in enumerate(zip(X, ob["uv"])):
                if not (close(p[0], u[0]) and close(p[1], u[1])):
                    return fail("uvs", "uv of vertex %d is %s, position %s" % (i, u, p[:2]))
        return None
    if g == "tetrahedron":
        P = [kw[k]["vec"] for k in ("P1", "P2", "P3", "P4")]
        vol = kw.get("volume", False)
        return first(surface_type("VolumeMesh" if vol else "SurfaceMesh"),
                     counts(4, 4), lambda: shape("sphere", "orientation"),
                     lambda: (fail("volume", "volume=%s but cells are %s" % (vol, ob["C"]))
                              if (sorted(map(sorted, ob["C"])) != ([[0, 1, 2, 3]] if vol else [])) else None),
                     lambda: corners(P))
    if g in ("hexahedron", "axis_aligned_cube", "hexahedron_4pts"):
        vol = kw.get("volume", False)
        if g == "hexahedron":
            P = [kw["P%d" % k]["vec"] for k in range(1, 9)]
        elif g == "axis_aligned_cube":
            h = 0.5
            P = [[-h, -h, -h], [h, -h, -h], [h, h, -h], [-h, h, -h], [-h, -h, h], [h, -h, h], [h, h, h], [-h, h, h]]
        else:
            P1, P2, P3, P4 = (kw[k]["vec"] for k in ("P1", "P2", "P3", "P4"))
            Xv, Yv = vsub(P2, P1), vsub(P3, P1)
            ad = lambda *vs: [sum(c) for c in zip(*vs)]
            P = [P1, ad(P1, Xv), ad(P1, Xv, Yv), ad(P1, Yv), P4, ad(P4, Xv), ad(P4, Xv, Yv), ad(P4, Yv)]
        r = None if bool(ob["C"]) == bool(vol) else True
        if r:
            return fail("volume-switch", "volume=%s, triangulate=%s but the result is a %s with %d cells and %d faces of sizes %s"
                        % (vol, tri, ob["type"], len(ob["C"]), len(F), sorted(set(len(f) for f in F))))
        if vol:
            if sorted(map(sorted, ob["C"])) != [list(range(8))] or V != 8:
                return fail("volume-switch", "volume=True but cells are %s" % (ob["C"],))
        else:
            r = first(counts(8, 12 if tri else 6), lambda: arity(3 if tri else 4), lambda: shape("sphere"))
            if r:
                return r
            if kw.get("colored") and "color" not in ob["fattrs"]:
                return fail("colored", "colored=True but no color attribute on faces")
        return corners(P)
    if g in ("octahedron", "dodecahedron"):
        v, f = (6, 8) if g == "octahedron" else (20, 12)
        r0 = vnorm(X[0]) if X else 0
        return first(surface_type(), counts(v, f), lambda: arity(3 if g == "octahedron" else 5, "arity"), lambda: shape("sphere"),
                     lambda: on(lambda i, p: close(vnorm(p), r0) and r0 > 0, "at the common distance %.6f from the origin" % r0))
    if g == "icosahedron":
        c, r = vec_of(kw, "center", [0, 0, 0]), kw.get("radius", 1.0)
        return first(surface_type(), counts(12, 20), lambda: arity(3, "arity"), lambda: shape("sphere"),
                     lambda: on(lambda i, p: at_dist(p, c, r), "at distance radius=%s from the centre %s (it is at %.6g)" % (r, c, vnorm(vsub(X[0], c))), "radius"))
    if g == "icosphere":
        n = kw.get("n_refine", 3)
        c, r = vec_of(kw, "center", [0, 0, 0]), kw.get("radius", 1.0)
        return first(surface_type(), counts(10 * 4 ** n + 2, 20 * 4 ** n), lambda: arity(3, "arity"), lambda: shape("sphere"),
                     lambda: on(lambda i, p: close(vnorm(vsub(p, c)), r), "at distance radius=%s from the centre (it is at %.6f)" % (r, vnorm(vsub(X[0], c))),
                                "radius-n_refine=0" if n == 0 else "radius"))
    if g == "sphere_fibonacci":
        n, r = kw["n_pts"], kw.get("radius", 1.0)
        bs = kw.get("build_surface", True)
        return first(surface_type("SurfaceMesh" if bs else "PointCloud"), counts(n, None),
                     (lambda: arity(3, "arity")) if bs else None, (lambda: shape("sphere")) if bs else None,
                     lambda: on(lambda i, p: close(vnorm(p), r), "at distance radius=%s from the origin" % r))
    if g == "cylinder":
        N, caps = kw["N"], kw.get("fill_caps", True)
        P1, P2, r = kw["P1"]["vec"], kw["P2"]["vec"], kw.get("radius", 1.0)
        ax = vsub(P2, P1)
        L = vnorm(ax)
        ax = [a / L for a in ax]

        def onc(i, p):
            for base in (P1, P2):
                d = vsub(p, base)
                if caps and vnorm(d) <= 1e-9 * (abs(r) + L):
                    return True          # a cap centre
                if abs(vdot(d, ax)) <= 1e-9 * (abs(r) + 1e-6 * L) and at_dist(p, base, r):
                    return True          # on the rim of that end
            return False
        # "N segments": N vertices on each rim (+ the two cap centres); the sides may be quads or triangles, but when every face
        # is a triangle their number is fixed: 2N on the side and N per cap
        return first(surface_type(), counts(2 * N + (2 if caps else 0), (4 * N if caps else 2 * N) if all(len(f) == 3 for f in F) else None),
                     lambda: shape("sphere" if caps else "annulus"),
                     lambda: on(onc, "at distance radius=%s from the axis in the end plane / the cap centre" % r))
    if g == "torus":
        M_, m_ = kw["major_segments"], kw["minor_segments"]
        R, r = kw.get("major_radius", 1.0), kw.get("minor_radius", 0.3)
        return first(surface_type(), counts(M_ * m_, M_ * m_ * (2 if tri else 1)), lambda: arity(3 if tri else 4), lambda: shape("torus"),
                     lambda: on(lambda i, p: abs((math.hypot(p[0], p[1]) - R) ** 2 + p[2] ** 2 - r * r) <= 1e-9 * R * R, "on the torus of radii %s, %s" % (R, r)))
    if g == "sphere_uv":
        nl, ng = kw["n_lat"], kw["n_long"]
        c, r = vec_of(kw, "center", [0, 0, 0]), kw.get("radius", 1.0)
        return first(surface_type(), counts(nl * ng + 2, None), lambda: shape("sphere", "unused-ring" if not topo(V, F)["all_used"] else "shape"),
                     lambda: on(lambda i, p: at_dist(p, c, r), "at distance radius=%s from the centre %s" % (r, c)),
                     lambda: (None if len({round((p[2] - c[2]) / r, 9) for p in X}) == nl + 2 else
                              fail("latitudes", "%d distinct latitudes besides the poles, n_lat=%d" % (len({round((p[2] - c[2]) / r, 9) for p in X}) - 2, nl))))
    if g == "ring":
        N, k, op = kw["N"], kw.get("n_cover", 1), kw.get("open", False)
        d = max(min(kw["defect"], 2 * math.pi - 0.01), 0.)
        r = first(surface_type(), counts(N * k + (2 if op else 1), N * k), lambda: arity(3, "arity"), lambda: shape("disk"))
        if r:
            return r
        common = sorted(set(F[0]).intersection(*[set(f) for f in F]))
        if not common:
            return fail("apex", "the triangles do not share an apex vertex")
        res = None
        for apex in common:     # with one or two triangles several vertices are common: any of them may be the apex
            res = on(lambda i, p: i == apex or (close(math.hypot(p[0], p[1]), 1.0) and abs(p[2]) <= 1e-12), "on the unit circle")
            if res is None:
                tot = sum(angle(X[f[(f.index(apex) + 1) % 3]], X[apex], X[f[(f.index(apex) + 2) % 3]]) for f in F)
                if abs(tot - k * (2 * math.pi - d)) > 1e-4 * k:
                    res = fail("defect", "apex angle sum %.6f, requested %.6f (defect %.6f, n_cover %d)" % (tot, k * (2 * math.pi - d), d, k))
            if res is None:
                return None
        return res
    if g == "flat_ring":
        N, k = kw["N"], kw.get("n_cover", 1)
        d = max(min(kw["defect"], 2 * math.pi - 0.01), 0.)
        r = first(surface_type(), counts(N * k + 2, N * k), lambda: arity(3, "arity"), lambda: shape("disk"))
        if r:
            return r
        common = sorted(set(F[0]).intersection(*[set(f) for f in F]))
        if not common:
            return fail("apex", "the triangles do not share an apex vertex")
        res = None
        for apex in common:
            res = on(lambda i, p: abs(p[2]) <= 1e-12 and (vnorm(p) <= 1e-12 if i == apex else close(vnorm(p), 1.0)), "on the flat unit circle")
            if res is None:
                for f in F:
                    j = f.index(apex)
                    a = angle(X[f[(j + 1) % 3]], X[apex], X[f[(j + 2) % 3]])
                    if abs(a - (2 * math.pi - d) / N) > 1e-9:
                        res = fail("defect", "apex angle %.9f of face %s, requested %.9f" % (a, f, (2 * math.pi - d) / N))
                        break
            if res is None:
                return None
        return res
    if g == "chain_of_vertices":
        pts = kw["vertices"]["arr"]
        n, lp = len(pts), kw.get("loop", False)
        want = [(pts[i], pts[(i + 1) % n]) for i in range(n if lp else n - 1)]
        if V != n or F or not same_points(X, pts) or not same_segments(X, ob["E"], want):
            return fail("edges", "%d vertices, edges %s: not the %s chain through the %d input points in order"
                        % (V, sorted(tuple(sorted(e)) for e in ob["E"]), "closed" if lp else "open", n))
        return None
    if g == "vector_field":
        o, v, mlt = kw["origins"]["arr"], kw["vectors"]["arr"], kw.get("length_mult", 1.0)
        n = len(o)
        pad = lambda w: list(w) + [0.0] * (3 - len(w))
        want = [(pad(o[i]), [a + mlt * b for a, b in zip(pad(o[i]), pad(v[i]))]) for i in range(n)]
        if V != 2 * n or F or not same_segments(X, ob["E"], want):
            return fail("edges", "%d vertices, edges %s: not one segment origin -> origin + length_mult * vector per input point"
                        % (V, sorted(tuple(sorted(e)) for e in ob["E"])))
        return None
    if g == "dual_mesh":
        src = (ob.get("inputs") or {}).get("mesh") or case["_src_obs"]
        ts = topo(src["V"], src["F"])
        if not (ts["closed"] and ts["oriented_manifold"] and ts["vertex_manifold"] and ts["all_used"] and ts["connected"]):
            # the faces of the dual of a bordered surface are not specified; its vertices are
            return dual_points_fail(g, kw, src, X) if V == len(src["F"]) else fail("counts", "%d dual vertices for %d faces" % (V, len(src["F"])))
        t = topo(V, F)
        r = first(surface_type(), counts(len(src["F"]), src["V"]))
        if r:
            return r
        for k in ("in_range", "all_used", "oriented_manifold", "vertex_manifold", "connected", "closed"):
            if not t[k]:
                return fail("shape", "the dual of a closed oriented manifold fails `%s`" % k)
        if t["euler"] != ts["euler"]:
            return fail("shape", "Euler characteristic %d, primal %d" % (t["euler"], ts["euler"]))
        # dual face of vertex v = the faces around v
        for v, f in enumerate(F):
            if sorted(f) != sorted(i for i, pf in enumerate(src["F"]) if v in pf):
                return fail("shape", "dual face %d is %s, faces around the vertex are different" % (v, f))
        return dual_points_fail(g, kw, src, X)
    if g == "spherify_vertices":
        pts = ((ob.get("inputs") or {}).get("points") or {}).get("X") or kw["points"]["cloud"]
        n, rad = kw.get("n_subdiv", 1), kw.get("radius", 1e-2)
        per = 10 * 4 ** n + 2
        if V != per * len(pts) or len(F) != 20 * 4 ** n * len(pts):
            return fail("counts", "%d vertices, %d faces for %d points" % (V, len(F), len(pts)))
        for k, c in enumerate(pts):
            sub = [[v - k * per for v in f] for f in F[k * 20 * 4 ** n:(k + 1) * 20 * 4 ** n]]
            m = shape_fail(topo(per, sub), "sphere")
            if m:
                return fail("shape", "sphere %d: %s" % (k, m))
            for p in X[k * per:(k + 1) * per]:
                if not close(vnorm(vsub(p, c)), rad, 1e-7):
                    return fail("radius" + ("-n_subdiv=0" if n == 0 else ""), "a vertex of sphere %d is at %.6g from its point, radius %s" % (k, vnorm(vsub(p, c)), rad))
        return None
    if g == "cylindrify_edges":
        inp = (ob.get("inputs") or {}).get("mesh")
        pl = {"V": inp["X"], "E": inp["E"]} if inp else kw["mesh"]["polyline"]
        N = kw.get("N", 50)
        ne = len(pl["E"])
        if ne == 0:
            return None if V == 0 else fail("counts", "no edge but %d vertices" % V)
        if V != 2 * N * ne or len(F) != 2 * N * ne:
            return fail("counts", "%d vertices, %d faces for %d edges" % (V, len(F), ne))
        for k in range(ne):
            sub = [[v - 2 * N * k for v in f] for f in F[2 * N * k:2 * N * (k + 1)]]
            m = shape_fail(topo(2 * N, sub), "annulus")
            if m:
                return fail("shape", "cylinder %d: %s" % (k, m))
        # cylinder k goes around edge k of the mesh as given, at radius * (mean edge length now)
        Ls = [vnorm(vsub(pl["V"][b], pl["V"][a])) for a, b in pl["E"]]
        L = sum(Ls) / len(Ls)
        rad = kw.get("radius", 5e-2) * L
        for k, (a, b) in enumerate(pl["E"]):
            A, B = pl["V"][a], pl["V"][b]
            ax = vsub(B, A)
            la = vnorm(ax)
            if la == 0:
                continue
            ax = [t / la for t in ax]
            for j, p in enumerate(X[2 * N * k:2 * N * (k + 1)]):
                base = A if j < N else B
                d = vsub(p, base)
                if abs(vdot(d, ax)) > 1e-7 * (rad + la) or abs(vnorm(d) - rad) > 1e-7 * rad:
                    return fail("surface", "vertex %d of cylinder %d is not at radius*mean edge length = %.6g around edge %s of the mesh as given"
                                % (j, k, rad, (a, b)))
        return None
    return None


def cross(u, v):
    return [u[1] * v[2] - u[2] * v[1], u[2] * v[0] - u[0] * v[2], u[0] * v[1] - u[1] * v[0]]


def dual_points_fail(g, kw, src, X):
    """dual vertex k sits at the barycenter / circumcenter of face k of the input mesh AS IT IS NOW (current coordinates)"""
    mode = str(kw.get("mode", "barycenter")).lower()
    size = max([1e-300] + [abs(t) for p in src["X"] for t in p])
    for k, f in enumerate(src["F"]):
        P = [src["X"][v] for v in f]
        if mode == "barycenter":
            want = [sum(p[d] for p in P) / len(P) for d in range(3)]
        elif mode == "circumcenter" and len(P) == 3:
            a, b = vsub(P[1], P[0]), vsub(P[2], P[0])
            n = cross(a, b)
            nn = vdot(n, n)
            if nn <= 1e-24 * size ** 4:
                continue
            u, w = cross(b, n), cross(n, a)
            want = [P[0][d] + (vdot(a, a) * u[d] + vdot(b, b) * w[d]) / (2 * nn) for d in range(3)]
        else:
            continue
        if max(abs(x - y) for x, y in zip(X[k], want)) > 1e-7 * size:
            return ("%s/dual-point-%s" % (g, mode), "%s(%s): dual vertex %d is at %s, the %s of face %d of the mesh as given is %s"
                    % (g, short(kw), k, [round(t, 6) for t in X[k]], mode, k, [round(t, 6) for t in want]))
    return None


def short(kw):
    def s(v):
        if isinstance(v, dict):
            if "vec" in v:
                return "Vec%s" % (tuple(v["vec"]),)
            if "arr" in v:
                return "array(%d rows)" % len(v["arr"])
            if "mesh" in v:
                return "%s(%s)" % (v["mesh"]["gen"], short(v["mesh"].get("kw", {})))
            if "used" in v:
                return "USED[%s; all persistent mouette.attributes computed%s; then edited %s]" % (
                    short({"base": v["used"]["base"]}), ", values overwritten by junk" if v["used"].get("junk") else "", json.dumps(v["used"].get("edit", {})))
            return "<%s>" % list(v)[0]
        return repr(v)
    return ", ".join("%s=%s" % (k, s(v)) for k, v in kw.items())


def check_bisection_hypotheses(N):
    """The three facts about  g(h) = 2 pi - N * angle_3pts(A, (0,0,h), B)  that C14_ring_apex_defect assumes."""
    A = [1.0, 0.0, 0.0]
    B = [math.cos(2 * math.pi / N), math.sin(2 * math.pi / N), 0.0]
    g = lambda h: 2 * math.pi - N * angle(A, [0.0, 0.0, h], B)
    if abs(g(0.0)) > 1e-12:
        return "g(0) = %r is not 0 for N = %d" % (g(0.0), N)
    hs = [0.0] + [10 ** (k / 8.0 - 3) for k in range(0, 8 * 9)]
    vals = [g(h) for h in hs]
    for a, b, x, y in zip(hs, hs[1:], vals, vals[1:]):
        if y < x - 1e-13:
            return "defect not monotone in the apex height between h=%g and h=%g for N = %d" % (a, b, N)
    dmax = 2 * math.pi - 0.01
    h1, h2 = 0.0, 10.0
    for _ in range(60):
        if g(h2) >= dmax:
            break
        if abs(g(h1) - g(h2)) < 1e-6:
            return "the bracket (%g, %g) is still below the largest request but its ends differ by < 1e-6 (N = %d)" % (h1, h2, N)
        h1, h2 = h2, 2 * h2
    else:
        return "bracket enlargement does not reach the largest request for N = %d" % N
    return None


# ====================================================================== case generators
def V3(x, y, z):
    return {"vec": [x, y, z]}


def dy(rng, lo=-3, hi=3, den=4):
    return rng.randint(lo * den, hi * den) / den


def rvec(rng):
    return V3(dy(rng), dy(rng), dy(rng))


SHAPE = {"triangle": 3, "quad": 3, "unit_grid": 3, "unit_triangle": 3, "tetrahedron": 1, "hexahedron": 1,
         "axis_aligned_cube": 1, "hexahedron_4pts": 1, "octahedron": 1, "dodecahedron": 1, "icosahedron": 1,
         "torus": 2, "sphere_uv": 1, "ring": 3, "flat_ring": 3}


def gen_cases(rng, tier):
    quick = tier == "quick"
    R = 7 if quick else 10
    cs = []
    add = lambda g, **kw: cs.append({"gen": g, "kw": kw})
    b2 = (False, True)
    # -- constant-table generators, all switches
    for _ in range(2 if quick else 8):
        add("triangle", P0=rvec(rng), P1=rvec(rng), P2=rvec(rng))
        for t in b2:
            add("quad", P0=rvec(rng), P1=rvec(rng), P2=rvec(rng), triangulate=t)
        for v in b2:
            add("tetrahedron", P1=rvec(rng), P2=rvec(rng), P3=rvec(rng), P4=rvec(rng), volume=v)
        for c, t, v in itertools.product(b2, b2, b2):
            add("hexahedron", **{"P%d" % k: rvec(rng) for k in range(1, 9)}, colored=c, triangulate=t, volume=v)
        for c, v in itertools.product(b2, b2):
            add("hexahedron_4pts", P1=rvec(rng), P2=rvec(rng), P3=rvec(rng), P4=rvec(rng), colored=c, volume=v)
        add("icosahedron", center=rvec(rng), radius=rng.choice([0.5, 1.0, 1.25, 2.0, 3.0]))
    for c, t in itertools.product(b2, b2):
        add("axis_aligned_cube", colored=c, triangulate=t)
    add("octahedron")
    add("dodecahedron")
    add("icosahedron")
    add("icosahedron", uv=True)
    # -- all small resolutions (incl. minimal and unequal), all switches
    for nu in range(2, R + 1):
        for nv in range(2, R + 1):
            for t in b2:
                add("unit_grid", nu=nu, nv=nv, triangulate=t, generate_uvs=(nu + nv + t) % 3 == 0)
            add("unit_triangle", nu=nu, nv=nv, generate_uvs=(nu + nv) % 3 == 0)
    for a in range(3, R + 1):
        for b in range(3, R + 1):
            for t in b2:
                add("torus", major_segments=a, minor_segments=b, triangulate=t,
                    major_radius=rng.choice([1.0, 2.0, 1.5]), minor_radius=rng.choice([0.25, 0.5, 0.3]))
    for nl in range(1, R + 1):
        for ng in range(3, R + 1):
            add("sphere_uv", n_lat=nl, n_long=ng, center=rvec(rng), radius=rng.choice([0.5, 1.0, 1.2, 2.0]))
    for N in range(3, 2 * R):
        for caps in b2:
            P1 = rvec(rng)
            P2 = rvec(rng)
            while P2 == P1:
                P2 = rvec(rng)
            if N % 3 == 0:   # axis along z: exercises the alternative tangent vector
                P2 = V3(P1["vec"][0], P1["vec"][1], P1["vec"][2] + rng.choice([1, 2, -1.5]))
            add("cylinder", P1=P1, P2=P2, radius=rng.choice([0.5, 1.0, 0.75, 2.0]), N=N, fill_caps=caps)
    for N in range(3, R + 4):
        for k in (1, 2, 3):
            for op in b2:
                add("ring", N=N, defect=rng.choice([0.0, 0.1, 0.5, 1.0, math.pi / 2, 3.0, 5.0, 7.0, -1.0]), open=op, n_cover=k)
            add("flat_ring", N=N, defect=rng.choice([0.0, 0.2, 1.0, math.pi, 6.0]), n_cover=k)
    for N in (1, 2):
        add("flat_ring", N=N, defect=0.5, n_cover=1)
    # malformed stream: every resolution below a generator's minimum must be rejected by its guard
    for N in (-1, 0, 1, 2):
        for op in b2:
            add("ring", N=N, defect=0.3, open=op, n_cover=rng.choice([1, 2]))
    for k in (0, -1):
        add("ring", N=4, defect=0.3, open=False, n_cover=k)
        add("flat_ring", N=4, defect=0.3, n_cover=k)
    for N in (0, -2):
        add("flat_ring", N=N, defect=0.3, n_cover=1)
    for a, b in ((1, 1), (1, 3), (3, 1), (0, 2), (2, 0), (-1, 4)):
        add("unit_grid", nu=a, nv=b, triangulate=rng.random() < .5, generate_uvs=False)
        add("unit_triangle", nu=a, nv=b, generate_uvs=False)
    for a, b in ((2, 5), (5, 2), (1, 1), (0, 4), (2, 2)):
        add("torus", major_segments=a, minor_segments=b, triangulate=rng.random() < .5, major_radius=1.0, minor_radius=0.3)
    for a, b in ((0, 5), (1, 2), (3, 1), (-1, 4), (2, 0)):
        add("sphere_uv", n_lat=a, n_long=b, center=V3(0, 0, 0), radius=1.0)
    for N in (2, 1, 0, -3):
        for caps in b2:
            add("cylinder", P1=V3(0, 0, 0), P2=V3(0, 0, 1), radius=1.0, N=N, fill_caps=caps)
    for n in range(1, R + 4):
        for lp in b2:
            if lp and n < 2:
                continue   # a closed chain on one point is the self-loop (0,0), which RawMeshData.prepare discards
            dim = rng.choice([2, 3])
            add("chain_of_vertices", vertices={"arr": [[dy(rng) for _ in range(dim)] for _ in range(n)]}, loop=lp)
    for n in range(1, R + 2):
        dim = rng.choice([2, 3])
        add("vector_field", origins={"arr": [[dy(rng) for _ in range(dim)] for _ in range(n)]},
            vectors={"arr": [[dy(rng) for _ in range(dim)] for _ in range(n)]}, length_mult=rng.choice([1.0, 0.5, 2.0]))
    cs += gen_forms(rng)
    # -- random larger ones
    nbig = 24 if quick else 600
    for _ in range(nbig):
        g = rng.choice(["unit_grid", "unit_triangle", "torus", "sphere_uv", "cylinder", "ring", "flat_ring"])
        a, b = rng.randint(2, 40), rng.randint(3, 40)
        if g == "unit_grid":
            add(g, nu=a, nv=b, triangulate=rng.random() < .5, generate_uvs=rng.random() < .3)
        elif g == "unit_triangle":
            add(g, nu=a, nv=b, generate_uvs=rng.random() < .3)
        elif g == "torus":
            add(g, major_segments=a + 1, minor_segments=b, triangulate=rng.random() < .5, major_radius=2.0, minor_radius=0.5)
        elif g == "sphere_uv":
            add(g, n_lat=a, n_long=b, center=rvec(rng), radius=1.5)
        elif g == "cylinder":
            add(g, P1=V3(0, 0, 0), P2=V3(1, 2, 2), radius=0.5, N=a + b, fill_caps=rng.random() < .5)
        elif g == "ring":
            add(g, N=b, defect=rng.random() * 6, open=rng.random() < .5, n_cover=rng.randint(1, 3))
        else:
            add(g, N=b, defect=rng.random() * 6, n_cover=rng.randint(1, 3))
    return cs


POSITIONAL = {
    "hexahedron_4pts": ["P1", "P2", "P3", "P4", "colored", "volume"],
    "torus": ["major_segments", "minor_segments", "major_radius", "minor_radius", "triangulate"],
    "ring": ["N", "defect", "open", "n_cover"],
    "flat_ring": ["N", "defect", "n_cover"],
    "unit_grid": ["nu", "nv", "triangulate", "generate_uvs"],
    "unit_triangle": ["nu", "nv", "generate_uvs"],
    "cylinder": ["P1", "P2", "radius", "N", "fill_caps"],
    "sphere_uv": ["n_lat", "n_long", "center", "radius"],
    "quad": ["P0", "P1", "P2", "triangulate"],
    "tetrahedron": ["P1", "P2", "P3", "P4", "volume"],
    "axis_aligned_cube": ["colored", "triangulate"],
    "icosahedron": ["center", "radius", "uv"],
    "chain_of_vertices": ["vertices", "loop"],
    "vector_field": ["origins", "vectors", "length_mult"],
}


def gen_forms(rng):
    """Call forms, numeric representations, scales, degenerate geometry: the same generators reached in every way a
    caller may reach them.  `kw` stays the canonical keyword form (defaults filled in); `form` tells the driver how to call."""
    cs = []
    Z0 = V3(0, 0, 0)

    def add(g, form=None, **kw):
        c = {"gen": g, "kw": kw}
        if form:
            c["form"] = form
        cs.append(c)
    # -- every optional argument omitted (defaults, incl. the mutable Vec defaults), twice in a row by the driver
    add("sphere_uv", {"omit": ["center", "radius"]}, n_lat=3, n_long=4, center=Z0, radius=1.0)
    add("sphere_uv", {"omit": ["center", "radius"]}, n_lat=2, n_long=5, center=Z0, radius=1.0)
    add("sphere_uv", {"omit": ["n_lat", "n_long", "center", "radius"]}, n_lat=30, n_long=50, center=Z0, radius=1.0)
    add("icosahedron", {"omit": ["center", "radius", "uv"]}, center=Z0, radius=1.0, uv=False)
    add("torus", {"omit": ["major_segments", "minor_segments", "major_radius", "minor_radius", "triangulate"]},
        major_segments=50, minor_segments=30, major_radius=1.0, minor_radius=0.3, triangulate=False)
    add("cylinder", {"omit": ["radius", "N", "fill_caps"]}, P1=Z0, P2=V3(0, 0, 1), radius=1.0, N=50, fill_caps=True)
    add("ring", {"omit": ["open", "n_cover"]}, N=5, defect=0.4, open=False, n_cover=1)
    add("flat_ring", {"omit": ["n_cover"]}, N=5, defect=0.4, n_cover=1)
    add("unit_grid", {"omit": ["triangulate", "generate_uvs"]}, nu=3, nv=4, triangulate=False, generate_uvs=False)
    add("unit_triangle", {"omit": ["generate_uvs"]}, nu=3, nv=4, generate_uvs=False)
    add("quad", {"omit": ["triangulate"]}, P0=rvec(rng), P1=rvec(rng), P2=rvec(rng), triangulate=False)
    add("tetrahedron", {"omit": ["volume"]}, P1=rvec(rng), P2=rvec(rng), P3=rvec(rng), P4=rvec(rng), volume=False)
    add("hexahedron", {"omit": ["colored", "triangulate", "volume"]}, **{"P%d" % k: rvec(rng) for k in range(1, 9)},
        colored=False, triangulate=False, volume=False)
    add("hexahedron_4pts", {"omit": ["colored", "volume"]}, P1=rvec(rng), P2=rvec(rng), P3=rvec(rng), P4=rvec(rng), colored=False, volume=False)
    add("axis_aligned_cube", {"omit": ["colored", "triangulate"]}, colored=False, triangulate=False)
    add("chain_of_vertices", {"omit": ["loop"]}, vertices={"arr": [[dy(rng) for _ in range(3)] for _ in range(4)]}, loop=False)
    add("vector_field", {"omit": ["length_mult"]}, origins={"arr": [[dy(rng)] * 3 for _ in range(3)]},
        vectors={"arr": [[dy(rng) for _ in range(3)] for _ in range(3)]}, length_mult=1.0)
    # -- everything positional
    for g, kw in (
        ("hexahedron_4pts", dict(P1=rvec(rng), P2=rvec(rng), P3=rvec(rng), P4=rvec(rng), colored=True, volume=True)),
        ("hexahedron_4pts", dict(P1=rvec(rng), P2=rvec(rng), P3=rvec(rng), P4=rvec(rng), colored=False, volume=True)),
        ("hexahedron_4pts", dict(P1=rvec(rng), P2=rvec(rng), P3=rvec(rng), P4=rvec(rng), colored=True, volume=False)),
        ("torus", dict(major_segments=4, minor_segments=3, major_radius=2.0, minor_radius=0.5, triangulate=True)),
        ("ring", dict(N=5, defect=0.3, open=True, n_cover=2)),
        ("flat_ring", dict(N=4, defect=0.5, n_cover=2)),
        ("unit_grid", dict(nu=3, nv=4, triangulate=True, generate_uvs=True)),
        ("unit_triangle", dict(nu=3, nv=5, generate_uvs=True)),
        ("cylinder", dict(P1=Z0, P2=V3(1, 2, 2), radius=0.5, N=5, fill_caps=False)),
        ("sphere_uv", dict(n_lat=2, n_long=4, center=rvec(rng), radius=2.0)),
        ("quad", dict(P0=rvec(rng), P1=rvec(rng), P2=rvec(rng), triangulate=True)),
        ("tetrahedron", dict(P1=rvec(rng), P2=rvec(rng), P3=rvec(rng), P4=rvec(rng), volume=True)),
        ("axis_aligned_cube", dict(colored=True, triangulate=True)),
        ("icosahedron", dict(center=rvec(rng), radius=2.0, uv=True)),
        ("chain_of_vertices", dict(vertices={"arr": [[dy(rng) for _ in range(3)] for _ in range(5)]}, loop=True)),
        ("vector_field", dict(origins={"arr": [[dy(rng), dy(rng)] for _ in range(3)]}, vectors={"arr": [[dy(rng), dy(rng)] for _ in range(3)]}, length_mult=0.5)),
    ):
        add(g, {"positional": POSITIONAL[g]}, **kw)
    # -- numeric representations of resolutions, switches and radii
    add("torus", {"np": {"major_segments": "int64", "minor_segments": "int32", "triangulate": "bool_"}},
        major_segments=3, minor_segments=4, major_radius=1.0, minor_radius=0.25, triangulate=True)
    add("unit_grid", {"np": {"nu": "int32", "nv": "int64"}}, nu=3, nv=4, triangulate=1, generate_uvs=0)
    add("unit_triangle", {"np": {"nu": "uint8", "nv": "int16"}}, nu=3, nv=4, generate_uvs=1)
    add("cylinder", {"np": {"N": "int64", "radius": "float32", "fill_caps": "bool_"}}, P1=Z0, P2=V3(0, 2, 0), radius=0.5, N=4, fill_caps=False)
    add("sphere_uv", {"np": {"n_lat": "uint8", "n_long": "int32", "radius": "float32"}}, n_lat=2, n_long=3, center=Z0, radius=2.0)
    add("sphere_uv", None, n_lat=2, n_long=3, center=V3(1, 0, 0), radius=2)      # radius as a Python int
    add("ring", {"np": {"N": "int32", "n_cover": "int64"}}, N=4, defect=0.3, open=1, n_cover=2)
    add("flat_ring", {"np": {"N": "int64", "n_cover": "uint8"}}, N=3, defect=0.3, n_cover=2)
    add("icosahedron", {"np": {"radius": "float32"}}, center=Z0, radius=0.5, uv=False)
    # -- counts beyond 256 (identity vs equality of small integers)
    add("ring", None, N=300, defect=1.0, open=False, n_cover=1)
    add("flat_ring", None, N=260, defect=1.0, n_cover=1)
    add("cylinder", None, P1=Z0, P2=V3(0, 0, 3), radius=1.0, N=257, fill_caps=True)
    add("chain_of_vertices", None, vertices={"arr": [[float(i), 0.0, 0.0] for i in range(300)]}, loop=True)
    # -- the property is scale-free: tiny and huge radii
    for r in (1e-7, 1e39):
        add("sphere_uv", None, n_lat=2, n_long=4, center=Z0, radius=r)
        add("icosahedron", None, center=Z0, radius=r, uv=False)
        add("cylinder", None, P1=Z0, P2=V3(0, 0, 1), radius=r, N=4, fill_caps=True)
        add("torus", None, major_segments=3, minor_segments=4, major_radius=r, minor_radius=r / 4, triangulate=False)
    # -- zero where a truthiness test would go wrong
    add("vector_field", None, origins={"arr": [[0.0, 0.0, 0.0], [1.0, 0.0, 0.0]]}, vectors={"arr": [[0.0, 1.0, 0.0], [0.0, 0.0, 1.0]]}, length_mult=0.0)
    add("ring", None, N=4, defect=0.0, open=True, n_cover=1)
    add("flat_ring", None, N=4, defect=0.0, n_cover=1)
    add("icosahedron", None, center=Z0, radius=1.0, uv=0)
    # -- degenerate geometry, valid combinatorics
    P = rvec(rng)
    add("triangle", None, P0=P, P1=P, P2=P)
    add("quad", None, P0=Z0, P1=V3(1, 0, 0), P2=V3(2, 0, 0), triangulate=True)
    add("tetrahedron", None, P1=P, P2=P, P3=P, P4=P, volume=False)
    add("hexahedron", None, **{"P%d" % k: P for k in range(1, 9)}, colored=True, triangulate=True, volume=False)
    add("hexahedron_4pts", None, P1=P, P2=P, P3=P, P4=P, colored=False, volume=False)
    add("chain_of_vertices", None, vertices={"arr": [[1.0, 1.0, 1.0]] * 4}, loop=True)
    add("vector_field", {"aslist": ["origins", "vectors"]}, origins={"arr": [[0.0, 0.0, 0.0]] * 3}, vectors={"arr": [[0.0, 0.0, 0.0]] * 3}, length_mult=2.0)
    return cs


def gen_outside(rng, tier):
    """Generators outside the generated model: checked by the oracle only."""
    quick = tier == "quick"
    cs = []
    add = lambda g, **kw: cs.append({"gen": g, "kw": kw})
    for n in (0, 1, 2) if quick else (0, 1, 2, 3):
        add("icosphere", n_refine=n, center=rvec(rng), radius=rng.choice([0.5, 1.0, 1.2]))
    for n in ([4, 5, 6, 7, 8, 10, 13, 20, 50] if quick else list(range(4, 40)) + [50, 100, 300]):
        add("sphere_fibonacci", n_pts=n, radius=rng.choice([1.0, 0.5, 2.0]), build_surface=True)
    add("sphere_fibonacci", n_pts=9, radius=2.0, build_surface=False)
    add("spherify_vertices", points={"cloud": [[dy(rng) for _ in range(3)] for _ in range(3)]}, radius=0.25, n_subdiv=1)
    add("spherify_vertices", points={"cloud": [[dy(rng) for _ in range(3)] for _ in range(2)]}, radius=0.5, n_subdiv=0)
    add("cylindrify_edges", mesh={"polyline": {"V": [[0, 0, 0], [1, 0, 0], [1, 1, 0], [1, 1, 2]], "E": [[0, 1], [1, 2], [2, 3]]}}, radius=0.05, N=5)
    add("cylindrify_edges", mesh={"polyline": {"V": [[0, 0, 0], [1, 0, 0]], "E": [[0, 1]]}}, radius=0.1, N=3)
    # inputs that arrive used and edited
    pl = {"polyline": {"V": [[0, 0, 0], [1, 0, 0], [1, 1, 0], [1, 1, 2]], "E": [[0, 1], [1, 2], [2, 3]]}}
    for junk in (False, True):
        add("cylindrify_edges", mesh={"used": {"base": pl, "edit": {"scale": [2.0, 0.5, 3.0], "translate": [1.0, 1.0, 1.0]}, "junk": junk}}, radius=0.05, N=4)
        add("spherify_vertices", points={"used": {"base": {"mesh": {"gen": "tetrahedron", "kw": {"P1": V3(0, 0, 0), "P2": V3(1, 0, 0), "P3": V3(0, 1, 0), "P4": V3(0, 0, 1)}}},
                                                  "edit": {"scale": [2.0, 2.0, 2.0], "translate": [0.5, 0.0, -1.0]}, "junk": junk}}, radius=0.25, n_subdiv=1)
        add("spherify_vertices", points={"used": {"base": {"cloud": [[dy(rng) for _ in range(3)] for _ in range(3)]},
                                                  "edit": {"translate": [3.0, 0.0, 0.0], "move": [1, 0.5, 0.5, 0.0]}, "junk": junk}}, radius=0.5, n_subdiv=0)
    return cs


def gen_duals(rng, tier):
    quick = tier == "quick"
    src = [{"gen": "axis_aligned_cube", "kw": {}}, {"gen": "axis_aligned_cube", "kw": {"triangulate": True}},
           {"gen": "icosahedron", "kw": {}}, {"gen": "octahedron", "kw": {}}, {"gen": "dodecahedron", "kw": {}},
           {"gen": "tetrahedron", "kw": {"P1": V3(0, 0, 0), "P2": V3(1, 0, 0), "P3": V3(0, 1, 0), "P4": V3(0, 0, 1)}}]
    for a, b in ((3, 3), (3, 4), (4, 3), (5, 4)) if quick else itertools.product(range(3, 7), range(3, 7)):
        src.append({"gen": "torus", "kw": {"major_segments": a, "minor_segments": b, "triangulate": (a + b) % 2 == 0}})
        src.append({"gen": "sphere_uv", "kw": {"n_lat": a - 1, "n_long": b}})
        src.append({"gen": "cylinder", "kw": {"P1": V3(0, 0, 0), "P2": V3(0, 1, 2), "N": a + b, "fill_caps": True}})
    # bordered inputs (the dual is then only compared with the model, not judged)
    src.append({"gen": "unit_grid", "kw": {"nu": 3, "nv": 3}})
    src.append({"gen": "ring", "kw": {"N": 5, "defect": 0.3}})
    out = [{"gen": "dual_mesh", "kw": {"mesh": {"mesh": s}}, "_src": s} for s in src]
    # the input arrives "used": every persistent attribute of mouette.attributes computed on it (or user attributes of those
    # names holding junk), THEN the geometry edited - the dual must be the dual of the mesh as it is now
    edits = [{"scale": [3.0, 3.0, 3.0], "translate": [1.0, -2.0, 0.5]}, {"scale": [1.0, 2.0, 0.5]},
             {"translate": [0.0, 0.0, 4.0], "move": [2, 0.25, 0.0, -0.125]}, {"scale": [-1.0, 1.0, 1.0], "move": [0, 0.5, 0.5, 0.5]}]
    tri_src = [src[2], src[1], src[3], src[5], src[6]]
    k = 0
    for s_ in tri_src + [src[0], src[4]]:
        for mode in ("barycenter", "circumcenter"):
            if mode == "circumcenter" and s_ not in tri_src:
                continue
            for junk in (False, True):
                kw = {"mesh": {"used": {"base": {"mesh": s_}, "edit": edits[k % len(edits)], "junk": junk}}}
                if mode != "barycenter" or k % 2:
                    kw["mode"] = mode
                out.append({"gen": "dual_mesh", "kw": kw, "_src": s_})
                k += 1
    tris = [src[1], src[2], src[3], src[5]]
    for s_, mode in zip(tris, ("Barycenter", "CIRCUMCENTER", "circumcenter", "BaryCenter")):
        out.append({"gen": "dual_mesh", "kw": {"mesh": {"mesh": s_}, "mode": mode}, "_src": s_})
    # the same closed surfaces with renumbered vertices, rotated corner lists and shuffled faces (oriented consistently)
    octa = [[0, 4, 1], [0, 1, 2], [0, 2, 3], [0, 3, 4], [1, 4, 5], [1, 5, 2], [2, 5, 3], [3, 5, 4]]
    Xo = [[0, 0, 1], [1, 0, 0], [0, 1, 0], [-1, 0, 0], [0, -1, 0], [0, 0, -1]]
    for _ in range(2 if quick else 6):
        perm = list(range(6))
        rng.shuffle(perm)
        F = []
        for f in octa:
            k = rng.randrange(3)
            g_ = f[k:] + f[:k]
            F.append([perm[v] for v in g_])
        rng.shuffle(F)
        Xp = [None] * 6
        for v in range(6):
            Xp[perm[v]] = [float(t) for t in Xo[v]]
        raw = {"gen": "__raw__", "raw": {"V": Xp, "F": F}}
        out.append({"gen": "dual_mesh", "kw": {"mesh": {"raw": raw["raw"]}}, "_src": raw})
    return out


# ====================================================================== Coq encoders
def faces_term(F):
    return coq_list([zlist(f) for f in F])


def index_case_term(case, ob, info):
    g = case["gen"]
    inf = info[g]
    kw = case["kw"]
    ip, bp = [], []
    defaults = DEFAULTS.get(g, {})
    for n in inf["ints"]:
        if n == "n" and g == "chain_of_vertices":
            ip.append(len(kw["vertices"]["arr"]))
        elif n == "n" and g == "vector_field":
            ip.append(len(kw["origins"]["arr"]))
        else:
            ip.append(kw.get(n, defaults.get(n)))
    for n in inf["bools"]:
        bp.append(bool(kw.get(n, defaults.get(n, False))))
    rej = ob.get("exc") is not None
    V = 0 if rej else ob["V"]
    F = [] if rej else ob["F"]
    E = [] if rej else sorted(ob["E"])
    C = [] if rej else ob["C"]
    # polylines: edges compared as sorted pairs in the order produced ; surfaces: produced edges must be among the mesh's
    Eterm = faces_term([sorted(e) for e in ob["E"]] if not rej else [])
    cls = SHAPE.get(g, 0)
    if g == "cylinder":
        cls = 1 if kw.get("fill_caps", True) else 4
    if not admissible(g, kw) or rej or len(F) > 110 or (g in ("tetrahedron", "hexahedron", "hexahedron_4pts") and kw.get("volume")):
        cls = 0
    return "(%s, %s, %s, %s, %s, (%s, %s, %s, %s, %s))" % (
        zlit(inf["code"]), zlist(ip), coq_list([coq_bool(b) for b in bp]), coq_bool(inf["dual"]), zlit(cls),
        coq_bool(rej), zlit(V), faces_term(F), Eterm, faces_term(C))


def fvec(v):
    return "(%s, %s, %s)" % tuple(float_pair(float(x)) for x in v)


def coord_case_term(case, ob, info):
    g = case["gen"]
    inf = info[g]
    kw = case["kw"]
    d = DEFAULTS.get(g, {})
    ip = [kw.get(n, d.get(n)) for n in inf["ints"]]
    bp = [bool(kw.get(n, d.get(n, False))) for n in inf["bools"]]
    fp = [float(kw.get(n, d.get(n))) for n in inf["floats"]]
    vp = [(kw[n]["vec"] if n in kw else d[n]) for n in inf["vecs"]]
    vp += [ob["X"][k] for k in inf.get("overrides", [])]   # vertices overwritten after the loops are parameters of the model
    return "(%s, %s, %s, %s, %s, %s)" % (
        zlit(inf["code"]), zlist(ip), coq_list([coq_bool(b) for b in bp]), coq_list([float_pair(x) for x in fp]),
        coq_list([fvec(v) for v in vp]), coq_list([fvec(p) for p in ob["X"]]))


DEFAULTS = {
    "unit_grid": {"triangulate": False, "generate_uvs": False},
    "unit_triangle": {"generate_uvs": False},
    "quad": {"triangulate": False},
    "tetrahedron": {"volume": False},
    "hexahedron": {"colored": False, "triangulate": False, "volume": False},
    "axis_aligned_cube": {"colored": False, "triangulate": False},
    "hexahedron_4pts": {"colored": False, "volume": False},
    "icosahedron": {"uv": False, "radius": 1.0, "center": [0.0, 0.0, 0.0]},
    "cylinder": {"N": 50, "fill_caps": True, "radius": 1.0},
    "torus": {"major_segments": 50, "minor_segments": 30, "triangulate": False, "major_radius": 1.0, "minor_radius": 0.3},
    "sphere_uv": {"n_lat": 30, "n_long": 50, "radius": 1.0, "center": [0.0, 0.0, 0.0]},
    "ring": {"open": False, "n_cover": 1},
    "flat_ring": {"n_cover": 1},
    "chain_of_vertices": {"loop": False},
    "sphere_fibonacci": {"radius": 1.0, "build_surface": True},
}


# ====================================================================== running the implementation
def run_all(cases, timeout=600):
    if not cases:
        return []
    nsh = max(1, min(core.NCPU, len(cases) // 40))
    payloads = [{"cases": [strip(c) for c in cases[i::nsh]]} for i in range(nsh)]
    res = core.run_impl_parallel(DRIVER, payloads, timeout=timeout)
    out = [None] * len(cases)
    for i, r in enumerate(res):
        for j, o in zip(range(i, len(cases), nsh), r["obs"]):
            out[j] = o
    return out


def strip(c):
    return {k: v for k, v in c.items() if not k.startswith("_")}


def run_one(case):
    return core.run_impl(DRIVER, {"cases": [strip(case)]}, timeout=120)["obs"][0]


def judge(case):
    if case["gen"] == "dual_mesh":
        case = dict(case)
        case["_src_obs"] = run_one(case["_src"])
    ob = run_one(case)
    return oracle(case, ob), ob


def shrink(case, key):
    """Parameter descent: lower each integer parameter while the same failure class persists."""
    cur = json.loads(json.dumps(strip(case)))
    if case["gen"] == "dual_mesh":
        return case
    improved = True
    while improved:
        improved = False
        for k, v in list(cur["kw"].items()):
            if isinstance(v, bool) or not isinstance(v, int):
                continue
            for nv in sorted(set([v - 1, v // 2, 2, 3, 1]) - {v}):
                if nv >= v or nv < 1:
                    continue
                cand = json.loads(json.dumps(cur))
                cand["kw"][k] = nv
                if not admissible(cand["gen"], cand["kw"]) and cur["gen"] != "ring":
                    continue
                try:
                    r, _ = judge(cand)
                except Exception:
                    continue
                if r and r[0] == key:
                    cur = cand
                    improved = True
                    break
    return cur


# ====================================================================== the check
def run(ctx):
    quick = ctx.tier == "quick"
    ctx.rule = ("every generator x all resolutions up to %d x %d (minimal and unequal included) x all boolean switches, plus random "
                "larger resolutions, dyadic radii/centres/corner points; malformed stream: ring with N<3. Non-trivial = an "
                "admissible call that returned a mesh with at least one face or edge; distinct by canonical JSON of the call"
                % ((7, 7) if quick else (10, 10)))
    ctx.assumptions += ["the integer resolutions quantified over are exactly those the generators' own guards accept (C14_rejects); "
                        "beyond that the oracle judges geometry only for 0<minor<major torus radii, P1!=P2, radii > 0, closed "
                        "chains with n>=3 and flat_ring fans whose apex angle per triangle is below pi",
                        "cos/sin of the loop angles enter the theorems as the real functions; the implementation's binary64 "
                        "values are compared with the model's own binary64 evaluation within 1e-9"]
    ok_gen = ctx.regen(sys.modules[__name__])
    if not _INFO:
        try:
            _INFO.update(tr.translate()[1])
        except Exception:
            pass
    info = dict(_INFO)
    b = ctx.build_props(extra_targets=["theories/C14/Run.vo"])
    ctx.hygiene(["Lib", "C14"])

    # ---- cases: corpus first
    corpus = []
    cdir = os.path.join(core.ROOT, "corpus", "C14")
    if os.path.isdir(cdir):
        for f in sorted(os.listdir(cdir)):
            if f.endswith(".json"):
                corpus.append(json.load(open(os.path.join(cdir, f))))
    cases = [c for c in corpus if c.get("gen") not in ("dual_mesh",)] + gen_cases(ctx.rng, ctx.tier)
    outside = gen_outside(ctx.rng, ctx.tier)
    duals = gen_duals(ctx.rng, ctx.tier)
    allc = cases + outside + duals + [d["_src"] for d in duals]
    obs = run_all(allc)
    o_cases = obs[:len(cases)]
    o_out = obs[len(cases):len(cases) + len(outside)]
    o_dual = obs[len(cases) + len(outside):len(cases) + len(outside) + len(duals)]
    o_src = obs[len(cases) + len(outside) + len(duals):]
    for d, so in zip(duals, o_src):
        d["_src_obs"] = so
    ctx.log("ran %d generator calls on the implementation" % len(allc))

    # ---- oracle on everything
    fails = []
    for c, o in list(zip(cases, o_cases)) + list(zip(outside, o_out)) + list(zip(duals, o_dual)):
        g = c["gen"]
        ctx.count("gen " + g)
        for k, v in c["kw"].items():
            if isinstance(v, bool):
                ctx.count("%s %s=%s" % (g, k, v))
        ints = [v for v in c["kw"].values() if isinstance(v, int) and not isinstance(v, bool)]
        if len(ints) >= 2:
            ctx.count("resolutions " + ("equal" if ints[0] == ints[1] else "unequal"))
        if o.get("exc") is not None:
            ctx.count("raised " + str(o.get("exc_type")))
        nontrivial = o.get("exc") is None and admissible(g, c["kw"]) and (len(o["F"]) + len(o["E"]) > 0)
        ctx.case_seen([g, strip(c)["kw"]], nontrivial=nontrivial,
                      sample={"call": "%s(%s)" % (g, short(c["kw"])), "vertices": o.get("V"), "faces": (o.get("F") or [])[:4]})
        try:
            r = oracle(c, o)
        except Exception as ex:  # an oracle crash on odd output is a failure of the output to be judged
            r = ("%s/oracle-crash" % g, "oracle could not judge %s(%s): %r" % (g, short(c["kw"]), ex))
        if r:
            fails.append((c, o, r))
    unknown = [f for f in fails if not ctx.known(f[2][0])]
    ctx.obligation("oracle: every mesh returned by the implementation satisfies the property sentence (half-edge counting, "
                   "counts, on-surface, switches, rejection of resolutions below the minimum)", "oracle-on-implementation",
                   not unknown, "%d failing calls, %d of them not listed as known findings" % (len(fails), len(unknown)))

    # ---- the named hypotheses of C14_ring_apex_defect, numerically
    bad_h = [m for m in (check_bisection_hypotheses(N) for N in list(range(3, 41)) + [50, 64, 100, 200]) if m]
    ctx.obligation("hypotheses of C14_ring_apex_defect hold numerically for N = 3..40, 50, 64, 100, 200 (monotone defect, "
                   "g(0) = 0, no early stop while enlarging the bracket)", "numeric-hypothesis-check", not bad_h, "; ".join(bad_h[:3]))
    ctx.trusted_base.append("C14_ring_apex_defect assumes, about the real function angle_3pts: the apex angle defect is monotone in "
                            "the apex height, is 0 at height 0, and while the bracket (0,10),(10,20),(20,40).. is below the request "
                            "its ends differ by >= 1e-6 in defect; termination of the loop is not proved (partial correctness)")
    # ---- kernel-checked correspondence
    bad_i = bad_c = bad_d = []
    icases = [(c, o) for c, o in zip(cases, o_cases) if c["gen"] in info and not info[c["gen"]]["has_mesh_param"]]
    ccases = [(c, o) for c, o in icases if "coords" in info[c["gen"]]["defs"] and not info[c["gen"]]["dual"]
              and o.get("exc") is None and len(o["X"]) <= 120 and admissible(c["gen"], c["kw"])]
    # the point formula of sphere_fibonacci is generated too (its faces are not): coordinates only
    ccases += [(c, o) for c, o in zip(outside, o_out) if c["gen"] == "sphere_fibonacci" and "sphere_fibonacci" in info
               and o.get("exc") is None and len(o["X"]) <= 120]
    if quick:
        ccases = ccases[::2] if len(ccases) > 260 else ccases
    dcases = [(d, o) for d, o in zip(duals, o_dual) if o.get("exc") is None and d["_src_obs"].get("exc") is None]
    if b["model_ok"] and info:
        try:
            terms = [index_case_term(c, o, info) for c, o in icases]
            bad_i = ctx.run_cases("index", HEADER, terms, "check_index", case_type="icase", shard=60 if quick else 150)
            terms = [coord_case_term(c, o, info) for c, o in ccases]
            bad_c = ctx.run_cases("coords", HEADER, terms, "check_coords", case_type="ccase", shard=25 if quick else 60)
            def _src(d, o):
                return (o.get("inputs") or {}).get("mesh") or d["_src_obs"]
            terms = ["(%s, %s, %s, %s)" % (faces_term(_src(d, o)["F"]), zlit(_src(d, o)["V"]), faces_term(o["F"]), zlit(o["V"]))
                     for d, o in dcases]
            bad_d = ctx.run_cases("dual", HEADER, terms, "check_dual", case_type="dcase", shard=8)
        except Exception as ex:
            ctx.obligation("correspondence batches", "correspondence", False, "could not encode the cases: %r" % ex)
    else:
        ctx.obligation("correspondence batches", "correspondence", False, "model does not compile / translator failed")

    # ---- verdicts
    reported = {}
    for c, o, (key, msg) in fails:
        if key in reported:
            continue
        reported[key] = msg
        if ctx.known(key):
            ctx.report_known(key, ctx.known(key)["what"])
            continue
        small = shrink(c, key)
        try:
            r2, ob2 = judge(small)
        except Exception:
            r2, ob2 = None, None
        if not r2 or r2[0] != key:
            small, r2, ob2 = strip(c), (key, msg), o
        ctx.violation(r2[1], {"call": strip(small), "class": key,
                              "observed": {k: ob2.get(k) for k in ("exc", "type", "V", "F", "C") if ob2}}, key=key)
    for label, bad, pairs in (("index", bad_i, icases), ("coords", bad_c, ccases), ("dual", bad_d, dcases)):
        for i in (bad or [])[:4]:
            ctx.log("disagreement (%s): %s(%s) -> %s" % (label, pairs[i][0]["gen"], short(pairs[i][0]["kw"]),
                                                         json.dumps({k: pairs[i][1].get(k) for k in ("exc", "V", "F")})[:300]))
        if bad:
            ctx.notes.append("%s: model and implementation disagree on %d calls, e.g. %s(%s)"
                             % (label, len(bad), pairs[bad[0]][0]["gen"], short(pairs[bad[0]][0]["kw"])))
    # accounting: every generated call is either judged by the oracle (all of them) or also compared in Coq; say what was not
    n_all = len(cases)
    dropped = {"index: generator takes a mesh argument (compared in the dual batch instead)": n_all - len(icases),
               "coords: generator has no generated coordinate formula / raised / more than 120 vertices / thinned in the quick tier":
                   len([1 for c, o in icases if o.get("exc") is None]) - len(ccases)}
    ctx.extra["not_compared_in_coq"] = dropped
    if ctx.evaluations == 0 or not icases:
        ctx.obligation("the harness evaluated at least one case", "harness", False, "no case was evaluated")
    ctx.extra["case_counts"] = {"index": len(icases), "coords": len(ccases), "dual": len(dcases), "oracle_only": len(outside)}
    ctx.extra["translated"] = {k: {"defs": v["defs"], "coords_skipped": v["coords_skipped"]} for k, v in info.items()}


def replay(ctx, data):
    if "call" not in data:
        print("replay file names no concrete input:", json.dumps(data)[:600])
        return 1
    c = data["call"]
    if c["gen"] == "dual_mesh":
        c = dict(c)
        a = c["kw"]["mesh"]
        if "used" in a:
            a = a["used"]["base"]
        c["_src"] = a["mesh"] if "mesh" in a else {"gen": "__raw__", "raw": a["raw"]}
    r, ob = judge(c)
    print("call: %s(%s)" % (c["gen"], short(c["kw"])))
    print("observed:", json.dumps({k: ob.get(k) for k in ("exc", "type", "V", "F", "E", "C")})[:1500])
    print("FAILS: %s" % r[1] if r else "passes")
    return 1 if r else 0
