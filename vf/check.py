"""CLI:  python -m vf.check Cxx [--tier quick|thorough] [--replay file]"""
import argparse
import importlib
import json
import os
import sys
import traceback

from . import core


def main():
    ap = argparse.ArgumentParser()
    ap.add_argument("pid")
    ap.add_argument("--tier", default=os.environ.get("VERIF_TIER", "quick"), choices=["quick", "thorough"])
    ap.add_argument("--replay", default=None)
    a = ap.parse_args()
    try:
        seed = int(os.environ.get("VERIF_SEED", "0"))
    except ValueError:
        seed = 0
    mod = importlib.import_module("vf.props." + a.pid)
    ctx = core.Ctx(a.pid, a.tier, seed)
    if a.replay:
        data = json.load(open(a.replay))
        rc = mod.replay(ctx, data.get("replay", data))
        sys.exit(rc)
    try:
        mod.run(ctx)
    except Exception:
        # an internal failure of the machinery must not pass silently: the property is not shown
        tb = traceback.format_exc()
        ctx.log("check machinery crashed:\n" + tb)
        ctx.obligation("check-machinery-ran-to-completion", "harness", False, tb)
    sys.exit(ctx.finish())


if __name__ == "__main__":
    main()
