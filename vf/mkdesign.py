"""Regenerate the generated part of DESIGN.md (between the GENERATED markers) from the tree:
per property: technique, what is proved / tested (META), theorem list (Props*.v), known findings, fixed defects,
seeded mutations and which were caught.   python -m vf.mkdesign      (development-time only)"""
import glob
import importlib
import json
import os
import re

from . import core

BEGIN = "<!-- GENERATED-STATUS-BEGIN (python -m vf.mkdesign) -->"
END = "<!-- GENERATED-STATUS-END -->"


def theorems(pid):
    out = []
    for f in sorted(glob.glob(os.path.join(core.TH, pid, "Props*.v"))):
        src = core.strip_comments(open(f).read())
        out += re.findall(r"^\s*Theorem\s+([A-Za-z0-9_']+)", src, re.M)
    return out


def main():
    ids = [json.loads(l)["id"] for l in open(os.path.join(core.ROOT, "properties.jsonl"))]
    titles = {json.loads(l)["id"]: json.loads(l)["title"] for l in open(os.path.join(core.ROOT, "properties.jsonl"))}
    kf = core.load_known_findings()
    L = [BEGIN, "", "## 12. Status by property (generated from the tree; supersedes sections 5 and 10 where they differ)", ""]
    tot_thm = 0
    for pid in ids:
        try:
            mod = importlib.import_module("vf.props." + pid)
        except Exception as ex:  # noqa
            L.append("### %s — no check module (%r)\n" % (pid, ex))
            continue
        M = mod.META
        th = theorems(pid)
        tot_thm += len(th)
        part = [t for t in th if "_partial" in t or "_cond" in t]
        ref = [t for t in th if "_refuted" in t]
        L.append("### %s — %s" % (pid, titles[pid]))
        L.append("")
        L.append("*Technique.* " + M.get("technique", ""))
        L.append("")
        L.append("*What is proved / tested.* " + M.get("level_text", ""))
        L.append("")
        L.append("*Trusted / assumed.* " + M.get("level_note", ""))
        L.append("")
        L.append("*Property theorems (%d; %d named partial/conditional, %d refutation witnesses):* %s"
                 % (len(th), len(part), len(ref), ", ".join("`%s`" % t for t in th)))
        L.append("")
        fs = [e for e in kf.get("findings", []) if e.get("property") == pid and e.get("status", "known") == "known"]
        if fs:
            L.append("*Known findings (recorded, not repaired; witness replayed on every run):*")
            for e in fs:
                L.append("- `%s` — %s" % (e.get("key"), " ".join(str(e.get("what", "")).split())[:400]))
            L.append("")
        fx = [x for x in kf.get("fixed", []) if ("property=%s " % pid) in x]
        if fx:
            L.append("*Defects found by this check and repaired in /repo (`fix:` commits):*")
            for x in fx:
                L.append("- " + " ".join(x.split())[:400])
            L.append("")
        seeds = sorted(glob.glob(os.path.join(core.ROOT, "seeded", pid + "-*", "meta.json")))
        if seeds:
            L.append("*Independently seeded mutations (validated: demo fails with the change, passes without; test-suite unchanged):*")
            L.append("")
            L.append("| seed | caught | how | what the check reported |")
            L.append("|---|---|---|---|")
            for s in seeds:
                m = json.load(open(s))
                name = os.path.basename(os.path.dirname(s))
                how = "concrete replay" if m.get("concrete_replay") else ("no-failing-input-found" if m.get("detected") else "-")
                rep = (m.get("replays") or [""])[0].replace("|", "/").replace("\n", " ")[:160]
                L.append("| %s | %s | %s | %s |" % (name, "yes" if m.get("detected") else "NO", how, rep))
            L.append("")
        ben = sorted(glob.glob(os.path.join(core.ROOT, "benign", pid + "-*", "meta.json")))
        if ben:
            L.append("*Property-preserving changes (the property still holds; `quiet` = exit 0, `unproved` = only "
                     "`no-failing-input-found` lines because the regenerated model / a correspondence no longer checks, "
                     "`FALSE-ALARM` = a concrete VIOLATION, i.e. the check was wrong and has been corrected when the "
                     "last column says so):*")
            L.append("")
            L.append("| change | what it does | first verdict | verdict now |")
            L.append("|---|---|---|---|")
            for s in ben:
                m = json.load(open(s))
                name = os.path.basename(os.path.dirname(s))
                note = os.path.join(os.path.dirname(s), "note.md")
                what = ""
                if os.path.exists(note):
                    ls = [l.strip() for l in open(note).read().splitlines() if l.strip() and not l.startswith("#")]
                    what = " ".join(ls[:2]).replace("|", "/")[:200]
                L.append("| %s | %s | %s | %s |" % (name, what, m.get("first_pass_verdict") or m.get("verdict"), m.get("verdict")))
            L.append("")
    L.insert(3, "%d property theorems in total across %d properties.\n" % (tot_thm, len(ids)))
    L.append(END)
    text = "\n".join(L) + "\n"
    p = os.path.join(core.ROOT, "DESIGN.md")
    s = open(p).read()
    if BEGIN in s and END in s:
        s = s[:s.index(BEGIN)] + text + s[s.index(END) + len(END):].lstrip("\n")
    else:
        s = s.rstrip("\n") + "\n\n---------------------------------------------------------------------------\n\n" + text
    open(p, "w").write(s)
    print("DESIGN.md: generated status for %d properties, %d theorems" % (len(ids), tot_thm))


if __name__ == "__main__":
    main()
