"""C15 - independent oracle: the property sentence restated on concrete outputs, by brute force from the FACE LIST
(border loops) and with exact Fractions (feature classification).  It never looks at the Coq model.

check_case(case, obs) -> list of (class_key, message); empty when every observation satisfies the property.
"""
import math
from fractions import Fraction

from . import c15_meshgen as G

HALF = Fraction(1, 2)        # cos 60 degrees
C37 = Fraction(4, 5)         # cos 36.87 degrees ("about 37 degrees")
BAND = 1e-9


def F(s):
    return Fraction(s)


def brute(case):
    faces = case["faces"]
    de = G.directed_edges(faces)
    und = {}
    for (a, b), l in de.items():
        und.setdefault(tuple(sorted((a, b))), []).append(l[0][0])
    border = {e for e, fs in und.items() if len(fs) == 1}
    loops = G.border_loops(faces)
    return de, und, border, loops


def check_cycle(tag, r, start, loops, border, eid, bset):
    """r = driver result of extract_border_cycle(start); start None = default.
    What the text fixes: a border start must be answered by a closed walk along border edges visiting every border
    vertex of the loop of the start once.  Left free: how a start that is not a border vertex / a mesh without border
    is treated (any refusal, whatever its class and message, or an empty answer - but not the walk of a loop the start is
    not on), at which
    vertex of the loop and in which direction the walk begins, how the edge list is aligned with the vertex list."""
    out = []
    legit_refusal = (not bset) or (start is not None and start not in bset)
    if legit_refusal:
        if r[0] in ("exc", "empty"):
            return out
        if r[0] == "ok" and not r[1] and not r[2]:
            return out
        # a walk was returned for a start that lies on no border loop: the cycle of a starting point is the loop THROUGH
        # that point, so whatever loop is walked it is not the answer for this start
        out.append(("cycle/not-on-border", "%s: start %s lies on no border loop, yet a walk was returned: %s"
                    % (tag, start, r[:3])))
        return out
    if r[0] != "ok":
        out.append(("cycle/fails", "%s: border start %s answered %s" % (tag, start, r[:3])))
        return out
    vb, eb = r[1], r[2]
    if not vb or vb[0] not in bset or (start is not None and start not in vb):
        out.append(("cycle/start", "%s: walk %s does not go through the start %s / a border vertex" % (tag, vb, start)))
        return out
    loop = [L for L in loops if vb[0] in L][0]
    if len(vb) != len(set(vb)):
        out.append(("cycle/repeat", "%s: walk %s visits a vertex twice" % (tag, vb)))
    if set(vb) != set(loop):
        out.append(("cycle/loop", "%s: walk %s is not the border loop %s of its start" % (tag, vb, loop)))
    n = len(vb)
    if len(eb) != n:
        out.append(("cycle/edges-len", "%s: %d vertices but %d edges" % (tag, n, len(eb))))
        return out
    want = set()
    for i in range(n):
        a, b = vb[i], vb[(i + 1) % n]
        k = tuple(sorted((a, b)))
        if k not in border:
            out.append(("cycle/not-border-edge", "%s: step %s-%s of walk %s is not a border edge" % (tag, a, b, vb)))
            return out
        want.add(eid.get(k))
    if len(set(eb)) != len(eb) or set(eb) != want:
        out.append(("cycle/edge-id", "%s: the edges reported %s are not the border edges %s of the walk, each once"
                    % (tag, eb, sorted(want))))
    return out


def check_border(case, obs):
    out = []
    de, und, border, loops = brute(case)
    t = obs["tables"]
    eid = {tuple(e): i for i, e in enumerate(t["edges"])}
    bset = {v for L in loops for v in L}
    for s, r in obs["cycles"]:
        out += check_cycle("extract_border_cycle(%s)" % s, r, s, loops, border, eid, bset)
    # --- all cycles: each loop exactly once
    r = obs["all"]
    if r[0] != "ok":
        out.append(("all/fails", "extract_border_cycle_all raised %s" % (r[1:],)))
    else:
        cyc = r[1]
        if len(cyc) != len(loops):
            out.append(("all/count", "%d cycles returned, the surface has %d border loops" % (len(cyc), len(loops))))
        if sorted(sorted(c) for c in cyc) != sorted(sorted(L) for L in loops):
            out.append(("all/loops", "cycles %s are not the border loops %s (each once)" % (cyc, loops)))
        for c in cyc:
            n = len(c)
            if any(tuple(sorted((c[i], c[(i + 1) % n]))) not in border for i in range(n)):
                out.append(("all/not-border-edge", "cycle %s does not run along border edges" % (c,)))
                break
    # --- boundary polyline
    r = obs["boundary"]
    if r[0] != "ok":
        out.append(("boundary/fails", "extract_boundary_of_surface: %s" % (r[1:],)))
        return out
    b = r[1]
    nb = len(bset)
    if len(b["verts"]) != nb:
        out.append(("boundary/nverts", "polyline has %d vertices, the surface %d border vertices" % (len(b["verts"]), nb)))
        return out
    mp = dict((k, v) for k, v in b["map"])
    # direction of the map: surface id -> polyline id (as implemented) or the converse; both are an "index map"
    s2p = None
    coords = t["coords"]
    if set(mp.keys()) == bset and sorted(mp.values()) == list(range(nb)) and all(b["verts"][mp[v]] == coords[v] for v in bset):
        s2p = mp
    elif set(mp.values()) == bset and sorted(mp.keys()) == list(range(nb)) and all(b["verts"][i] == coords[v] for i, v in mp.items()):
        s2p = {v: i for i, v in mp.items()}
    if s2p is None:
        out.append(("boundary/map", "the returned map %s is not a bijection between the border vertices %s and 0..%d consistent with the coordinates" % (b["map"], sorted(bset), nb - 1)))
        return out
    want = sorted(tuple(sorted((s2p[a], s2p[c]))) for a, c in border)
    got = sorted(tuple(sorted(e)) for e in b["edges"])
    if want != got:
        out.append(("boundary/edges", "polyline edges %s are not the border edges %s (through the map)" % (got[:12], want[:12])))
    # component attribute of the polyline vertices: constant exactly on the loops
    if b["comp_at"] is not None:
        lab = {}
        ok = True
        for k, L in enumerate(loops):
            labs = {b["comp_at"][s2p[v]] for v in L}
            if len(labs) != 1:
                ok = False
            lab[k] = min(labs)
        if ok and len(set(lab.values())) != len(loops):
            ok = False
        if not ok:
            out.append(("boundary/component", "attribute 'component' of the polyline vertices %s does not label the %d loops (map %s)"
                        % (b["comp_at"], len(loops), b["map"])))
    return out


# ---------------------------------------------------------------------- features
def lt_cos(d, l1, l2, t):
    """(d / sqrt(l1*l2) < t) exactly, and whether it is within the float band of t."""
    c = d / math.sqrt(l1 * l2)
    amb = abs(c - float(t)) < BAND
    if d < 0:
        return True, amb
    return (Fraction(d * d) < t * t * l1 * l2), amb


def expected_features(case, t, opt):
    """-> (must, may): edge ids that must be flagged, and that may be flagged (band). t = the mesh's tables."""
    de, und, border, loops = brute(case)
    eid = {tuple(e): i for i, e in enumerate(t["edges"])}
    must = {eid[e] for e in border}
    may = set(must)
    if opt["only_border"]:
        return must, may
    hard = {eid[tuple(sorted(e))] for e in (case["hard"] or [])}
    faces = case["faces"]
    for e, fs in und.items():
        if len(fs) != 2:
            continue
        i = eid[e]
        if case["normals"]:
            n1 = [F(x) for x in case["normals"][fs[0]]]
            n2 = [F(x) for x in case["normals"][fs[1]]]
            d = G.dot(n1, n2)
            s, a1 = d < HALF, False
            h, a2 = d < C37, False
        else:
            n1 = G.face_normal_int(case["coords"], faces[fs[0]])
            n2 = G.face_normal_int(case["coords"], faces[fs[1]])
            d, l1, l2 = G.dot(n1, n2), G.dot(n1, n1), G.dot(n2, n2)
            s, a1 = lt_cos(d, l1, l2, HALF)
            h, a2 = lt_cos(d, l1, l2, C37)
        if s and not a1:
            must.add(i)
        if s or a1:
            may.add(i)
        if i in hard:
            if h and not a2:
                must.add(i)
            if h or a2:
                may.add(i)
    return must, may


def angle_sum(case, v):
    tot = 0.0
    P = case["coords"]
    for Fc in case["faces"]:
        if v in Fc:
            n = len(Fc)
            i = Fc.index(v)
            a, b = P[Fc[(i - 1) % n]], P[Fc[(i + 1) % n]]
            u, w = G.sub(a, P[v]), G.sub(b, P[v])
            cr = G.cross(u, w)
            tot += math.atan2(math.sqrt(G.dot(cr, cr)), G.dot(u, w))
    return tot


def corner_candidates(A, order):
    """values the property allows for a vertex whose corner angles sum to A (float), with the tie/threshold band"""
    res = set()
    for d in (-1e-9, 0.0, 1e-9):
        a = A + d
        if abs(a) < 2 * math.pi / order:
            res.add(1 if a >= 0 else -1)
        else:
            x = a * order / (2 * math.pi)
            res.add(round(x))
            if abs(x - math.floor(x) - 0.5) < 1e-7:
                res.add(math.floor(x))
                res.add(math.floor(x) + 1)
    return res


def check_features(case, obs):
    out = check_runs(case, obs["tables"], case["dets"], obs["dets"], "")
    ses = case.get("session")
    if ses and obs.get("session"):
        so = obs["session"]
        moved_case = dict(case, coords=ses["alt_coords"]) if ses.get("alt_coords") else None
        groups = ((0, False, case, obs["tables"]), (0, True, moved_case, obs["tables"]),
                  (1, False, ses.get("other"), so.get("other_tables")))
        for on, mv, mcase, t in groups:
            pairs = [(k, st, d) for k, (st, d) in enumerate(zip(ses["steps"], so["steps"]))
                     if st["on"] == on and bool(st.get("moved")) == mv]
            if pairs and mcase is not None:
                out += check_runs(mcase, t, [p[1] for p in pairs], [p[2] for p in pairs], "reused-",
                                  ["run %d of ONE detector object (steps on meshes %s%s) "
                                   % (p[0] + 1, [x["on"] for x in ses["steps"]], ", vertices moved before this run" if mv else "")
                                   for p in pairs])
    return out


def check_runs(case, t, opts, dets, cls, tags=None):
    """every run (fresh or of a re-used detector object) must give the containers of the mesh it ran on"""
    out = []
    for k, (opt, d) in enumerate(zip(opts, dets)):
        tag = (tags[k] if tags else "") + "detector%s" % ({k2: opt[k2] for k2 in ("only_border", "flag_corners", "corner_order")},)
        if "exc" in d:
            out.append((cls + "features/fails", "%s raised %s" % (tag, d["exc"])))
            continue
        must, may = expected_features(case, t, opt)
        fe = set(d["fe"])
        if not (must <= fe <= may):
            out.append((cls + "features/edges", "%s flagged edges %s; the property demands %s (and allows %s more within round-off)"
                        % (tag, sorted(fe), sorted(must), sorted(may - must))))
            continue
        # containers are compared as what the text says they are: a set of edges, the set of their end vertices, a degree
        # per vertex (0 where nothing is stored), the SET of local indices per feature vertex, a corner order per feature
        # vertex.  Left free: container types, duplicates, iteration order, explicit zero / empty entries for other
        # vertices, attributes / helper meshes (feature graph, corner point cloud) the detector builds besides.
        E = t["edges"]
        fv = sorted({v for e in fe for v in E[e]})
        if sorted(set(d["fv"])) != fv:
            out.append((cls + "features/vertices", "%s: feature_vertices %s, endpoints of the feature edges are %s" % (tag, d["fv"], fv)))
        want_deg = {v: sum(1 for e in fe if v in E[e]) for v in fv}
        got_deg = {k: v for k, v in d["deg"]}
        bad = [v for v in set(want_deg) | set(got_deg) if got_deg.get(v, 0) != want_deg.get(v, 0)]
        if bad:
            out.append((cls + "features/degrees", "%s: feature_degrees %s, expected %s (differs at %s)"
                        % (tag, d["deg"], sorted(want_deg.items()), sorted(bad)[:6])))
        got_loc = {k: l for k, l in d["local"]}
        for v in sorted(set(fv) | set(got_loc)):
            want = [i for i, e in enumerate(t["v2e"][v]) if e in fe] if (v in fv and 0 <= v < len(t["v2e"])) else []
            g = got_loc.get(v, [])
            if sorted(g) != want:
                out.append((cls + "features/local", "%s: local_feat_edges[%d] = %s, the feature edges sit at positions %s of vertex_to_edges"
                            % (tag, v, g, want)))
                break

        def corners_ok():
            if sorted(k for k, _ in d["corners"]) != fv:
                out.append((cls + "features/corners-domain", "%s: corners defined on %s, feature vertices are %s"
                            % (tag, [k for k, _ in d["corners"]], fv)))
                return
            for v, c in d["corners"]:
                cand = corner_candidates(angle_sum(case, v), opt["corner_order"])
                if c not in cand:
                    out.append((cls + "features/corner-value", "%s: corner of vertex %d is %d, angle sum %.6f allows %s"
                                % (tag, v, c, angle_sum(case, v), sorted(cand))))
                    return
        if not opt["flag_corners"]:
            # nothing is due; if corner orders are exposed all the same they must be those of THIS edge set
            if d["corners"] is not None:
                corners_ok()
        elif d["corners"] is None:
            out.append((cls + "features/corners-domain", "%s: no corner orders although flag_corners is set" % tag))
        else:
            corners_ok()
    return out


def check_case(case, obs):
    if "crash" in obs:
        return [("driver/crash", obs["crash"])]
    return check_border(case, obs) + check_features(case, obs)
