"""Structured generator of C06 histories (copy / merge / transforms / edits over meshes from every kind of producer).

The generator keeps a light *shape* simulation (number of vertices and kind of every object created so far) so that
the ops it emits are mostly valid; it never looks at the implementation."""
import json
from fractions import Fraction


def quat_rot(a, b, c, d):
    n = a * a + b * b + c * c + d * d
    M = [[a * a + b * b - c * c - d * d, 2 * (b * c - a * d), 2 * (b * d + a * c)],
         [2 * (b * c + a * d), a * a - b * b + c * c - d * d, 2 * (c * d - a * b)],
         [2 * (b * d - a * c), 2 * (c * d + a * b), a * a - b * b - c * c + d * d]]
    return [[Fraction(x, n) for x in r] for r in M]


QUATS = [(1, 1, 0, 0), (1, 0, 1, 0), (1, 0, 0, 1), (1, 1, 1, 1), (0, 1, 0, 0), (1, -1, 1, 1), (0, 1, 1, 0),
         (2, 1, 0, 0), (2, 2, 1, 0), (1, 2, 2, 0), (3, 0, 0, 1), (2, 1, 1, 1), (1, 2, 0, 2), (3, 1, 1, 1), (1, 0, 0, 0)]


def fr(x):
    """Fraction -> JSON number (float; exact for dyadics)"""
    return float(x)


def rmat(R):
    return [[fr(x) for x in r] for r in R]


def transpose(R):
    return [[R[j][i] for j in range(3)] for i in range(3)]


def dy(rng, lo=-8, hi=8, den=4):
    return Fraction(rng.randint(lo, hi), den)


def pt(rng):
    return [fr(dy(rng)), fr(dy(rng)), fr(dy(rng))]


def distinct_pts(rng, n):
    seen, out = set(), []
    while len(out) < n:
        p = (dy(rng), dy(rng), dy(rng))
        if p not in seen:
            seen.add(p)
            out.append([fr(c) for c in p])
    return out


class Shape:
    def __init__(self):
        self.n = []      # vertices per object
        self.kind = []   # -1 array, 0..3 mesh
        self.tri = []    # triangle surface (subdivision / border possible)
        self.spent = []  # the object went through SurfaceSubdivision (its face_corners are gone)
        self.intarr = []
        self.hexa = []   # volume mesh with hexahedral cells (only the medit loader reads those back)
        self.attrs = []  # per object: list of (cont, a, number of keys)
        self.closed = [] # closed triangle surface (cut graph)
        self.two = set() # caller arrays with two columns

    def add(self, n, kind, tri=False, intarr=False):
        self.n.append(n)
        self.kind.append(kind)
        self.tri.append(tri)
        self.spent.append(False)
        self.intarr.append(intarr)
        self.hexa.append(False)
        self.attrs.append([])
        self.closed.append(False)
        return len(self.n) - 1

    def meshes(self):
        return [i for i, k in enumerate(self.kind) if k >= 0]

    def arrays(self):
        return [i for i, k in enumerate(self.kind) if k == -1]


def gen_producer(rng, sh, ops, small=True):
    """append one producer op (possibly preceded by an 'arr'); returns the new mesh id"""
    r = rng.random()
    if r < 0.30:
        # caller array + from_arrays
        style = rng.choice(["cloud", "line", "tris", "tet", "tris", "hex", "cloud", "line"])
        n = {"cloud": rng.randint(1, 5), "line": rng.randint(2, 5), "tris": rng.randint(3, 6), "tet": rng.randint(4, 5),
             "hex": rng.choice([8, 12, 12])}[style]
        if sh.arrays() and rng.random() < 0.25:
            a = rng.choice(sh.arrays())      # a second mesh over the same caller array
            n = sh.n[a]
            if style == "hex" and n not in (8, 12):
                style = "tet" if n >= 4 else "cloud"
            if n < 4:
                style = "cloud" if n < 2 else ("line" if n < 3 else rng.choice(["line", "tris"]))
        else:
            isint = rng.random() < 0.12
            rows = distinct_pts(rng, n)
            if style != "hex" and n >= 2 and rng.random() < 0.15:
                rows[rng.randrange(1, n)] = list(rows[0])          # coincident vertices: valid combinatorics, degenerate geometry
            if style in ("cloud", "line", "tris") and rng.random() < 0.12:
                rows = [p[:2] for p in rows]                        # an (n,2) array: from_arrays puts it in the plane z = 0
                sh.two.add(len(sh.n))
            if style == "hex":     # stacked unit cubes, sheared by a dyadic offset
                sx, sy = fr(dy(rng, -2, 2)), fr(dy(rng, -2, 2))
                rows = [[x + sx * z, y + sy * z, float(z)] for z in range(n // 4) for (x, y) in ((0., 0.), (1., 0.), (1., 1.), (0., 1.))]
            if isint:
                rows = [[float(int(c * 4)) for c in p] for p in rows]
            ops.append(["arr", rows, "i" if isint else "f"])
            a = sh.add(n, -1, intarr=isint)
        E = F = C = None
        kind = 0
        if style == "line":
            E = [[i, i + 1] for i in range(n - 1)]
            kind = 1
        elif style == "tris":
            F = [[0, i, i + 1] for i in range(1, n - 1)]
            kind = 2
        elif style == "tet":
            C = [[0, 1, 2, 3]] + ([[1, 2, 3, 4]] if n >= 5 else [])
            kind = 3
        elif style == "hex":
            C = [[4 * k + j for j in range(8)] for k in range(n // 4 - 1)]
            kind = 3
        ops.append(["from_arrays", a, E, F, C])
        o = sh.add(n, kind, tri=(kind == 2))
        sh.hexa[o] = style == "hex"
        return o
    if r < 0.45:
        N = rng.choice([3, 3, 4, 5, 6])
        nc = rng.choice([1, 1, 1, 2])
        op = rng.random() < 0.6
        ops.append(["ring", N, nc, op, rng.randint(0, 24)])
        return sh.add(N * nc + 1 + (1 if op else 0), 2, tri=True)
    name = rng.choice(["triangle", "quad", "unit_grid", "tetrahedron", "cube", "octahedron", "flat_ring", "cylinder",
                       "torus", "sphere_uv", "chain", "pointcloud", "triangle", "tetrahedron", "chain", "hexa", "hexa",
                       "pointcloud"])
    if name == "hexa":
        o0 = distinct_pts(rng, 1)[0]
        e = rng.choice([1., 2., 0.5])
        ops.append(["proc", name, [o0, [o0[0] + e, o0[1], o0[2]], [o0[0], o0[1] + 1., o0[2]], [o0[0], o0[1], o0[2] + 1.]]])
        o = sh.add(8, 3)
        sh.hexa[o] = True
        return o
    if name == "triangle":
        ops.append(["proc", name, distinct_pts(rng, 3)])
        return sh.add(3, 2, tri=True)
    if name == "quad":
        t = rng.random() < 0.5
        ops.append(["proc", name, distinct_pts(rng, 3) + [t]])
        return sh.add(4, 2, tri=t)
    if name == "unit_grid":
        k = rng.choice([2, 3])
        t = rng.random() < 0.6
        ops.append(["proc", name, [k, t]])
        return sh.add(k * k, 2, tri=t)
    if name == "tetrahedron":
        vol = rng.random() < 0.6
        ops.append(["proc", name, [[0., 0., 0.], [1., 0., 0.], [0., 1., 0.], [0., 0., 1.], vol]])
        return sh.add(4, 3 if vol else 2, tri=not vol)
    if name == "cube":
        t = rng.random() < 0.5
        ops.append(["proc", name, [t]])
        return sh.add(8, 2, tri=t)
    if name == "octahedron":
        ops.append(["proc", name, []])
        o = sh.add(6, 2, tri=True)
        sh.closed[o] = True
        return o
    if name == "flat_ring":
        N = rng.choice([3, 4, 5])
        ops.append(["proc", name, [N, rng.randint(0, 16), 1]])
        return sh.add(N + 2, 2, tri=True)
    if name == "cylinder":
        N = rng.choice([3, 4])
        caps = rng.random() < 0.5
        ops.append(["proc", name, [[0., 0., 0.], [0., 0., 2.], 1., N, caps]])
        return sh.add(2 * N + (2 if caps else 0), 2, tri=True)
    if name == "torus":
        t = rng.random() < 0.5
        ops.append(["proc", name, [3, 3, t]])
        return sh.add(9, 2, tri=t)
    if name == "sphere_uv":
        ops.append(["proc", name, [2, 3]])
        return sh.add(None, 2, tri=False)
    if name == "chain":
        n = rng.randint(2, 5)
        ops.append(["proc", name, [distinct_pts(rng, n), rng.random() < 0.5 and n > 2]])
        return sh.add(n, 1)
    n = rng.randint(1, 4)
    ops.append(["proc", "pointcloud", [distinct_pts(rng, n)]])
    return sh.add(n, 0)


def growable(sh, m):
    return (sh.kind[m] == 1 and sh.n[m] is not None and sh.n[m] >= 1) or (sh.kind[m] == 2 and sh.tri[m] and not sh.spent[m])


def grow(rng, sh, ops, m):
    ops.append(["grow", m, pt(rng)])
    if sh.n[m] is not None:
        sh.n[m] += 1
    sh.closed[m] = False
    for k, (cont, a, nk) in enumerate(sh.attrs[m]):
        pass


def gen_param(rng, sh, allow_slot=True):
    r = rng.random()
    if allow_slot and r < 0.12:
        cands = [i for i in range(len(sh.n)) if sh.n[i] and sh.kind[i] >= 0]   # the Vec stored in a mesh slot
        if cands:
            o = rng.choice(cands)
            return ["slot", o, rng.randrange(sh.n[o])]
    return pt(rng)


def gen_producer_twice(rng, sh, ops):
    """the same producer call (equal arguments) a second time: two independent objects are expected"""
    k0 = len(ops)
    o = gen_producer(rng, sh, ops)
    last = ops[-1]
    if last[0] in ("proc", "ring", "from_arrays") and rng.random() < 0.25:
        ops.append(json.loads(json.dumps(last)))
        o2 = sh.add(sh.n[o], sh.kind[o], sh.tri[o])
        sh.hexa[o2] = sh.hexa[o]
        sh.closed[o2] = sh.closed[o]
    return o


def gen_case(rng, maxops=8):
    sh = Shape()
    ops = []
    inv = []
    ints = rng.random() < 0.3        # integer-valued numbers travel as Python ints (int64 vectors on the numpy side)
    for _ in range(rng.choice([1, 1, 2, 2, 3])):
        gen_producer_twice(rng, sh, ops)
    L = rng.choice([1, 2, 3, 4, 5, 6, maxops])
    k = 0
    while k < L and len(ops) < 3 * maxops:
        k += 1
        ms = [m for m in sh.meshes() if sh.n[m]]       # sphere_uv: unknown size -> no slot-indexed ops
        anyms = sh.meshes()
        r = rng.random()
        if r < 0.10:
            m = rng.choice(anyms)
            ca = rng.random() < 0.5
            cc = rng.random() < 0.45
            ops.append(["copy", m, ca, cc])
            o = sh.add(sh.n[m], sh.kind[m], sh.tri[m])
            sh.hexa[o] = sh.hexa[m]
            sh.closed[o] = sh.closed[m]
            sh.spent[o] = sh.spent[m]
            if ca:
                sh.attrs[o] = list(sh.attrs[m])
            # after a copy: query (tables computed now), let source and copy diverge, query both again - each
            # object's connectivity must answer from its own containers
            if growable(sh, m) and rng.random() < 0.7:
                if rng.random() < 0.5:
                    ops.append(["conn", rng.choice([m, o]), False])
                first, second = (m, o) if rng.random() < 0.5 else (o, m)
                grow(rng, sh, ops, first)
                if rng.random() < 0.4:
                    grow(rng, sh, ops, second)
                clr = rng.random() < 0.5
                ops.append(["conn", o, clr])
                ops.append(["conn", m, rng.random() < 0.5])
        elif r < 0.24:
            cnt = rng.choice([1, 2, 2, 3])
            pool = [x for x in anyms if not sh.spent[x]]
            if not pool:
                continue
            if rng.random() < 0.3 and any(sh.kind[x] == 3 for x in pool):
                pool = [x for x in pool if sh.kind[x] == 3]      # volume with volume: mixed tet / hex meshes
            sel = [rng.choice(pool) for _ in range(cnt)]
            if cnt >= 2 and rng.random() < 0.35:
                sel[1] = sel[0]                           # the same mesh merged twice
            ops.append(["merge", sel])
            tot = None if any(sh.n[m] is None for m in sel) else sum(sh.n[m] for m in sel)
            o = sh.add(tot, max(sh.kind[m] for m in sel), all(sh.tri[m] for m in sel) and all(sh.kind[m] == 2 for m in sel))
            sh.hexa[o] = any(sh.hexa[m] for m in sel)
        elif r < 0.66:
            m = rng.choice(anyms)
            t = rng.choice(["translate", "translate", "translate", "rotate", "rotate", "scale", "scale", "scale_xyz",
                            "normalize", "normalize", "fit", "to_origin", "flatten"])
            pair = rng.random() < 0.35
            if t == "translate":
                p = gen_param(rng, sh)
                ops.append(["translate", m, p])
                if pair and p[0] != "slot":
                    ops.append(["translate", m, [-c for c in p]])
                    inv.append([len(ops) - 2, len(ops) - 1])
            elif t == "rotate":
                R = quat_rot(*rng.choice(QUATS))
                o = None if rng.random() < 0.5 else gen_param(rng, sh)
                ops.append(["rotate", m, rmat(R), o])
                if pair and (o is None or o[0] != "slot"):
                    ops.append(["rotate", m, rmat(transpose(R)), o])
                    inv.append([len(ops) - 2, len(ops) - 1])
            elif t == "scale":
                s = rng.choice([Fraction(1, 2), Fraction(2), Fraction(-1), Fraction(1, 4), Fraction(4), Fraction(3, 2),
                                Fraction(-1, 2), Fraction(3)])
                o = None if rng.random() < 0.5 else gen_param(rng, sh)
                ops.append(["scale", m, fr(s), o])
                if pair and (o is None or o[0] != "slot"):
                    ops.append(["scale", m, fr(1 / s), o])
                    inv.append([len(ops) - 2, len(ops) - 1])
            elif t == "scale_xyz":
                f = [fr(rng.choice([Fraction(1, 2), Fraction(2), Fraction(1), Fraction(-1), Fraction(3, 2)])) for _ in range(3)]
                o = None if rng.random() < 0.4 else gen_param(rng, sh)
                ops.append(["scale_xyz", m, f[0], f[1], f[2], o])
            elif t == "normalize":
                ops.append(["normalize", m, rng.random() < 0.5])
            elif t == "flatten":
                ops.append(["flatten", m, rng.randrange(3)])
            else:
                ops.append([t, m])
        elif r < 0.80:
            # edit one coordinate through the public API: in place on a mesh vertex / on the caller's array, or rebinding
            cands = [i for i in range(len(sh.n)) if sh.n[i]]
            if not cands:
                continue
            o = rng.choice(cands)
            i = rng.randrange(sh.n[o])
            if sh.kind[o] >= 0 and rng.random() < 0.3:
                ops.append(["set", o, i, pt(rng)])
            else:
                x = fr(dy(rng))
                if sh.intarr[o]:
                    x = float(int(x))
                ops.append(["edit", o, i, rng.randrange(2 if o in sh.two else 3), x])
        elif r < 0.86:
            m = rng.choice(anyms)
            ext = {0: ["xyz", "mesh", "obj"], 1: ["mesh", "obj", "geogram_ascii"], 2: ["obj", "mesh", "off", "geogram_ascii"],
                   3: ["mesh", "tet", "geogram_ascii"]}[sh.kind[m]]
            if sh.hexa[m]:
                ext = ["mesh"]
            ops.append(["load", m, rng.choice(ext)])
            o = sh.add(sh.n[m], sh.kind[m], sh.tri[m])
            sh.hexa[o] = sh.hexa[m]
        elif r < 0.93:
            c = [m for m in anyms if sh.tri[m] and sh.kind[m] == 2 and not sh.spent[m]]
            if c:
                m = rng.choice(c)
                ops.append(["subdiv", m, rng.choice(["loop", "3quads"])])
                sh.spent[m] = True
                sh.add(None, 2, False)
            else:
                k -= 1
                gen_producer(rng, sh, ops)
        elif r < 0.96:
            c = [m for m in anyms if sh.kind[m] in (2, 3) and not sh.spent[m]]
            if c:
                m = rng.choice(c)
                ops.append(["border", m])
                sh.add(None, sh.kind[m] - 1, False)
            else:
                gen_producer(rng, sh, ops)
        elif r < 0.99:
            gen_producer(rng, sh, ops)
        # ---- the other exporters of the library that build a mesh from the vectors of another one
        rr = rng.random()
        surf = [m for m in anyms if sh.kind[m] == 2 and sh.tri[m] and not sh.spent[m] and sh.n[m]]
        if rr < 0.10 and surf:
            m = rng.choice(surf)
            which = rng.choice(["edge", "edge", "face"])
            ops.append(["tree", m, which])
            sh.add(sh.n[m] if which == "edge" else None, 1)
        elif rr < 0.13:
            vol = [m for m in anyms if sh.kind[m] == 3 and not sh.hexa[m]]
            if vol:
                m = rng.choice(vol)
                ops.append(["tree", m, rng.choice(["cell", "edge"])])
                sh.add(None, 1)
        elif rr < 0.21 and surf:
            m = rng.choice(surf)
            if sh.n[m] >= 3:
                tg = rng.sample(range(1, sh.n[m]), rng.choice([1, 2, 2, 3]) if sh.n[m] > 3 else 2)
                ops.append(["path", m, 0, tg])
                sh.add(None, 1)
        elif rr < 0.24 and surf:
            m = rng.choice(surf)
            if sh.closed[m]:
                ops.append(["cutgraph", m, [0, sh.n[m] - 1]])
            else:
                ops.append(["features", m])
            sh.add(None, 1)
        # ---- the same call again, rotations given as Euler angles, calls that must fail, a merge of nothing
        rr = rng.random()
        if rr < 0.08 and ops and ops[-1][0] in ("copy", "merge", "translate", "scale", "normalize", "fit", "to_origin", "flatten",
                                                "scale_xyz"):
            again = json.loads(json.dumps(ops[-1]))
            ops.append(again)
            if again[0] in ("copy", "merge"):
                last = len(sh.n) - 1
                o2 = sh.add(sh.n[last], sh.kind[last], sh.tri[last])
                sh.hexa[o2], sh.closed[o2], sh.spent[o2] = sh.hexa[last], sh.closed[last], sh.spent[last]
                sh.attrs[o2] = list(sh.attrs[last])
        elif rr < 0.14:
            m = rng.choice(anyms)
            q = [rng.randrange(4), rng.randrange(4), rng.randrange(4)]
            o_ = None if rng.random() < 0.5 else pt(rng)
            ops.append(["rotate_euler", m, q, o_, rng.random() < 0.5])
            if rng.random() < 0.3 and sum(1 for a in q if a) <= 1:   # and back (one axis: no convention involved)
                ops.append(["rotate_euler", m, [0, 0, (4 - q[2]) % 4], o_, False])
                ops.append(["rotate_euler", m, [0, (4 - q[1]) % 4, 0], o_, True])
                ops.append(["rotate_euler", m, [(4 - q[0]) % 4, 0, 0], o_, False])
                inv.append([len(ops) - 4, len(ops) - 1])
        elif rr < 0.20:
            kind = rng.choice(["rotate_shape", "rotate_type", "translate_len", "from_arrays_index", "from_arrays_cols", "ring_small",
                               "merge_generator", "copy_none"])
            tgt = None
            if kind in ("rotate_shape", "rotate_type", "translate_len", "merge_generator"):
                tgt = rng.choice(anyms)
            elif kind == "from_arrays_index":
                arrs = [a for a in sh.arrays() if sh.n[a] and sh.n[a] >= 2]
                tgt = rng.choice(arrs) if arrs else None
                if tgt is None:
                    kind = "ring_small"
            ops.append(["bad", kind, tgt])
        elif rr < 0.215:
            ops.append(["merge", []])
        # ---- mutable state other than coordinates: attributes on any container, element lists
        rr = rng.random()
        withn = [m for m in anyms if sh.n[m]]
        if rr < 0.16 and withn:
            m = rng.choice(withn)
            a = rng.randrange(4)
            if rng.random() < 0.75 or not sh.tri[m]:
                cont, nk = 0, rng.randint(1, sh.n[m])
            else:
                cont, nk = 2, 1
            ops.append(["attr", m, cont, a, [rng.randint(-9, 9) for _ in range(nk)]])
            sh.attrs[m] = [x for x in sh.attrs[m] if (x[0], x[1]) != (cont, a)] + [(cont, a, nk)]
        elif rr < 0.30:
            c = [m for m in anyms if sh.attrs[m]]
            if c:
                m = rng.choice(c)
                cont, a, nk = rng.choice(sh.attrs[m])
                ops.append(["attr_edit", m, cont, a, rng.randrange(nk), rng.randint(-9, 9)])
        elif rr < 0.36:
            c = [m for m in anyms if sh.kind[m] == 2 and sh.tri[m] and sh.n[m] and not sh.spent[m]]
            if c:
                m = rng.choice(c)
                ops.append(["elem_edit", m, "faces", 0])
                sh.spent[m] = True      # its corner tables no longer follow its faces: kept out of merge / subdivision
        elif rr < 0.44:
            c = [m for m in anyms if growable(sh, m)]
            if c:
                m = rng.choice(c)
                grow(rng, sh, ops, m)
                ops.append(["conn", m, rng.random() < 0.6])
        elif rr < 0.48:
            c = [m for m in anyms if growable(sh, m)]
            if c:
                ops.append(["conn", rng.choice(c), rng.random() < 0.5])
    case = {"ops": ops, "inv": inv, "ints": ints,
            "form": rng.choice(["pos", "pos", "kw", "omit"]),
            "numrep": rng.choice(["py", "py", "np64", "np32", "mixed"]),
            "vecform": rng.choice(["vec", "vec", "list", "tuple", "ndarray"]),
            "rotform": rng.choice(["matrix", "matrix", "object"])}
    return case
