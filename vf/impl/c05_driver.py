"""Runs attribute / container histories on /repo's DataContainer, CornerDataContainer, Attribute, ArrayAttribute
and reports canonical observations.

stdin : {"cases": [ {"cont": "data"|"corner", "ops": [op, ...]}, ... ]}
stdout: '@@JSON ' + {"obs": [[obs, ...], ...]}

ops (attribute names are small integers, the driver uses "a<k>" as the name)
  ["create", a, type, arity, dense, default|None]   type in bool int float complex str
  ["delete", a] ["has", a] ["clear_attr", a] ["as_array", a] ["len", a] ["iter", a]
  ["set", a, key, value] ["get", a, key]
  ["mut", refindex, component, comp]     in-place update  ref[component] = comp  of the refindex-th vector handed out by get
  ["append"] ["extend_list", m, "list"|"tuple"|"set"] ["extend_other", m, other_has_attr] ["extend_self"]
  ["extend_bad", "range"|"nparray"|"dict"|"none"] ["clear_all"] ["clen"] ["snap"]
  ["update", a, key, c, comp]            attr[key][c] = comp   (the read hands out a reference like get)
  ["mutarr", refindex, row, c, comp]     in-place update of element (row, c) of an array handed out by as_array
  ["contains", a, k]                     k in attr
  ["extend_list_bad", m]                 += [m well-formed items, then the int 5] (a corner container cannot unpack it)
  ["create_sized", a, type, arity, default|None, size]     create_attribute(dense=True, size=size)
  ["register", a, type, arity, rows, default|None, one_d]  register_array_as_attribute(np.array(rows))
value : ["scal", comp] | ["list", [comp..]] | ["tuple", [comp..]] | ["nparr", [comp..]] | ["str", text]
comp  : ["b", 0|1, fl] | ["i", z, fl] | ["f", z8, fl] (value z8/8) | ["c", re8, im8] | ["s", text] | ["x", which]
        fl in "py" "np" "np32"; which in "none" "f16" "c128" "npstr" "list"

observations
  ["ok"] | ["err", kind] | ["val", [ccomp..], is_vector, refindex|None] | ["rows", [[ccomp..]..] (, shape, dtype kind for as_array)] | ["keys", [z..]]
  | ["nat", n] | ["bool", b] | ["grow", n, [[a, len]..]] | ["growerr", kind, n, [[a, len]..]]
  | ["snap", [[a, [row|["oob"]..]]..]] | ["other", text]
canonical comp (read back, cast to the attribute's own type): ["b",0|1] ["i",z] ["f",z8] ["c",re8,im8] ["s",text]
"""
import json
import sys
import warnings

import numpy as np


def mkcomp(d):
    k = d[0]
    if k == "b":
        v = bool(d[1])
        return v if d[2] == "py" else np.bool_(v)
    if k == "i":
        v = int(d[1])
        if d[2] == "u8":
            return np.uint8(v)
        return v if d[2] == "py" else (np.int64(v) if d[2] == "np" else np.int32(v))
    if k == "f":
        v = d[1] / 8.0
        return v if d[2] == "py" else (np.float64(v) if d[2] == "np" else np.float32(v))
    if k == "c":
        return complex(d[1] / 8.0, d[2] / 8.0)
    if k == "s":
        return str(d[1])
    if k == "x":
        return {"none": None, "f16": np.float16(1.0), "c128": np.complex128(1 + 1j), "npstr": np.str_("a"),
                "list": [1.0]}[d[1]]
    raise ValueError(d)


def mkval(d):
    k = d[0]
    if k == "scal":
        return mkcomp(d[1])
    if k == "list":
        return [mkcomp(c) for c in d[1]]
    if k == "tuple":
        return tuple(mkcomp(c) for c in d[1])
    if k == "gen":
        return (x for x in [mkcomp(c) for c in d[1]])        # a one-shot iterable
    if k == "nparr":
        return np.array([mkcomp(c) for c in d[1]])
    if k == "str":
        return str(d[1])
    raise ValueError(d)


TYPES = {"bool": bool, "int": int, "float": float, "complex": complex, "str": str}
NPTYPES = {"bool": np.bool_, "int": np.int32, "float": np.float64, "complex": complex, "str": str}


def mkkey(k, variant):
    """the same index in another integer representation"""
    k = int(k)
    return [k, np.int64(k), np.int32(k)][variant % 3] if -2 ** 31 <= k < 2 ** 31 else k


def canon_comp(x, tname):
    """cast a read-back component to the attribute's type and encode it exactly"""
    if tname == "Bool":
        if isinstance(x, (bool, np.bool_)):
            return ["b", int(bool(x))]
        raise ValueError("not a bool: %r" % (x,))
    if tname == "Int":
        if isinstance(x, (bool, np.bool_, int, np.integer)):
            return ["i", int(x)]
        raise ValueError("not an int: %r" % (x,))
    if tname == "Float":
        if isinstance(x, (bool, np.bool_, int, np.integer, float, np.floating)):
            v = float(x) * 8
            if v != int(v):
                raise ValueError("float %r is not a multiple of 1/8" % (x,))
            return ["f", int(v)]
        raise ValueError("not a float: %r" % (x,))
    if tname == "Complex":
        if isinstance(x, (complex, np.complexfloating)):
            z = complex(x)
            a, b = z.real * 8, z.imag * 8
            if a != int(a) or b != int(b):
                raise ValueError("inexact complex")
            return ["c", int(a), int(b)]
        raise ValueError("not a complex: %r" % (x,))
    if tname == "String":
        if isinstance(x, (str, np.str_)):
            return ["s", str(x)]
        raise ValueError("not a str: %r" % (x,))
    raise ValueError(tname)


def errkind(ex):
    from mouette.mesh.mesh_attributes import Attribute
    n = type(ex).__name__
    if isinstance(ex, Attribute.OutOfBoundsError):
        return "oob"
    if isinstance(ex, Attribute.InvalidSizeError):
        return "size"
    if isinstance(ex, Attribute.TypeNotMatchingError):
        return "type"
    if isinstance(ex, Attribute.DefaultValueTypeDoesNotMatchError):
        return "dflt"
    if n == "ValueError" and "is not a valid Type" in str(ex):
        return "enum"
    if n == "TypeError" and "is not iterable" in str(ex):
        return "notiter"
    if n == "IndexError":
        return "index"
    if n == "OverflowError":
        return "overflow"
    if n == "TypeError" and "does not support item assignment" in str(ex):
        return "notsub"
    if n in ("TypeError", "ValueError") and ("cannot unpack" in str(ex) or "values to unpack" in str(ex)):
        return "unpack"
    if n == "ValueError" and "truth value of an array" in str(ex):
        return "ambiguous"
    if n == "Exception" and str(ex).startswith("data array has invalid shape"):
        return "shape"
    if n == "Exception" and str(ex) == "Attribute does not exist":
        return "noattr"
    if n == "Exception" and str(ex).startswith("Could not append data container"):
        return "badappend"
    return "other:%s: %s" % (n, str(ex)[:120])


def run_case(case):
    from mouette.mesh.data_container import DataContainer, CornerDataContainer
    corner = case.get("cont") == "corner"
    cont = CornerDataContainer(id="c") if corner else DataContainer(id="c")
    # a sibling container built from a caller list, with an attribute of a colliding name: nothing the session does to
    # `cont` (nor what the caller does to its list) may show on it
    sib_src = [7, 8]
    sib = DataContainer(data=sib_src, id="sib")
    sib_src.append(9)
    sib_attr = sib.create_attribute("a0", float, 2, dense=True)
    sib_attr[1] = [1.5, 2.5]
    sib_sp = sib.create_attribute("a1", int, 1)
    sib_sp[0] = 4

    def sibling_ok():
        try:
            return (len(sib) == 2 and sorted(sib.attributes) == ["a0", "a1"] and len(sib_attr) == 2
                    and list(sib_attr[1]) == [1.5, 2.5] and list(sib_attr[0]) == [0.0, 0.0] and sib_sp[0] == 4 and sib_sp[1] == 0
                    and len(sib_sp) == 1 and sib.get_attribute("a0") is sib_attr)
        except Exception:  # noqa
            return False
    refs = []
    out = []
    counter = [0]

    def fresh():
        counter[0] += 1
        return counter[0]

    def nm(a):
        return "a%d" % a

    def names():
        # attributes the session did not create (a leak from another container) are listed under negative ids
        out_ = []
        for i_, k in enumerate(sorted(cont.attributes)):
            out_.append(int(k[1:]) if (k[:1] == "a" and k[1:].isdigit()) else -1000 - i_)
        return sorted(out_)

    def read_row(at, k):
        """canonical row read through attr[k] (copied at once, nothing retained)"""
        v = at[k]
        t = at.type.name
        if at.elemsize > 1:
            arr = np.asarray(v)
            if arr.shape != (at.elemsize,):
                raise ValueError("entry of a vector attribute has shape %r" % (arr.shape,))
            return [canon_comp(x, t) for x in list(arr)], True
        if isinstance(v, np.ndarray):
            raise ValueError("entry of a scalar attribute is an array")
        return [canon_comp(v, t)], False

    def lens():
        return [[a, len(cont.get_attribute(nm(a))) if a >= 0 else -1] for a in names()]

    def snapshot():
        snap = []
        for a in names():
            if a < 0:
                snap.append([a, []])
                continue
            at = cont.get_attribute(nm(a))
            rows = []
            for k in range(len(cont)):
                try:
                    rows.append(read_row(at, k)[0])
                except Exception as ex:  # noqa
                    rows.append([errkind(ex)])
            snap.append([a, rows])
        return snap

    def rows_of(arr, at):
        arr = np.asarray(arr)
        m = arr.reshape(-1, at.elemsize)
        return [[canon_comp(x, at.type.name) for x in list(r)] for r in m]

    for op in case["ops"]:
        name = op[0]
        try:
            if name == "create":
                _, a, t, k, dense, d = op
                dv = None if d is None else mkcomp(d)
                form = (a + k + len(out)) % 4
                ty = NPTYPES[t] if (a + len(out)) % 5 == 0 else TYPES[t]
                with warnings.catch_warnings():
                    warnings.simplefilter("ignore")
                    if form == 0:
                        r = cont.create_attribute(nm(a), ty, k, dense=bool(dense), default_value=dv)
                    elif form == 1:
                        r = cont.create_attribute(nm(a), ty, k, bool(dense), dv)                       # positional
                    elif form == 2:
                        r = cont.create_attribute(name=nm(a), data_type=ty, elem_size=k, dense=bool(dense), default_value=dv, size=None)
                    elif dv is None and k == 1 and not dense:
                        r = cont.create_attribute(nm(a), ty)                                            # every optional omitted
                    else:
                        r = cont.create_attribute(nm(a), ty, elem_size=k, default_value=dv, dense=bool(dense))
                out.append(["ok"] if r is cont.get_attribute(nm(a)) else ["other", "create returned another object"])
            elif name == "delete":
                cont.delete_attribute(nm(op[1]))
                out.append(["ok"])
            elif name == "has":
                out.append(["bool", bool(cont.has_attribute(nm(op[1])))])
            elif name == "clear_attr":
                r = cont.get_attribute(nm(op[1])).clear()
                out.append(["ok"] if r is None else ["other", repr(r)])
            elif name == "as_array":
                at = cont.get_attribute(nm(op[1]))
                arr = at.as_array() if (not isinstance(at._data, dict) and len(out) % 2) else at.as_array(len(cont))
                n = len(cont)
                if not isinstance(arr, np.ndarray):
                    out.append(["other", "as_array returned a %s" % type(arr).__name__])
                    continue
                kind = {"b": "bool", "i": "int", "u": "int", "f": "float", "c": "complex", "U": "str"}.get(arr.dtype.kind, arr.dtype.kind)
                refs.append(("arr", arr, at.elemsize))
                # the contents row by row, and the shape / dtype kind of the array as it was returned
                out.append(["rows", rows_of(arr, at), [int(x) for x in arr.shape], kind])
            elif name == "len":
                out.append(["nat", int(len(cont.get_attribute(nm(op[1]))))])
            elif name == "iter":
                at = cont.get_attribute(nm(op[1]))
                items = list(iter(at))
                if isinstance(at._data, dict):
                    out.append(["keys", [int(x) for x in items]])
                else:
                    out.append(["rows", [[canon_comp(x, at.type.name) for x in list(np.asarray(r).reshape(-1))] for r in items]])
            elif name == "set":
                at = cont.get_attribute(nm(op[1]))
                val = mkval(op[3])
                at[mkkey(op[2], len(out))] = val
                if isinstance(val, np.ndarray) and val.size:
                    # scribble on the caller's array afterwards: the attribute must hold its own copy
                    val[...] = val[::-1].copy() if val.dtype.kind in "US" else val + 3
                elif isinstance(val, list) and val:
                    val[0] = "scribble"
                    val.append(None)
                out.append(["ok"])
            elif name == "get":
                at = cont.get_attribute(nm(op[1]))
                v = at[mkkey(op[2], len(out))]
                t = at.type.name
                if at.elemsize > 1:
                    if not isinstance(v, np.ndarray) or np.asarray(v).shape != (at.elemsize,):
                        out.append(["other", "read of a vector attribute returned %r" % (v,)])
                    else:
                        refs.append(("vec", v))
                        out.append(["val", [canon_comp(x, t) for x in list(np.asarray(v))], True, len(refs) - 1])
                else:
                    if isinstance(v, np.ndarray):
                        out.append(["other", "read of a scalar attribute returned an array %r" % (v,)])
                    else:
                        out.append(["val", [canon_comp(v, t)], False, None])
            elif name == "snap":
                out.append(["snap", snapshot()])
            elif name == "mut" and op[1] >= len(refs):
                out.append(["err", "noref"])
            elif name == "mut" and refs[op[1]][0] != "vec":
                out.append(["err", "badref"])
            elif name == "mut":
                r = refs[op[1]][1]
                with warnings.catch_warnings():
                    warnings.simplefilter("ignore")
                    r[int(op[2])] = mkcomp(op[3])
                out.append(["snap", snapshot()])
            elif name == "mutarr" and op[1] >= len(refs):
                out.append(["err", "noref"])
            elif name == "mutarr" and refs[op[1]][0] != "arr":
                out.append(["err", "badref"])
            elif name == "mutarr":
                _, arr, k = refs[op[1]]
                view = arr.reshape(-1, k)
                if not np.shares_memory(view, arr) and arr.size:
                    out.append(["other", "reshape of the exported array made a copy"])
                else:
                    with warnings.catch_warnings():
                        warnings.simplefilter("ignore")
                        view[int(op[2]), int(op[3])] = mkcomp(op[4])
                    out.append(["snap", snapshot()])
            elif name == "update":
                at = cont.get_attribute(nm(op[1]))
                v = at[mkkey(op[2], len(out))]
                if at.elemsize > 1 and isinstance(v, np.ndarray) and np.asarray(v).shape == (at.elemsize,):
                    refs.append(("vec", v))
                with warnings.catch_warnings():
                    warnings.simplefilter("ignore")
                    v[int(op[3])] = mkcomp(op[4])
                out.append(["ok"])
            elif name == "contains":
                with warnings.catch_warnings():
                    warnings.simplefilter("ignore")
                    r = int(op[2]) in cont.get_attribute(nm(op[1]))
                out.append(["bool", bool(r)])
            elif name == "create_sized":
                _, a, t, k, d, size = op
                dv = None if d is None else mkcomp(d)
                with warnings.catch_warnings():
                    warnings.simplefilter("ignore")
                    r = cont.create_attribute(nm(a), TYPES[t], k, dense=True, default_value=dv, size=size)
                out.append(["ok"] if r is cont.get_attribute(nm(a)) else ["other", "create returned another object"])
            elif name == "register":
                _, a, t, k, rows, d, one_d = op
                dv = None if d is None else mkcomp(d)
                dt = {"bool": bool, "int": np.int64, "float": np.float64, "complex": np.complex128, "str": "<U32"}[t]
                data = np.array([[mkcomp(c) for c in r] for r in rows], dtype=dt).reshape(len(rows), k)
                if one_d and k == 1:
                    data = data.reshape(len(rows))
                had = cont.has_attribute(nm(a))
                with warnings.catch_warnings():
                    warnings.simplefilter("ignore")
                    r = cont.register_array_as_attribute(nm(a), data, default_value=dv)
                if had:
                    out.append(["ok"] if r is None else ["other", "register on an existing name returned %r" % (r,)])
                else:
                    out.append(["ok"] if r is cont.get_attribute(nm(a)) else ["other", "register returned another object"])
            elif name in ("append", "extend_list", "extend_other", "extend_self", "extend_bad", "extend_list_bad"):
                try:
                    if name == "append":
                        if corner:
                            cont.append(fresh(), fresh())
                        else:
                            cont.append(fresh())
                    elif name == "extend_list":
                        items = [((fresh(), fresh()) if corner else fresh()) for _ in range(op[1])]
                        other = {"list": list, "tuple": tuple, "set": set}[op[2]](items)
                        cont += other
                        if isinstance(other, list):
                            other.append((0, 0) if corner else 0)      # the caller's list afterwards: must not show
                        elif isinstance(other, set):
                            other.clear()
                    elif name == "extend_other":
                        other = CornerDataContainer(id="o") if corner else DataContainer(id="o")
                        for _ in range(op[1]):
                            if corner:
                                other.append(fresh(), fresh())
                            else:
                                other.append(fresh())
                        if op[2]:
                            oa = other.create_attribute("zz", float, 1, dense=True)
                            for k in range(op[1]):
                                oa[k] = 1.0
                        cont += other
                        if corner:
                            other.append(fresh(), fresh())             # the operand afterwards: must not show
                        else:
                            other.append(fresh())
                        if op[2] and sorted(other.attributes) != ["zz"]:
                            raise RuntimeError("the operand of += gained attributes")
                    elif name == "extend_self":
                        cont += cont
                    elif name == "extend_list_bad":
                        items = [((fresh(), fresh()) if corner else fresh()) for _ in range(op[1])]
                        cont += items + [5]
                    else:
                        bad = {"range": range(2), "nparray": np.array([1, 2]), "dict": {1: 2}, "none": None,
                               "iter": iter([1, 2]), "gen": (x for x in [1, 2]), "keys": {1: 2}.keys(), "map": map(int, [1, 2])}[op[1]]
                        cont += bad
                    out.append(["grow", len(cont), lens()])
                except Exception as ex:  # noqa
                    out.append(["growerr", errkind(ex), len(cont), lens()])
            elif name == "clear_all":
                cont.clear()
                out.append(["grow", len(cont), lens()])
            elif name == "clen":
                out.append(["nat", len(cont)])
            else:
                raise RuntimeError("unknown op " + name)
        except Exception as ex:  # noqa
            # every exception is a refusal; classes / messages the check does not know stay visible in the kind
            out.append(["err", errkind(ex)])
    if out and not sibling_ok():
        out[-1] = ["other", "an independent container of the same session changed (shared state between containers)"]
    return out


def main():
    payload = json.load(sys.stdin)
    res = {"obs": [run_case(c) for c in payload.get("cases", [])]}
    print("@@JSON " + json.dumps(res))


if __name__ == "__main__":
    main()
