"""Runs mouette's procedural generators (from /repo's working tree) on JSON-described calls and reports
canonical observations.

stdin : {"cases": [ {"gen": "torus", "kw": {"major_segments": 3, ..}}, ... ]}
        argument encodings: number/bool as is ; {"vec": [x,y,z]} ; {"arr": [[..],..]} ;
        {"mesh": {"gen": .., "kw": ..}} (a mesh built by another generator) ; {"raw": {"V": [[..]], "F": [[..]]}}
stdout: '@@JSON ' + {"obs": [ {...} ]}   one observation per case:
        {"exc": None|str, "exc_type": .., "type": "SurfaceMesh", "V": n, "F": [[..]], "E": [[a,b]], "C": [[..]],
         "X": [[x,y,z]], "vattrs": [...], "fattrs": [...], "uv": [[u,v]..]|None}
"""
import json
import sys


def dec(v, M):
    import numpy as np
    if isinstance(v, dict):
        if "vec" in v:
            return M.Vec(*[float(x) for x in v["vec"]])
        if "arr" in v:
            return np.array(v["arr"], dtype=float)
        if "mesh" in v:
            return call(v["mesh"], M)
        if "raw" in v:
            return M.mesh.from_arrays(np.array(v["raw"]["V"], dtype=float), F=np.array(v["raw"]["F"], dtype=int))
        if "cloud" in v:
            return M.mesh.from_arrays(np.array(v["cloud"], dtype=float))
        if "polyline" in v:
            return M.mesh.from_arrays(np.array(v["polyline"]["V"], dtype=float), E=np.array(v["polyline"]["E"], dtype=int).reshape(-1, 2))
        if "used" in v:
            return used_mesh(v["used"], M)
    return v


def persistent_attribute_functions(M):
    """every function of mouette.attributes that stores its result on the mesh by default: f(mesh, ..., persistent=True, ...)"""
    import inspect
    out = []
    for name in sorted(dir(M.attributes)):
        f = getattr(M.attributes, name)
        if name.startswith("_") or not callable(f) or inspect.isclass(f):
            continue
        try:
            ps = list(inspect.signature(f).parameters.values())
        except (TypeError, ValueError):
            continue
        if not ps or ps[0].name != "mesh" or "persistent" not in [p.name for p in ps]:
            continue
        if any(p.default is inspect.Parameter.empty for p in ps[1:]):
            continue
        out.append((name, f))
    return out


def containers(m):
    return [(n, getattr(m, n)) for n in ("vertices", "edges", "faces", "face_corners", "cells", "cell_corners", "cell_faces") if hasattr(m, n)]


def used_mesh(spec, M):
    """A mesh that has been worked with before it reaches the generator:
       1. every persistent attribute function of mouette.attributes has been called on it (those that accept it);
       2. optionally the stored values were then overwritten by junk of the same arity (user attributes of the same names);
       3. then the geometry was edited: translation, scale, anisotropic stretch, one vertex moved."""
    import numpy as np
    m = dec(spec["base"], M)
    called = []
    for name, f in persistent_attribute_functions(M):
        try:
            f(m)
            called.append(name)
        except Exception:  # noqa  (wrong mesh type, non-triangular faces, ...)
            pass
    USED_LOG.append(called)
    if spec.get("junk"):
        for cname, cont in containers(m):
            for an in list(getattr(cont, "attributes", [])):
                try:
                    a = cont.get_attribute(an)
                    for i in range(len(cont)):
                        old = a[i]
                        a[i] = (np.asarray(old) * 0 + 977.25 + i).astype(np.asarray(old).dtype) if np.ndim(old) else type(old)(977 + i)
                except Exception:  # noqa
                    pass
    e = spec.get("edit", {})
    sc = np.array(e.get("scale", [1.0, 1.0, 1.0]), dtype=float)
    tr = np.array(e.get("translate", [0.0, 0.0, 0.0]), dtype=float)
    for i in range(len(m.vertices)):
        m.vertices[i] = M.Vec(np.asarray(m.vertices[i], dtype=float) * sc + tr)
    if e.get("move") is not None and len(m.vertices):
        k = e["move"][0] % len(m.vertices)
        m.vertices[k] = M.Vec(np.asarray(m.vertices[k], dtype=float) + np.array(e["move"][1:], dtype=float))
    return m


USED_LOG = []


def build_args(c, M):
    """-> (args, kwargs) following the optional "form" of the case:
       {"positional": [names in order], "omit": [names], "np": {name: dtype}, "aslist": [names]}"""
    import numpy as np
    form = c.get("form", {})
    kw = {}
    for k, v in c.get("kw", {}).items():
        if k in form.get("omit", []):
            continue
        x = dec(v, M)
        if k in form.get("np", {}):
            x = getattr(np, form["np"][k])(x)
        if k in form.get("aslist", []):
            x = [tuple(float(t) for t in row) for row in x]
        kw[k] = x
    args = [dec(v, M) for v in c.get("args", [])]
    for k in form.get("positional", []):
        args.append(kw.pop(k))
    return args, kw


def snapshot(x):
    import numpy as np
    if isinstance(x, np.ndarray):
        return np.array(x, copy=True)
    if hasattr(x, "vertices"):   # a mesh argument: coordinates and attribute names
        return ("mesh", [[float(t) for t in p] for p in x.vertices],
                [[int(t) for t in f] for f in x.faces] if hasattr(x, "faces") else None,
                [[int(t) for t in e] for e in x.edges] if hasattr(x, "edges") else None)
    if isinstance(x, list):
        return [snapshot(t) for t in x]
    return x


def same(a, b):
    import numpy as np
    if isinstance(a, np.ndarray) or isinstance(b, np.ndarray):
        return np.shape(a) == np.shape(b) and bool(np.all(np.asarray(a) == np.asarray(b)))
    if isinstance(a, (list, tuple)) and isinstance(b, (list, tuple)):
        return len(a) == len(b) and all(same(x, y) for x, y in zip(a, b))
    return a == b


def call(c, M, keep=None):
    if c["gen"] == "__raw__":          # a literal input mesh (for dual_mesh): just build it
        return dec({"raw": c["raw"]}, M)
    fn = getattr(M.procedural, c["gen"])
    args, kw = build_args(c, M)
    if keep is not None:
        keep["args"], keep["kw"] = args, kw
        keep["before"] = [snapshot(a) for a in args] + [snapshot(kw[k]) for k in sorted(kw)]
        keep["inputs"] = {}
        for k, a in list(kw.items()) + [("arg%d" % i, a) for i, a in enumerate(args)]:
            if hasattr(a, "vertices"):
                keep["inputs"][k] = {"type": type(a).__name__, "V": len(a.vertices),
                                     "X": [[float(t) for t in p] for p in a.vertices],
                                     "F": [[int(t) for t in f] for f in a.faces] if hasattr(a, "faces") else [],
                                     "E": [[int(t) for t in e_] for e_ in a.edges] if hasattr(a, "edges") else [],
                                     "attrs": {n: sorted(getattr(c_, "attributes", [])) for n, c_ in containers(a)}}
    r = fn(*args, **kw)
    if keep is not None:
        after = [snapshot(a) for a in args] + [snapshot(kw[k]) for k in sorted(kw)]
        keep["args_unchanged"] = same(keep["before"], after)
    return r


def defaults_snapshot(c, M):
    """repr of the default values of the generator's optional parameters (a default mutated by a call is a slip)"""
    import inspect
    if c["gen"] == "__raw__":
        return {}
    fn = getattr(M.procedural, c["gen"])
    fn = getattr(fn, "__wrapped__", fn)
    try:
        return {k: repr(p.default) for k, p in inspect.signature(fn).parameters.items() if p.default is not inspect.Parameter.empty}
    except (TypeError, ValueError):
        return {}


def observe(m):
    out = {"exc": None, "type": type(m).__name__}
    out["V"] = len(m.vertices)
    out["X"] = [[float(x) for x in p] for p in m.vertices]
    out["F"] = [[int(x) for x in f] for f in m.faces] if hasattr(m, "faces") else []
    out["E"] = [[int(x) for x in e] for e in m.edges] if hasattr(m, "edges") else []
    out["C"] = [[int(x) for x in c] for c in m.cells] if hasattr(m, "cells") else []
    out["vattrs"] = sorted(m.vertices.attributes) if hasattr(m.vertices, "attributes") else []
    out["fattrs"] = sorted(m.faces.attributes) if hasattr(m, "faces") and hasattr(m.faces, "attributes") else []
    out["uv"] = None
    if "uv_coords" in out["vattrs"]:
        a = m.vertices.get_attribute("uv_coords")
        try:
            out["uv"] = [[float(x) for x in a[i]] for i in range(len(m.vertices))]
        except Exception as ex:  # noqa
            out["uv"] = "unreadable: %r" % (ex,)
    return out


def edit_in_place(m):
    """Move every vertex (in place, on the stored vector objects) and add a face / an edge."""
    for i in range(len(m.vertices)):
        v = m.vertices[i]
        try:
            v += 7.25
        except Exception:  # noqa
            m.vertices[i] = v + 7.25
    try:
        if hasattr(m, "faces") and len(m.vertices) >= 3:
            m.faces.append((0, 1, 2))
        elif hasattr(m, "edges") and len(m.vertices) >= 2:
            m.edges.append((0, len(m.vertices) - 1))
    except Exception:  # noqa
        pass


def shares_storage(a, b):
    import numpy as np
    for name in ("vertices", "edges", "faces", "face_corners", "cells"):
        ca, cb = getattr(a, name, None), getattr(b, name, None)
        if ca is None or cb is None:
            continue
        if ca is cb or getattr(ca, "_data", 0) is getattr(cb, "_data", 1):
            return "container %s" % name
    va = [a.vertices[i] for i in range(len(a.vertices))]
    vb = [b.vertices[i] for i in range(len(b.vertices))]
    ids = {id(x) for x in va}
    for j, y in enumerate(vb):
        if id(y) in ids:
            return "vertex vector %d" % j
        for x in va[:64]:
            try:
                if np.shares_memory(x, y):
                    return "vertex buffer %d" % j
            except Exception:  # noqa
                pass
    return None


def main():
    import warnings
    warnings.simplefilter("ignore")
    import numpy as np
    import mouette as M
    payload = json.load(sys.stdin)
    res = []
    for c in payload["cases"]:
        np.random.seed(c.get("seed", 0))
        keep = {}
        d0 = defaults_snapshot(c, M)
        try:
            m = call(c, M, keep)
            ob = observe(m)
        except Exception as ex:  # noqa
            res.append({"exc": "%s" % (ex,), "exc_type": type(ex).__name__, "defaults_unchanged": defaults_snapshot(c, M) == d0})
            continue
        ob["args_unchanged"] = keep.get("args_unchanged")
        ob["inputs"] = keep.get("inputs", {})
        ob["used_calls"] = USED_LOG[-1] if USED_LOG and "used" in json.dumps(c.get("kw", {}))[:4000] else None
        ob["defaults_unchanged"] = defaults_snapshot(c, M) == d0
        # the caller's arrays edited after the call must not move the mesh
        try:
            import numpy as _np
            touched = False
            for a in list(keep["args"]) + list(keep["kw"].values()):
                if isinstance(a, _np.ndarray) and a.dtype.kind == "f" and a.size:
                    a += 3.5
                    touched = True
            if touched:
                ob["alias_free"] = all(observe(m).get(k) == ob.get(k) for k in ("V", "X", "F", "E", "C"))
        except Exception as ex:  # noqa
            ob["alias_free"] = "error %s: %s" % (type(ex).__name__, ex)
        # every call must build a fresh mesh: edit the first result in place, call again with the same parameters
        try:
            edit_in_place(m)
            m2 = call(c, M)
            ob2 = observe(m2)
            ob["fresh"] = {"same_object": m2 is m, "shared": shares_storage(m, m2),
                           "second_equal": all(ob2.get(k) == ob.get(k) for k in ("V", "X", "F", "E", "C")),
                           "second": None}
            if not ob["fresh"]["second_equal"]:
                ob["fresh"]["second"] = {k: ob2.get(k) for k in ("type", "V", "F")}
                ob["fresh"]["second"]["X"] = ob2.get("X", [])[:6]
        except Exception as ex:  # noqa
            ob["fresh"] = {"error": "%s: %s" % (type(ex).__name__, ex)}
        res.append(ob)
    print("@@JSON " + json.dumps({"obs": res}))


if __name__ == "__main__":
    main()
