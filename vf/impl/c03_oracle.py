"""Independent oracle for C03: the property sentence restated on concrete outputs, by brute-force recomputation
from the cell list with exact integer arithmetic.  Shares no code with the Coq model.

check(case, obs) -> list of (class_key, message) failures (empty = the observations satisfy C03).
"""
import itertools


def det3(a, b, c):
    return (a[0] * (b[1] * c[2] - b[2] * c[1]) - a[1] * (b[0] * c[2] - b[2] * c[0]) + a[2] * (b[0] * c[1] - b[1] * c[0]))


def sub(a, b):
    return (a[0] - b[0], a[1] - b[1], a[2] - b[2])


def cross(a, b):
    return (a[1] * b[2] - a[2] * b[1], a[2] * b[0] - a[0] * b[2], a[0] * b[1] - a[1] * b[0])


def dot(a, b):
    return a[0] * b[0] + a[1] * b[1] + a[2] * b[2]


class Brute:
    """Everything 'direct inspection of the cell list' yields, for the face/edge numbering the mesh exposes."""

    def __init__(self, V, C, faces, edges):
        self.V, self.C, self.faces, self.edges = V, C, faces, edges
        self.cs = [frozenset(c) for c in C]
        self.fs = [frozenset(f) for f in faces]
        self.es = [frozenset(e) for e in edges]
        self.fid = {f: i for i, f in enumerate(self.fs)}
        self.eid = {e: i for i, e in enumerate(self.es)}
        self.cells_of_face = [sorted(ic for ic, c in enumerate(self.cs) if f <= c) for f in self.fs]
        self.cells_of_edge = [sorted(ic for ic, c in enumerate(self.cs) if e <= c) for e in self.es]
        self.faces_of_edge = [sorted(i for i, f in enumerate(self.fs) if e <= f) for e in self.es]
        self.border_faces = [i for i in range(len(faces)) if len(self.cells_of_face[i]) == 1]
        bset = set(self.border_faces)
        self.border_vertices = sorted({v for i in self.border_faces for v in faces[i]})
        self.border_edges = [i for i, e in enumerate(self.es) if any(e <= self.fs[f] for f in bset)]

    def structure_errors(self):
        """the face / edge lists are exactly the triangles / sides of the cells, each once"""
        out = []
        want_f = {frozenset(t) for c in self.C for t in itertools.combinations(c, 3)}
        if len(self.fid) != len(self.faces) or set(self.fs) != want_f:
            out.append(("faces-not-the-cell-triangles", "mesh.faces is not the set of triangles of the cells, each once"))
        want_e = {frozenset(t) for c in self.C for t in itertools.combinations(c, 2)}
        if len(self.eid) != len(self.edges) or set(self.es) != want_e:
            out.append(("edges-not-the-cell-sides", "mesh.edges is not the set of sides of the cells, each once"))
        return out

    def ring_ok(self, e, cells, fcs):
        """cells / faces around edge e in rotational order: consecutive cells share a face containing the edge,
        faces interleave, closed ring for an interior edge, open fan for a border edge"""
        E = self.es[e]
        if sorted(cells) != self.cells_of_edge[e] or sorted(fcs) != self.faces_of_edge[e]:
            return "the cells/faces listed around edge %d are not those containing it" % e
        n = len(cells)
        border = any(len(self.cells_of_face[f]) == 1 for f in fcs)
        if len(set(cells)) != n or len(set(fcs)) != len(fcs):
            return "repeated element around edge %d" % e
        if len(fcs) != (n + 1 if border else n):
            return "edge %d has %d cells and %d faces" % (e, n, len(fcs))

        def cells_adjacent(x, y):
            common = self.cs[x] & self.cs[y]
            return len(common) == 3 and E <= common

        def faces_adjacent(f, g):
            return any(self.fs[f] <= self.cs[c] and self.fs[g] <= self.cs[c] for c in self.cells_of_edge[e])

        for k in range(n - 1):
            if not cells_adjacent(cells[k], cells[k + 1]):
                return "cells %d and %d are consecutive around edge %d but share no face through it" % (cells[k], cells[k + 1], e)
        for k in range(len(fcs) - 1):
            if not faces_adjacent(fcs[k], fcs[k + 1]):
                return "faces %d and %d are consecutive around edge %d but bound no common cell" % (fcs[k], fcs[k + 1], e)
        if border:
            if len(self.cells_of_face[fcs[0]]) != 1 or len(self.cells_of_face[fcs[-1]]) != 1:
                return "the open fan of faces around border edge %d does not start and end on border faces" % e
        else:
            if n > 2 and not cells_adjacent(cells[-1], cells[0]):
                return "the ring of cells around interior edge %d is not closed" % e
            if len(fcs) > 2 and not faces_adjacent(fcs[-1], fcs[0]):
                return "the ring of faces around interior edge %d is not closed" % e
        return None


def edge_link_connected(B, e):
    cs = B.cells_of_edge[e]
    if not cs:
        return True
    comp, todo = {cs[0]}, [cs[0]]
    while todo:
        x = todo.pop()
        for y in cs:
            if y not in comp and len(B.cs[x] & B.cs[y]) == 3:
                comp.add(y)
                todo.append(y)
    return len(comp) == len(cs)


def check_surface(B, V, d, which, scale=1.0):
    """d: observation of an extracted boundary surface. Returns failures."""
    out = []
    b2m = {k: v for k, v in d["b2m_v"]}
    m2b = {k: v for k, v in d["m2b_v"]}
    nb = len(d["verts"])
    # index maps mutually inverse, onto 0..nb-1 and onto the border vertices
    if sorted(b2m) != list(range(nb)) or sorted(m2b) != B.border_vertices \
            or any(m2b.get(b2m[i]) != i for i in b2m) or any(b2m.get(m2b[v]) != v for v in m2b):
        out.append((which + "/vertex-maps-not-inverse", "vertex index maps are not mutually inverse bijections between the border vertices and 0..n-1"))
        return out
    for i in range(nb):
        if any(abs(float(x) * scale - y) > 1e-9 * (scale + abs(y)) for x, y in zip(V[b2m[i]], d["verts"][i])) \
                or len(d["verts"][i]) != 3:
            out.append((which + "/vertex-position", "surface vertex %d is not at the position of volume vertex %d" % (i, b2m[i])))
            return out
    # exactly the border faces
    got = [frozenset(b2m[v] for v in f) for f in d["faces"]]
    want = [B.fs[i] for i in B.border_faces]
    if sorted(map(sorted, got)) != sorted(map(sorted, want)):
        out.append((which + "/not-exactly-the-border-faces", "the surface's faces are not exactly the border faces"))
        return out
    # closed: every edge of the surface lies in an even number (>0) of its faces
    cnt = {}
    for f in d["faces"]:
        n = len(f)
        for i in range(n):
            k = frozenset((f[i], f[(i + 1) % n]))
            cnt[k] = cnt.get(k, 0) + 1
    if any(c % 2 for c in cnt.values()):
        out.append((which + "/not-closed", "an edge of the extracted surface has an odd number of faces"))
    if sorted(map(sorted, cnt)) != sorted(sorted(e) for e in d["edges"]):
        out.append((which + "/edges", "the surface's edge list is not the set of sides of its faces"))
    # outward orientation (exact signed volumes)
    if True:
        for f in d["faces"]:
            a, b, c = (b2m[v] for v in f)
            ic = B.cells_of_face[B.fid[frozenset((a, b, c))]][0]
            dd = [x for x in B.C[ic] if x not in (a, b, c)][0]
            pa, pb, pc, pd = V[a], V[b], V[c], V[dd]
            s = dot(cross(sub(pb, pa), sub(pc, pa)), sub(pd, pa))
            if s > 0 or (s == 0 and not B.degenerate):
                out.append((which + "/not-outward", "surface face %s (volume vertices %s) is not oriented outwards" % (f, (a, b, c))))
                break
    if which == "bc" and "acc" in d:
        bset = set(B.border_faces)
        mf = {k: v for k, v in d["m2b_f"]}
        for F, got in enumerate(d["acc"]["f2v"]):
            want = B.fs[F] if F in bset else frozenset()
            if frozenset(b2m.get(v) for v in got) != want:
                out.append(("bc/face_to_vertices", "boundary_connectivity.face_to_vertices(%d) answered %s" % (F, got)))
                break
        for Vv, got in enumerate(d["acc"]["v2f"]):
            want = sorted(f for f in B.border_faces if Vv in B.fs[f])
            if (got is None and want) or (got is not None and sorted(got) != want):
                out.append(("bc/vertex_to_faces", "boundary_connectivity.vertex_to_faces(%d) answered %s, border faces at the vertex are %s" % (Vv, got, want)))
                break
    if which == "bc":
        for nm, ref in (("f", B.border_faces), ("e", B.border_edges)):
            mm = {k: v for k, v in d["m2b_" + nm]}
            bm = {k: v for k, v in d["b2m_" + nm]}
            nsurf = len(d["faces"]) if nm == "f" else len(d["edges"])
            if sorted(mm) != sorted(ref) or sorted(bm) != list(range(nsurf)) \
                    or any(bm.get(mm[k]) != k for k in mm) or any(mm.get(bm[k]) != k for k in bm):
                out.append(("bc/%s-maps-not-inverse" % ("face" if nm == "f" else "edge"),
                            "%s index maps are not mutually inverse bijections between the border %ss and the surface's" % (nm, "face" if nm == "f" else "edge")))
                continue
            # and they relate the same elements
            for k, i in mm.items():
                vol = B.fs[k] if nm == "f" else B.es[k]
                srf = frozenset(b2m[v] for v in (d["faces"][i] if nm == "f" else d["edges"][i]))
                if vol != srf:
                    out.append(("bc/%s-map-wrong-element" % nm, "volume %s %d is mapped to surface element %d with other vertices" % (nm, k, i)))
                    break
    return out


def check(case, obs):
    V, C = [tuple(p) for p in case["V"]], [list(c) for c in case["C"]]
    out = []
    if "build_error" in obs:
        return [("build-error", "building the mesh failed: " + obs["build_error"])]
    faces, edges = obs["faces"], obs["edges"]
    B = Brute(V, C, faces, edges)
    B.degenerate = bool(case.get("degenerate"))
    scale = 2.0 ** int(case.get("scale_exp") or 0)
    out += B.structure_errors()
    if out:
        return out
    all_positive = all(det3(sub(V[c[0]], V[c[3]]), sub(V[c[1]], V[c[3]]), sub(V[c[2]], V[c[3]])) > 0 for c in C)
    nonmanifold_edges = [e for e in range(len(edges)) if not edge_link_connected(B, e)]
    for op, ans in zip(case["script"], obs["answers"]):
        nm, a = op[0], op[1:]
        if nm == "swap_clear":
            # from here on the answers must agree with the EDITED cell list (faces / edges keep their numbering)
            C = list(C)
            C[a[0]], C[a[1]] = C[a[1]], C[a[0]]
            B = Brute(V, C, faces, edges)
            B.degenerate = bool(case.get("degenerate"))
            continue
        if nm.startswith("bad:"):
            continue        # an out-of-range id: whatever it answers or raises, the later answers must still be right
        if nm in ("face_id_t", "face_id_l"):
            nm = "face_id"
        if nm == "edge_v":
            nm, a = "edge", [B.eid[frozenset(a[:2])], a[2]]
        what = "%s%s" % (nm, tuple(a))

        def bad(msg, key=None):
            out.append((key or ("answer/" + nm), "%s answered %s: %s" % (what, json_short(ans), msg)))

        if ans[0] == "nat" and ans[1] in (0, 1) and nm.startswith("is_"):
            ans = ["bool", bool(ans[1])]
        if ans[0] == "err" and free_to_refuse(B, C, nm, a):
            continue
        if ans[0] == "err":
            if nm == "is_face_on_border_v" and frozenset(a) not in B.fid:
                pass   # not a face: nothing promised
            else:
                bad("raised", key="raises/%s/%s" % (nm, ans[1].split(":")[0]))
            continue
        if ans[0] == "other":
            bad("not an index / list / bool")
            continue
        if nm == "face_to_cells":
            if ans[0] != "list" or sorted(ans[1]) != B.cells_of_face[a[0]]:
                bad("cells containing the face are %s" % B.cells_of_face[a[0]])
        elif nm == "n_F2C":
            if ans != ["nat", len(B.cells_of_face[a[0]])]:
                bad("the face lies in %d cells" % len(B.cells_of_face[a[0]]))
        elif nm == "cell_to_face":
            c = C[a[0]]
            want = [B.fid[frozenset(c[:i] + c[i + 1:])] for i in range(4)]
            if ans != ["list", want]:
                bad("i-th face opposite the i-th vertex gives %s" % want)
        elif nm == "cell_to_cell":
            c = a[0]
            want = sorted(x for x in range(len(C)) if x != c and len(B.cs[x] & B.cs[c]) == 3)
            if ans[0] != "list" or sorted(ans[1]) != want:
                bad("cells sharing a face are %s" % want)
        elif nm == "other_face_side":
            c, f = a
            cf = B.cells_of_face[f]
            want = ["nat", [x for x in cf if x != c][0]] if (len(cf) == 2 and c in cf) else ["none"]
            if ans != want:
                bad("expected %s" % want)
        elif nm == "common_face":
            common = B.cs[a[0]] & B.cs[a[1]]
            want = ["nat", B.fid[common]] if len(common) == 3 else ["none"]
            if ans != want:
                bad("expected %s" % want)
        elif nm == "vertex_to_cell":
            want = [ic for ic, c in enumerate(C) if a[0] in c]
            if ans[0] != "list" or sorted(ans[1]) != want:
                bad("cells at the vertex are %s" % want)
        elif nm == "in_cell_index":
            c, v = a
            want = ["nat", C[c].index(v)] if v in C[c] else ["none"]
            if ans != want:
                bad("expected %s" % want)
        elif nm == "in_cell_face_index":
            c, f = a
            rest = B.cs[c] - B.fs[f]
            want = ["nat", C[c].index(list(rest)[0])] if (B.fs[f] <= B.cs[c]) else ["none"]
            if ans != want:
                bad("expected %s" % want)
        elif nm == "edge":
            e = a[0]
            if ans[0] != "pair":
                bad("not a pair of lists")
            elif case["sort"]:
                if nonmanifold_edges and e in nonmanifold_edges:
                    if sorted(ans[1]) != B.cells_of_edge[e] or sorted(ans[2]) != B.faces_of_edge[e]:
                        bad("wrong sets around a non-manifold edge")
                else:
                    msg = B.ring_ok(e, ans[1], ans[2])
                    if msg:
                        bad(msg, key="edge-ring-order")
            else:
                if sorted(ans[1]) != B.cells_of_edge[e] or sorted(ans[2]) != B.faces_of_edge[e]:
                    bad("cells %s / faces %s contain the edge" % (B.cells_of_edge[e], B.faces_of_edge[e]))
        elif nm == "cell_to_edge":
            want = sorted(B.eid[frozenset(p)] for p in itertools.combinations(C[a[0]], 2))
            if ans[0] != "list" or sorted(ans[1]) != want:
                bad("edges of the cell are %s" % want)
        elif nm == "face_id":
            k = frozenset(a)
            want = ["nat", B.fid[k]] if (len(k) == 3 and k in B.fid) else ["none"]
            if ans != want:
                bad("expected %s" % want)
        elif nm == "edge_id":
            k = frozenset(a)
            want = ["nat", B.eid[k]] if (len(k) == 2 and k in B.eid) else ["none"]
            if ans != want:
                bad("expected %s" % want)
        elif nm == "is_face_on_border":
            if ans != ["bool", a[0] in B.border_faces]:
                bad("the face lies in %d cell(s)" % len(B.cells_of_face[a[0]]))
        elif nm == "is_face_on_border_v":
            k = frozenset(a)
            if k in B.fid and ans != ["bool", B.fid[k] in B.border_faces]:
                bad("the face lies in %d cell(s)" % len(B.cells_of_face[B.fid[k]]))
        elif nm == "is_vertex_on_border":
            if ans != ["bool", a[0] in B.border_vertices]:
                bad("border vertices are %s" % B.border_vertices)
        elif nm == "is_edge_on_border":
            if ans != ["bool", a[0] in B.border_edges]:
                bad("border edges are %s" % B.border_edges)
        elif nm == "is_edge_on_border_v":
            k = frozenset(a)
            if k in B.eid and ans != ["bool", B.eid[k] in B.border_edges]:
                bad("border edges are %s" % B.border_edges)
        elif nm in ("boundary_faces", "interior_faces", "boundary_edges", "interior_edges", "boundary_vertices", "interior_vertices"):
            n = {"faces": len(faces), "edges": len(edges), "vertices": len(V)}[nm.split("_")[1]]
            bset = set({"faces": B.border_faces, "edges": B.border_edges, "vertices": B.border_vertices}[nm.split("_")[1]])
            want = [i for i in range(n) if (i in bset) == nm.startswith("boundary")]
            if ans[0] != "list" or sorted(ans[1]) != want or len(set(ans[1])) != len(ans[1]):
                bad("direct inspection gives %s" % want, key="border-classification/" + nm)
        elif nm == "enable_bc":
            if ans[0] != "bc":
                bad("no boundary connectivity")
            else:
                out += check_surface(B, V, ans[1], "bc", scale)
        elif nm == "extract":
            if ans[0] != "ex":
                bad("no surface")
            else:
                out += check_surface(B, V, ans[1], "ex", scale)
    return out


def free_to_refuse(B, C, nm, a):
    """queries about elements that do not exist / are not incident: the property text says nothing about them, so `None`
    and a refusal are both accepted (a wrong index is not)"""
    if nm == "face_id":
        return frozenset(a) not in B.fid or len(set(a)) != 3
    if nm == "edge_id":
        return frozenset(a) not in B.eid or len(set(a)) != 2
    if nm == "other_face_side":
        cf = B.cells_of_face[a[1]]
        return not (len(cf) == 2 and a[0] in cf)
    if nm == "common_face":
        return len(B.cs[a[0]] & B.cs[a[1]]) != 3
    if nm == "in_cell_index":
        return a[1] not in C[a[0]]
    if nm == "in_cell_face_index":
        return not B.fs[a[1]] <= B.cs[a[0]]
    if nm == "is_edge_on_border_v":
        return frozenset(a) not in B.eid
    return False


def json_short(a):
    import json
    s = json.dumps(a)
    return s if len(s) < 160 else s[:157] + "..."
