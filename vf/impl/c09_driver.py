"""Runs the shortest-path entry points of /repo's mouette on generated meshes and reports canonical observations.

stdin : {"cases": [case, ...]}   with
  case = {"build": {"kind": "arrays", "V": [[x,y,z]..], "E": [[a,b]..]|null, "F": [[..]..]|null, "C": [[..]..]|null}
                 | {"kind": "proc", "name": <mouette.procedural function>, "args": [...], "kwargs": {...}},
          "mode": "one" | "length" | "dict" | "attr",
          "wpool": [int..], "wden": int, "unset": int      (custom weights: edge e gets wpool[e % len]/wden;
                                                            mode attr leaves every edge with e % unset == 0 unset -> default 0)
          "queries": [{"f": "sp"|"set"|"border", "start": int, "targets": {"form": .., "v": ..}, "export": bool}, ..]}
stdout: '@@JSON ' + {"cases": [{"type":..,"n":..,"edges":..,"adj":..,"border":..|null,"coords":..,"wnum":..|null,
                                "obs":[..]} | {"error": "..."}]}
Only public API / public attributes of the mesh are read.
"""
import json
import resource
import signal
import sys
import traceback


QUERY_TIMEOUT = 3


class QueryTimeout(BaseException):
    pass


def _on_alarm(signum, frame):
    raise QueryTimeout()


def to_int(x):
    import numpy as np
    if isinstance(x, (bool,)):
        raise TypeError("bool")
    if isinstance(x, (int, np.integer)):
        return int(x)
    raise TypeError("not an integer: %r" % (x,))


def build(b):
    import numpy as np
    import mouette as M
    if b["kind"] == "arrays":
        V = np.array(b["V"], dtype=float)
        kw = {}
        for k in ("E", "F", "C"):
            if b.get(k):
                kw[k] = np.array(b[k], dtype=int)
        return M.mesh.from_arrays(V, **kw)
    if b["kind"] == "raw":
        d = M.mesh.RawMeshData()
        d.vertices += [M.Vec(*p) for p in b["V"]]
        for k, cont in (("E", d.edges), ("F", d.faces), ("C", d.cells)):
            for el in (b.get(k) or []):
                cont.append(tuple(int(i) for i in el))
        if b.get("C"):
            return M.mesh.VolumeMesh(d)
        if b.get("F"):
            return M.mesh.SurfaceMesh(d)
        return M.mesh.PolyLine(d)
    if b["kind"] == "proc":
        fn = getattr(M.procedural, b["name"])
        args = [M.Vec(*a) if isinstance(a, list) else a for a in b.get("args", [])]
        return fn(*args, **b.get("kwargs", {}))
    raise ValueError(b["kind"])


def mk_start(v, form):
    import numpy as np
    return {"int": int, "np64": np.int64, "np32": np.int32, "u8": np.uint8}[form](v)


def mk_targets(spec):
    import numpy as np
    form, v = spec["form"], spec["v"]
    if form == "np32list":
        return [np.int32(x) for x in v]
    if form == "u8list":
        return [np.uint8(x) for x in v]
    if form == "nparray":
        return np.array([int(x) for x in v], dtype=np.int64)
    if form == "gen":               # one-shot iterables
        return (int(x) for x in v)
    if form == "iter":
        return iter([int(x) for x in v])
    if form == "keys":
        return dict.fromkeys(int(x) for x in v).keys()
    if form == "int":
        return int(v)
    if form == "npint":             # a single vertex id as mouette hands them out
        return np.int64(v)
    if form == "list":
        return [int(x) for x in v]
    if form == "set":
        return set(int(x) for x in v)
    if form == "tuple":
        return tuple(int(x) for x in v)
    if form == "nplist":            # ids as mouette itself hands them out (np.int64 inside a list)
        return [np.int64(x) for x in v]
    if form == "frozenset":
        return frozenset(int(x) for x in v)
    raise ValueError(form)


def canon_exc(ex):
    """a refusal: its class and message are reported for information only (the property does not fix them)"""
    return ["refused", "%s: %s" % (type(ex).__name__, str(ex)[:200])]


def canon_exc_old(ex):
    msg = str(ex)
    if isinstance(ex, TypeError):
        return ["typeerror", msg]
    if isinstance(ex, KeyError):
        return ["keyerror", msg]
    if type(ex) is Exception and "No target provided" in msg:
        return ["notarget"]
    if type(ex) is Exception and "no border" in msg:
        return ["noborder"]
    return ["other", "%s: %s" % (type(ex).__name__, msg)]


CSC = [1.0]


def canon_polyline(pl):
    return {"vertices": [[float(c) / CSC[0] for c in p] for p in pl.vertices], "edges": [[to_int(a), to_int(b)] for a, b in pl.edges]}


def pre_step(M, P, mesh, st):
    """One step of the scenario played on the mesh before the queries (the answers must depend on the CURRENT mesh only)."""
    op = st["op"]
    if op == "edge_length":          # a geometric attribute computed (and stored) before the geometry is edited
        M.attributes.edge_length(mesh, name=st.get("name", "length"), persistent=st.get("persistent", True))
    elif op == "attr":               # a pre-existing attribute with a colliding name and arbitrary values
        cont = getattr(mesh, st["on"])
        a = cont.create_attribute(st["name"], float)
        vals = st["values"]
        for i in range(len(cont)):
            a[i] = float(vals[i % len(vals)])
    elif op == "move":               # edit the vertex coordinates in place
        for i, p in enumerate(st["V"]):
            mesh.vertices[i] = M.Vec(*[float(c) for c in p])
    elif op == "scale":
        sx = st["s"]
        for i in range(len(mesh.vertices)):
            p = mesh.vertices[i]
            mesh.vertices[i] = M.Vec(float(p[0]) * sx[0], float(p[1]) * sx[1], float(p[2]) * sx[2])
    elif op == "warm":               # a query issued earlier in the session (fills caches)
        nn = len(mesh.vertices)
        if st.get("f") == "set":
            P.shortest_path_to_vertex_set(mesh, st.get("start", 0) % nn, [st.get("target", nn - 1) % nn, (st.get("target", 0) + 1) % nn],
                                          st.get("weights", "length"))
        else:
            P.shortest_path(mesh, st.get("start", 0) % nn, [st.get("target", nn - 1) % nn], st.get("weights", "length"))
    else:
        raise ValueError(op)


def run_case(case):
    import mouette as M
    from mouette.processing import paths as P
    # scale class: the coordinates (and the vertices moved later) are multiplied by 2^cexp, exactly; the answers do
    # not depend on the unit of length, and the coordinates are reported back in the unscaled unit
    csc = 2.0 ** case.get("cexp", 0)
    CSC[0] = csc
    bld = case["build"]
    if csc != 1.0 and bld.get("V"):
        bld = dict(bld, V=[[c * csc for c in p] for p in bld["V"]])
    mesh = build(bld)
    pre_errors = []
    for st in case.get("pre") or []:
        if csc != 1.0 and st["op"] == "move":
            st = dict(st, V=[[c * csc for c in p] for p in st["V"]])
        try:
            signal.alarm(QUERY_TIMEOUT)
            pre_step(M, P, mesh, st)
        except QueryTimeout:
            pre_errors.append([st["op"], "timeout"])
        except Exception as ex:  # noqa
            pre_errors.append([st["op"], "%s: %s" % (type(ex).__name__, ex)])
        finally:
            signal.alarm(0)
    # ambient objects: other priority queues of the session, holding pending items, kept alive during the queries
    ambient = []
    if case.get("ambient"):
        from mouette.utils import PriorityQueue
        for items in case["ambient"]:
            aq = PriorityQueue()
            for x, pr in items:
                aq.push(x, pr)
            ambient.append(aq)

    def plain(x):
        try:
            return to_int(x)
        except Exception:  # noqa
            return repr(x)

    def ambient_state():
        out = []
        for aq in ambient:
            try:
                out.append(sorted(([float(it.priority), plain(it.x)] for it in aq.data), key=lambda t: (t[0], repr(t[1]))))
            except Exception as ex:  # noqa
                out.append(["unreadable", "%s: %s" % (type(ex).__name__, ex)])
        return out
    n = len(mesh.vertices)
    edges = [[to_int(a), to_int(b)] for (a, b) in mesh.edges]
    adj = [[to_int(x) for x in mesh.connectivity.vertex_to_vertices(v)] for v in range(n)]
    border = None
    if type(mesh).__name__ == "SurfaceMesh":
        border = [to_int(x) for x in mesh.boundary_vertices]
    coords = [[float(c) / csc for c in p] for p in mesh.vertices]
    mode = case["mode"]
    wnum = None
    if mode in ("one", "length"):
        weights = mode
    else:
        pool, den = case["wpool"], case["wden"]
        wnum = [pool[e % len(pool)] for e in range(len(edges))]
        if mode == "dict":
            # the VALUE of each weight is wnum/den; its machine representation is whatever a caller may legally use
            import numpy as np
            wrepr = case.get("wrepr", "pyfloat")
            sc = 2.0 ** case.get("wexp", 0)      # shortest paths do not depend on the unit of the weights
            conv = {"pyfloat": lambda a, b: a / b * sc, "pyint": lambda a, b: int(a // b), "bool": lambda a, b: bool(a // b),
                    "f32": lambda a, b: np.float32(a / b), "f64": lambda a, b: np.float64(a / b * sc),
                    "i8": lambda a, b: np.int8(a // b), "i16": lambda a, b: np.int16(a // b),
                    "i32": lambda a, b: np.int32(a // b), "i64": lambda a, b: np.int64(a // b),
                    "u8": lambda a, b: np.uint8(a // b), "u16": lambda a, b: np.uint16(a // b),
                    "u32": lambda a, b: np.uint32(a // b), "u64": lambda a, b: np.uint64(a // b)}[wrepr]
            weights = dict((e, conv(wnum[e], den)) for e in range(len(edges)))
            for e in range(len(edges)):
                if float(weights[e]) * den != wnum[e] * (sc if wrepr in ("pyfloat", "f64") else 1.0):
                    raise ValueError("weight %r/%r is not representable as %s" % (wnum[e], den, wrepr))
        else:
            weights = mesh.edges.create_attribute("c09_w", float)
            k = case.get("unset", 0)
            for e in range(len(edges)):
                if k and e % k == 0:
                    wnum[e] = 0          # left unset: the attribute's default value 0.0
                else:
                    weights[e] = wnum[e] / den * (2.0 ** case.get("wexp", 0))
    obs = []
    amb_after = []
    queries = case.get("queries")
    if not queries and "qseed" in case and n > 0 and edges:
        # queries are drawn here, once the shape of the mesh is known, by the check's own generator (deterministic in qseed)
        import random
        from vf.props.C09 import gen_queries
        queries = gen_queries(random.Random(case["qseed"]), {"n": n, "edges": edges, "border": border}, case["k"])
    queries = queries or []
    extras = []

    def attr_names():
        out = {}
        for nm in ("vertices", "edges", "faces", "cells", "face_corners", "cell_corners"):
            cont = getattr(mesh, nm, None)
            if cont is not None and hasattr(cont, "attributes"):
                out[nm] = sorted(str(a) for a in cont.attributes)
        return out

    def weights_snapshot():
        if isinstance(weights, dict):
            return sorted((int(k), float(v)) for k, v in weights.items())
        return None

    def call(q, tg):
        """one call in the requested call form; returns the raw result"""
        exp = bool(q.get("export"))
        form = q.get("call", "pos")
        st = mk_start(q["start"], q.get("startform", "int"))
        fn = {"sp": P.shortest_path, "set": P.shortest_path_to_vertex_set, "border": P.shortest_path_to_border}[q["f"]]
        if q["f"] == "border":
            if form == "kw":
                return fn(mesh=mesh, start=st, weights=weights, export_path_mesh=exp)
            if form == "omit":
                kw = {}
                if mode != "length":
                    kw["weights"] = weights
                if exp:
                    kw["export_path_mesh"] = exp
                return fn(mesh, st, **kw)
            return fn(mesh, st, weights, exp)
        if form == "kw":
            return fn(mesh=mesh, start=st, targets=tg, weights=weights, export_path_mesh=exp)
        if form == "omit":       # optional arguments left out whenever their default is what is meant
            kw = {}
            if mode != "length":
                kw["weights"] = weights
            if exp:
                kw["export_path_mesh"] = exp
            return fn(mesh, st, tg, **kw)
        return fn(mesh, st, tg, weights, exp)

    def canon(q, r):
        exp = bool(q.get("export"))
        if q["f"] == "sp":
            pm = None
            if exp:
                r, pm = r
            if not isinstance(r, dict):
                return ["other", "not a dict: %r" % (r,)], None
            def plist(p):
                try:
                    return [to_int(x) for x in p]
                except Exception:  # noqa
                    return None          # not a vertex list (None, ...): free for a target that is not connected
            o = ["paths", [[to_int(t), plist(p)] for t, p in r.items()]]
            if pm is not None:
                o.append(canon_polyline(pm))
            return o, [r] + list(r.values())
        if q["f"] == "set":
            if not (isinstance(r, (tuple, list)) and len(r) == (3 if exp else 2)):
                return ["other", "not a %d-tuple: %r" % (3 if exp else 2, r)], None
            o = ["set", to_int(r[0]), [to_int(x) for x in r[1]]]
            if exp:
                o.append(canon_polyline(r[2]))
            return o, [r[1]]
        pm = None
        if exp:
            if not (isinstance(r, (tuple, list)) and len(r) == 2):
                return ["other", "not a pair: %r" % (r,)], None
            r, pm = r
        o = ["border", [to_int(x) for x in r]]
        if pm is not None:
            o.append(canon_polyline(pm))
        return o, [r]

    for q in queries:
        ex_info = {}
        try:
            signal.alarm(QUERY_TIMEOUT)       # a non-terminating back-tracking loop is an observation, not a hang
            names0 = attr_names()
            w0 = weights_snapshot()
            tg = mk_targets(q["targets"]) if "targets" in q else None
            keep = None
            if isinstance(tg, (list, set)):
                keep = (tg, type(tg)(tg))       # the caller's collection must come back unchanged
            r = call(q, tg)
            o, mutable = canon(q, r)
            obs.append(o)
            ex_info["attrs_changed"] = names0 != attr_names()
            ex_info["attrs"] = [names0, attr_names()] if ex_info["attrs_changed"] else None
            ex_info["weights_mutated"] = w0 != weights_snapshot()
            ex_info["targets_mutated"] = bool(keep is not None and keep[0] != keep[1])
            if q.get("repeat") and mutable is not None:
                # the same call again after the first answer was vandalised in place: answers are fresh objects
                for obj in mutable:
                    if isinstance(obj, list):
                        obj.append(-7)
                        obj.reverse()
                    elif isinstance(obj, dict):
                        obj.clear()
                signal.alarm(QUERY_TIMEOUT)
                r2 = call(q, mk_targets(q["targets"]) if "targets" in q else None)
                o2, _ = canon(q, r2)
                ex_info["repeat"] = o2        # judged by the oracle like the first answer (it need not be the same answer)
        except QueryTimeout:
            obs.append(["timeout", "no answer within %d s" % QUERY_TIMEOUT])
        except MemoryError:
            obs.append(["timeout", "memory exhausted"])
        except Exception as ex:  # noqa
            obs.append(canon_exc(ex))
        finally:
            signal.alarm(0)
            extras.append(ex_info)
            amb_after.append(ambient_state())      # one entry per query, whatever way the query ended
    return {"pre_errors": pre_errors, "ambient_after": amb_after, "extras": extras, "type": type(mesh).__name__, "n": n, "edges": edges, "adj": adj, "border": border, "coords": coords,
            "wnum": wnum, "obs": obs, "queries": queries}


def main():
    signal.signal(signal.SIGALRM, _on_alarm)
    try:
        resource.setrlimit(resource.RLIMIT_AS, (6 << 30, 6 << 30))
    except Exception:  # noqa
        pass
    payload = json.load(sys.stdin)
    out = []
    for case in payload["cases"]:
        try:
            out.append(run_case(case))
        except Exception as ex:  # noqa
            out.append({"error": "%s: %s" % (type(ex).__name__, ex), "trace": traceback.format_exc()[-800:]})
    print("@@JSON " + json.dumps({"cases": out}, default=repr))


if __name__ == "__main__":
    main()
