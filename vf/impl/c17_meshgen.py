"""Structured generators of triangulated disks (and of non-disks) for C17.  Pure Python, seeded by the caller's
random.Random.  A mesh is (verts [[x,y,z]], faces [[a,b,c]]) with consistently oriented faces.

Seeds   : polygon triangulated by random chords (no interior vertex), fan (one interior vertex of valence n),
          grid with random diagonals, Delaunay triangulation of random lattice points (non-negative cotangent weights),
          nested wheel.
Edits   : 1->3 face split, interior edge split, border edge split (border length + 1), interior edge flip (creates
          chords = interior edges joining border vertices, and high valences).
Finally : random vertex renumbering, per-face rotation, face shuffle, optional global orientation reversal, optional
          lift to 3D.  Coordinates are rounded to multiples of 1/64 (exactly representable).
"""
import math
from fractions import Fraction


def q64(x):
    return round(x * 64) / 64.0


# ------------------------------------------------------------------ basic combinatorics
def edge_faces(faces):
    """directed edge (a,b) -> index of the face that contains it"""
    d = {}
    for i, f in enumerate(faces):
        for k in range(3):
            d[(f[k], f[(k + 1) % 3])] = i
    return d


def border_cycle(faces):
    """Independent border walk: directed border edges a->b are the face edges without an opposite.
    Returns the list of cycles (each a list of vertices following the faces' orientation)."""
    d = edge_faces(faces)
    succ = {}
    for (a, b) in d:
        if (b, a) not in d:
            succ.setdefault(a, []).append(b)
    cycles = []
    seen = set()
    for s in sorted(succ):
        if s in seen:
            continue
        cyc = [s]
        seen.add(s)
        cur = s
        ok = True
        while True:
            nx = succ[cur]
            if len(nx) != 1:
                ok = False
                break
            cur = nx[0]
            if cur == s:
                break
            if cur in seen or cur not in succ:
                ok = False
                break
            seen.add(cur)
            cyc.append(cur)
        cycles.append(cyc if ok else None)
    return cycles


def euler(nv, faces):
    e = set()
    for f in faces:
        for k in range(len(f)):
            a, b = f[k], f[(k + 1) % len(f)]
            e.add((min(a, b), max(a, b)))
    return nv - len(e) + len(faces)


def area2(p, q, r):
    return (q[0] - p[0]) * (r[1] - p[1]) - (q[1] - p[1]) * (r[0] - p[0])


# ------------------------------------------------------------------ seeds (planar, CCW)
def circle_pts(rng, n, radius=8.0, jitter=0.0):
    out = []
    for i in range(n):
        a = 2 * math.pi * (i + (rng.uniform(-jitter, jitter) if jitter else 0.0)) / n
        out.append([radius * math.cos(a), radius * math.sin(a)])
    return out


def triangulate_polygon(rng, idx):
    """random triangulation of the convex polygon idx (CCW) by chords"""
    faces = []
    stack = [list(idx)]
    while stack:
        p = stack.pop()
        if len(p) < 3:
            continue
        k = rng.randrange(1, len(p) - 1)
        faces.append([p[0], p[k], p[-1]])
        stack.append(p[:k + 1])
        stack.append(p[k:])
    return faces


def seed_chords(rng, n):
    pts = circle_pts(rng, n, jitter=0.2)
    return pts, triangulate_polygon(rng, list(range(n)))


def seed_fan(rng, n):
    pts = circle_pts(rng, n, jitter=0.15) + [[rng.uniform(-2, 2), rng.uniform(-2, 2)]]
    return pts, [[n, i, (i + 1) % n] for i in range(n)]


def seed_wheel(rng, n, m):
    """outer ring n, inner ring m (m>=3), centre"""
    outer = circle_pts(rng, n, 8.0, 0.1)
    inner = circle_pts(rng, m, 3.5, 0.1)
    pts = outer + inner + [[0.1, -0.05]]
    c = n + m
    faces = [[c, n + j, n + (j + 1) % m] for j in range(m)]
    # band between rings: merge by angle
    i = j = 0
    ang_o = [2 * math.pi * k / n for k in range(n + 1)]
    ang_i = [2 * math.pi * k / m for k in range(m + 1)]
    while i < n or j < m:
        if j >= m or (i < n and ang_o[i + 1] <= ang_i[j + 1]):
            faces.append([i % n, (i + 1) % n, n + j % m])
            i += 1
        else:
            faces.append([n + j % m, i % n, n + (j + 1) % m])
            j += 1
    return pts, faces


def seed_grid(rng, a, b):
    pts = [[float(i) * 2, float(j) * 2] for i in range(a + 1) for j in range(b + 1)]
    vid = lambda i, j: i * (b + 1) + j
    faces = []
    for i in range(a):
        for j in range(b):
            p, q, r, s = vid(i, j), vid(i + 1, j), vid(i + 1, j + 1), vid(i, j + 1)
            if rng.random() < 0.5:
                faces += [[p, q, r], [p, r, s]]
            else:
                faces += [[p, q, s], [q, r, s]]
    return pts, faces


def seed_delaunay(rng, npts):
    import numpy as np
    from scipy.spatial import Delaunay
    for _ in range(20):
        pts = set()
        while len(pts) < npts:
            pts.add((rng.randint(-12, 12), rng.randint(-12, 12)))
        pts = sorted(pts)
        try:
            tri = Delaunay(np.array(pts, dtype=float))
        except Exception:
            continue
        faces = []
        good = True
        for s in tri.simplices:
            a, b, c = (int(x) for x in s)
            ar = area2(pts[a], pts[b], pts[c])
            if ar == 0:
                good = False
                break
            faces.append([a, b, c] if ar > 0 else [a, c, b])
        used = {v for f in faces for v in f}
        if good and len(used) == len(pts) and euler(len(pts), faces) == 1 and len(border_cycle(faces)) == 1:
            return [[float(x), float(y)] for x, y in pts], faces
    return seed_fan(rng, 6)


# ------------------------------------------------------------------ edits (keep a consistently oriented disk)
def op_split_face(rng, pts, faces):
    i = rng.randrange(len(faces))
    a, b, c = faces[i]
    w = [rng.uniform(0.2, 0.6) for _ in range(3)]
    s = sum(w)
    pts.append([sum(w[k] * pts[v][0] for k, v in enumerate((a, b, c))) / s,
                sum(w[k] * pts[v][1] for k, v in enumerate((a, b, c))) / s])
    m = len(pts) - 1
    faces[i] = [a, b, m]
    faces += [[b, c, m], [c, a, m]]


def op_split_edge(rng, pts, faces, border):
    d = edge_faces(faces)
    cand = [(a, b) for (a, b) in d if ((b, a) not in d) == border and (border or a < b)]
    if not cand:
        return
    a, b = rng.choice(cand)
    t = rng.uniform(0.35, 0.65)
    pts.append([pts[a][0] * (1 - t) + pts[b][0] * t, pts[a][1] * (1 - t) + pts[b][1] * t])
    m = len(pts) - 1
    for (x, y) in ((a, b), (b, a)):
        if (x, y) in d:
            i = d[(x, y)]
            f = faces[i]
            k = f.index(x)
            z = f[(k + 2) % 3]
            faces[i] = [x, m, z]
            faces.append([m, y, z])


def op_flip(rng, pts, faces, convex_only):
    d = edge_faces(faces)
    cand = [(a, b) for (a, b) in d if a < b and (b, a) in d]
    rng.shuffle(cand)
    for a, b in cand[:6]:
        i, j = d[(a, b)], d[(b, a)]
        fi, fj = faces[i], faces[j]
        c = fi[(fi.index(a) + 2) % 3]
        e = fj[(fj.index(b) + 2) % 3]
        if c == e or (c, e) in d or (e, c) in d:
            continue
        if convex_only and not (area2(pts[c], pts[a], pts[e]) > 1e-6 and area2(pts[e], pts[b], pts[c]) > 1e-6):
            continue
        faces[i] = [c, a, e]
        faces[j] = [e, b, c]
        return


# ------------------------------------------------------------------ assembling one disk
def make_disk(rng, nb, kind=None, n_edits=None, planar_valid=False):
    """A disk whose border has (about) nb vertices (exactly nb unless border splits are drawn)."""
    kind = kind or rng.choice(["chords", "fan", "wheel", "grid", "delaunay", "chords", "fan"])
    if kind == "fan" and nb >= 3:
        pts, faces = seed_fan(rng, nb)
    elif kind == "wheel" and nb >= 3:
        pts, faces = seed_wheel(rng, nb, rng.randint(3, max(3, min(8, nb))))
    elif kind == "grid" and nb >= 4 and nb % 2 == 0:
        a = rng.randint(1, nb // 2 - 1)
        b = nb // 2 - a
        pts, faces = seed_grid(rng, a, b)
    elif kind == "delaunay":
        pts, faces = seed_delaunay(rng, max(4, min(30, nb + rng.randint(0, 8))))
    else:
        kind = "chords"
        pts, faces = seed_chords(rng, nb)
    if n_edits is None:
        n_edits = rng.choice([0, 0, 1, 2, 3, 5, 8, 12])
    for _ in range(n_edits):
        r = rng.random()
        if len(faces) > 90:
            break
        if r < 0.4:
            op_split_face(rng, pts, faces)
        elif r < 0.6:
            op_split_edge(rng, pts, faces, border=False)
        elif r < 0.65 and kind != "delaunay":
            op_split_edge(rng, pts, faces, border=True)
        else:
            op_flip(rng, pts, faces, convex_only=planar_valid)
    return kind, pts, faces


def finish(rng, pts, faces, lift=False, reverse=None):
    n = len(pts)
    perm = list(range(n))
    rng.shuffle(perm)
    verts = [None] * n
    zf = (rng.uniform(-0.05, 0.05), rng.uniform(-0.05, 0.05), rng.uniform(-0.02, 0.02)) if lift else (0, 0, 0)
    for old, new in enumerate(perm):
        x, y = pts[old]
        z = zf[0] * x * x + zf[1] * y * y + zf[2] * x * y if lift else 0.0
        verts[new] = [q64(x), q64(y), q64(z)]
    fs = []
    if reverse is None:
        reverse = rng.random() < 0.5
    for f in faces:
        g = [perm[v] for v in f]
        if reverse:
            g = [g[0], g[2], g[1]]
        k = rng.randrange(3)
        fs.append(g[k:] + g[:k])
    rng.shuffle(fs)
    return verts, fs


def nondegenerate(verts, faces, eps=1e-3):
    for a, b, c in faces:
        p, q, r = verts[a], verts[b], verts[c]
        u = [q[i] - p[i] for i in range(3)]
        v = [r[i] - p[i] for i in range(3)]
        cr = [u[1] * v[2] - u[2] * v[1], u[2] * v[0] - u[0] * v[2], u[0] * v[1] - u[1] * v[0]]
        if math.sqrt(sum(x * x for x in cr)) < eps:
            return False
    return True


def convex_polygon(rng, n):
    """strictly convex polygon with n vertices, coordinates multiples of 1/8, random start, either direction"""
    for _ in range(50):
        R = rng.choice([40, 100, 400])
        angs = sorted(rng.sample(range(0, 3600), n)) if rng.random() < 0.5 else [int(3600 * k / n) for k in range(n)]
        ex, ey = rng.choice([(1, 1), (1, 0.6), (0.7, 1)])
        pts = [(round(8 * R * ex * math.cos(math.pi * a / 1800)), round(8 * R * ey * math.sin(math.pi * a / 1800))) for a in angs]
        ok = len(set(pts)) == n
        for k in range(n):
            if area2(pts[k], pts[(k + 1) % n], pts[(k + 2) % n]) <= 0:
                ok = False
        if ok:
            k0 = rng.randrange(n)
            pts = pts[k0:] + pts[:k0]
            if rng.random() < 0.5:
                pts = pts[::-1]
            return [[x / 8.0, y / 8.0] for x, y in pts]
    raise RuntimeError("no convex polygon")


# ------------------------------------------------------------------ non-disks
NON_DISK_KINDS = ["punctured-torus", "annulus", "tetra", "two", "torus", "octa", "isolated", "disk+tetra"]


def torus_faces(a, b):
    f = []
    for i in range(a):
        for j in range(b):
            p, q, r, s = i * b + j, ((i + 1) % a) * b + j, ((i + 1) % a) * b + (j + 1) % b, i * b + (j + 1) % b
            f += [[p, q, r], [p, r, s]]
    return f


def non_disk(rng, k=None):
    k = k or rng.choice(NON_DISK_KINDS)
    if k == "punctured-torus":            # ONE border cycle, one handle: chi = -1
        a, b = rng.randint(3, 4), rng.randint(3, 4)
        v = [[(2 + math.cos(2 * math.pi * j / b)) * math.cos(2 * math.pi * i / a),
              (2 + math.cos(2 * math.pi * j / b)) * math.sin(2 * math.pi * i / a), math.sin(2 * math.pi * j / b)]
             for i in range(a) for j in range(b)]
        f = torus_faces(a, b)
        f.pop(rng.randrange(len(f)))
        return k, [[q64(x) for x in p] for p in v], f
    if k == "sphere-3-holes":             # octahedron minus three pairwise non-adjacent... faces sharing no edge: chi = -1
        v = [[1, 0, 0], [-1, 0, 0], [0, 1, 0], [0, -1, 0], [0, 0, 1], [0, 0, -1]]
        f = [[0, 2, 4], [2, 1, 4], [1, 3, 4], [3, 0, 4], [2, 0, 5], [1, 2, 5], [3, 1, 5], [0, 3, 5]]
        f = [f[1], f[3], f[4], f[6], f[0]]          # 5 faces: V=6, E=12, F=5 -> chi = -1
        return k, [[q64(x) for x in p] for p in v], f
    if k == "tetra":
        v = [[0, 0, 0], [1, 0, 0], [0, 1, 0], [0, 0, 1]]
        f = [[0, 2, 1], [0, 1, 3], [1, 2, 3], [2, 0, 3]]
    elif k == "octa":
        v = [[1, 0, 0], [-1, 0, 0], [0, 1, 0], [0, -1, 0], [0, 0, 1], [0, 0, -1]]
        f = [[0, 2, 4], [2, 1, 4], [1, 3, 4], [3, 0, 4], [2, 0, 5], [1, 2, 5], [3, 1, 5], [0, 3, 5]]
    elif k == "annulus":
        m = rng.randint(3, 9)
        v = [[2 * math.cos(2 * math.pi * i / m), 2 * math.sin(2 * math.pi * i / m), 0] for i in range(m)] + \
            [[math.cos(2 * math.pi * i / m), math.sin(2 * math.pi * i / m), 0] for i in range(m)]
        f = []
        for i in range(m):
            j = (i + 1) % m
            f += [[i, j, m + i], [j, m + j, m + i]]
    elif k == "two":
        v = [[0, 0, 0], [1, 0, 0], [0, 1, 0], [3, 0, 0], [4, 0, 0], [3, 1, 0], [4, 1, 0]]
        f = [[0, 1, 2], [3, 4, 5], [4, 6, 5]]
    elif k == "torus":
        a, b = rng.randint(3, 4), rng.randint(3, 4)
        v = [[(2 + math.cos(2 * math.pi * j / b)) * math.cos(2 * math.pi * i / a),
              (2 + math.cos(2 * math.pi * j / b)) * math.sin(2 * math.pi * i / a), math.sin(2 * math.pi * j / b)]
             for i in range(a) for j in range(b)]
        f = []
        for i in range(a):
            for j in range(b):
                p, q, r, s = i * b + j, ((i + 1) % a) * b + j, ((i + 1) % a) * b + (j + 1) % b, i * b + (j + 1) % b
                f += [[p, q, r], [p, r, s]]
    elif k == "isolated":
        v = [[0, 0, 0], [1, 0, 0], [0, 1, 0], [1, 1, 0], [5, 5, 0]]
        f = [[0, 1, 2], [1, 3, 2]]
    else:  # chi = 1 + 2 = 3
        v = [[0, 0, 0], [1, 0, 0], [0, 1, 0], [5, 0, 0], [6, 0, 0], [5, 1, 0], [5, 0, 1]]
        f = [[0, 1, 2], [3, 5, 4], [3, 4, 6], [4, 5, 6], [5, 3, 6]]
    v = [[q64(x) for x in p] for p in v]
    return k, v, f
