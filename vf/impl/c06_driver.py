"""Runs copy / merge / transform / edit histories on /repo's mouette and reports, after EVERY step, the coordinates
of ALL live objects (meshes and caller arrays) and which vertex slots share one underlying buffer.

stdin : {"cases": [ {"ops": [op, ...]}, ... ]}
stdout: '@@JSON ' + {"obs": [ [step, ...], ... ]}

Objects are numbered in creation order (meshes and caller arrays alike). ops:
  ["arr", rows, "f"|"i"]                       caller creates a numpy array (n,3) (float64 / int64)
  ["from_arrays", a, E|None, F|None, C|None]    mouette.mesh.from_arrays(V=object a, ...)
  ["ring", N, n_cover, open, defect8]           mouette.procedural.ring(N, defect8/8, open, n_cover)
  ["proc", name, params]                        other procedural generators (table PROC below)
  ["load", m, ext]                              save mesh m to a scratch file and load it again
  ["subdiv", m, "loop"|"3quads"]                SurfaceSubdivision on a triangle mesh; the new mesh
  ["border", m]                                 extract_boundary_of_surface / extract_boundary_of_volume
  ["tree", m, "edge"|"face"|"cell"]             spanning tree of m exported with build_tree_as_polyline()
  ["path", m, start, [targets]]                 shortest_path(m, start, targets, export_path_mesh=True)[1]
  ["cutgraph", m, [singular vertices]]          SingularityCutter(m, s).run(); .cut_graph
  ["features", m]                               FeatureEdgeDetector().run(m); .feature_graph
  ["attr", m, cont, a, [values]]                integer attribute "a<a>" on container cont of mesh m, keys 0..len-1
  ["attr_edit", m, cont, a, key, value]         m.<cont>.get_attribute("a<a>")[key] = value
  ["elem_edit", m, "edges"|"faces"|"cells", k]  element k replaced by a cyclic shift of itself (m.<cont>[k] = ...)
  ["grow", m, [x,y,z]]                          the mesh grows through its public containers: one vertex, and an edge to it
                                                (polyline) / a triangle on its first edge with corners and edges (surface);
                                                then m.connectivity.clear()
  ["conn", m, clear]                            (after connectivity.clear() when clear) every connectivity answer of m:
                                                edge_id of every edge and of a non-edge, vertex_to_vertices, face_id,
                                                vertex_to_faces - reported raw, the oracle compares them with m's OWN containers
  ["copy", m, copy_attributes, copy_connectivity]
  ["merge", [m, ...]]
  ["translate", m, t]       t = [x,y,z] | ["slot", obj, i] (the very object stored in that slot is passed)
  ["rotate", m, R, orig]    R = 3x3 rows; orig = None | [x,y,z] | ["slot", obj, i]
  ["scale", m, s, orig]
  ["scale_xyz", m, fx, fy, fz, orig]
  ["normalize", m, center_at_zero] ["fit", m] ["to_origin", m] ["flatten", m, dim]
  ["edit", obj, i, k, x]                        in place: mesh.vertices[i][k] = x   /  V[i,k] = x
  ["set", m, i, [x,y,z]]                        rebinding: mesh.vertices[i] = Vec(x,y,z)
step : {"ok": true, "new": null | {"kind": 0..3|-1 (array), "edges": [...], "faces": [...], "cells": [...], "map": [...]|null,
                                    "fc"/"cc"/"cf": [elem, owner] tables of face_corners / cell_corners / cell_faces,
                                    "src": the same description of the source(s) taken just before a copy / merge,
                                    "shares_connectivity": bool},
        "objs": [ {"xyz": [[x,y,z]..], "cls": [classid..], "attrs": [[cont, a, [values]]..], "elems": [edges, faces, cells],
                   "attr_ids": identity classes of the attribute stores} .. ]}
                                                            (all live objects, class ids canonical by first occurrence)
     | {"ok": false, "err": [type, message]}        (the history stops there)
Numbers are binary64 and travel as JSON floats (repr round-trips exactly).
"""
import enum
import json
import os
import sys
import tempfile
import warnings

import numpy as np

warnings.filterwarnings("ignore")


PARAMS = []      # the caller's point arguments of the last procedural call (kept alive, like a caller would)


def V3(x):
    """the caller's vector: integer-valued coordinates are passed as Python ints (numpy then builds an int64 Vec)"""
    import mouette as M
    c = [int(t) if float(t) == int(t) and INTS[0] else float(t) for t in x[:3]]
    v = M.Vec(c[0], c[1], c[2])
    PARAMS.append(v)
    return v


INTS = [False]   # set per case: pass integer-valued numbers as ints wherever the API takes numbers
CONTS = ["vertices", "edges", "faces", "face_corners", "cells", "cell_corners", "cell_faces"]


def attr_state(o):
    """[[cont index, a, values]] of the attributes a<k> created by the harness, and the identity of every store"""
    out, ids = [], []
    if isinstance(o, np.ndarray):
        return out, ids
    for ci, cn in enumerate(CONTS):
        c = getattr(o, cn, None)
        if c is None:
            continue
        for name in sorted(c.attributes):
            if not (name.startswith("a") and name[1:].isdigit()):
                continue
            at = c.get_attribute(name)
            n = len(c)
            vals = []
            for k in range(n):
                try:
                    vals.append(int(at[k]))
                except Exception:
                    vals.append(None)
            out.append([ci, int(name[1:]), vals])
            ids.append([ci, int(name[1:]), id(at), id(at._data)])
    return out, ids


def graph_state(objs):
    """object graph: [i, j, what] when live mesh i reaches live mesh j through its instance attributes (a back-reference
    to ANOTHER mesh), and [i, j, what] when i and j reach one and the same mutable sub-object (shared state)"""
    import mouette
    live = {id(o): i for i, o in enumerate(objs) if not isinstance(o, np.ndarray)}
    reach = {}
    back = []
    for i, o in enumerate(objs):
        if isinstance(o, np.ndarray):
            continue
        seen = {}
        todo = [(o, "mesh", 0)]
        while todo:
            x, path, d = todo.pop()
            for k, v in (vars(x).items() if hasattr(x, "__dict__") else []):
                if v is None or isinstance(v, (int, float, str, bool, tuple, frozenset, bytes, type, enum.Enum)):
                    continue
                pth = path + "." + k
                if id(v) in live and live[id(v)] != i:
                    back.append([i, live[id(v)], pth])
                    continue
                if id(v) in live or id(v) in seen:
                    continue
                mod = type(v).__module__ or ""
                if mod.startswith("mouette"):
                    seen[id(v)] = pth
                    if d < 3:
                        todo.append((v, pth, d + 1))
                elif isinstance(v, (dict, list, set, np.ndarray)):
                    seen[id(v)] = pth
        reach[i] = seen
    shared = []
    ks = sorted(reach)
    for a in range(len(ks)):
        for b in range(a + 1, len(ks)):
            common = set(reach[ks[a]]) & set(reach[ks[b]])
            for c in sorted(common, key=lambda c: reach[ks[a]][c])[:3]:
                shared.append([ks[a], ks[b], reach[ks[a]][c]])
    return back, shared


def conn_answers(o):
    """raw answers of the connectivity of o (the oracle compares them with o's own containers)"""
    c = o.connectivity
    k = kind_of(o)
    n = len(o.vertices)
    E = [sorted(int(a) for a in e) for e in o.edges]
    ans = {"edge_id": [], "non_edge": [], "v2v": [], "face_id": [], "v2f": []}

    def plain(x):
        return None if x is None else int(x)
    for a, b in E:
        ans["edge_id"].append(plain(c.edge_id(a, b)))
    es = {tuple(e) for e in E}
    non = [(a, b) for a in range(min(n, 6)) for b in range(a + 1, min(n, 6)) if (a, b) not in es][:4]
    ans["non_edge"] = [[a, b, plain(c.edge_id(a, b))] for a, b in non]
    for v in range(n):
        try:
            ans["v2v"].append(sorted(int(x) for x in c.vertex_to_vertices(v)))
        except Exception:  # noqa
            ans["v2v"].append(None)        # an isolated vertex has no entry
    if k >= 2:
        for f in o.faces:
            ans["face_id"].append(plain(c.face_id(*[int(a) for a in f])))
        for v in range(n):
            try:
                ans["v2f"].append(sorted(int(x) for x in c.vertex_to_faces(v)))
            except Exception:  # noqa
                ans["v2f"].append(None)
    return ans


def elem_state(o):
    if isinstance(o, np.ndarray):
        return [[], [], []]
    return [[(sorted(int(a) for a in e) if cn == "edges" else [int(a) for a in e]) for e in getattr(o, cn)]
            if hasattr(o, cn) else [] for cn in ("edges", "faces", "cells")]


def proc(name, p):
    import mouette as M
    P = M.procedural
    if name == "triangle":
        return P.triangle(V3(p[0]), V3(p[1]), V3(p[2]))
    if name == "quad":
        return P.quad(V3(p[0]), V3(p[1]), V3(p[2]), bool(p[3]))
    if name == "unit_grid":
        return P.unit_grid(int(p[0]), int(p[0]), bool(p[1]))
    if name == "tetrahedron":
        return P.tetrahedron(V3(p[0]), V3(p[1]), V3(p[2]), V3(p[3]), volume=bool(p[4]))
    if name == "cube":
        return P.axis_aligned_cube(triangulate=bool(p[0]))
    if name == "octahedron":
        return P.octahedron()
    if name == "hexa":
        return P.hexahedron_4pts(V3(p[0]), V3(p[1]), V3(p[2]), V3(p[3]), volume=True)
    if name == "flat_ring":
        return P.flat_ring(int(p[0]), float(p[1]) / 8.0, int(p[2]))
    if name == "cylinder":
        return P.cylinder(V3(p[0]), V3(p[1]), radius=float(p[2]), N=int(p[3]), fill_caps=bool(p[4]))
    if name == "torus":
        return P.torus(int(p[0]), int(p[1]), 1., 0.25, bool(p[2]))
    if name == "sphere_uv":
        return P.sphere_uv(int(p[0]), int(p[1]))
    if name == "chain":
        return P.chain_of_vertices(np.array(p[0], dtype=float), bool(p[1]))
    if name == "pointcloud":
        pc = M.mesh.PointCloud()
        for x in p[0]:
            # container semantics: the cloud stores the very vector (and number type) the caller hands it: floats here
            pc.vertices.append(M.Vec(float(x[0]), float(x[1]), float(x[2])))
        del PARAMS[:]
        return pc
    raise ValueError("unknown producer " + name)


def kind_of(o):
    import mouette as M
    if isinstance(o, np.ndarray):
        return -1
    if isinstance(o, M.mesh.VolumeMesh):
        return 3
    if isinstance(o, M.mesh.SurfaceMesh):
        return 2
    if isinstance(o, M.mesh.PolyLine):
        return 1
    if isinstance(o, M.mesh.PointCloud):
        return 0
    return -2


def slots(o):
    if isinstance(o, np.ndarray):
        return [o[i] for i in range(o.shape[0])]
    return [o.vertices[i] for i in range(len(o.vertices))]


def snapshot(objs):
    """coordinates + canonical buffer classes of every slot of every live object"""
    ranges = []
    out = []
    for o in objs:
        xs = []
        for s in slots(o):
            a = np.asarray(s)
            xs.append([float(a[0]), float(a[1]), float(a[2]) if a.shape[0] > 2 else 0.0])    # (n,2) arrays: plane z = 0
            lo = a.__array_interface__["data"][0]
            ranges.append((lo, lo + max(1, (a.shape[0] - 1) * abs(a.strides[0]) + a.itemsize)))
        at, ids = attr_state(o)
        names = []
        if not isinstance(o, np.ndarray):
            names = [[cn, sorted(getattr(o, cn).attributes)] for cn in CONTS if getattr(o, cn, None) is not None]
        out.append({"xyz": xs, "attrs": at, "attr_ids": ids, "elems": elem_state(o), "attr_names": names})
    # classes: identical start address = one buffer; partial overlaps are reported as an error
    order = sorted(range(len(ranges)), key=lambda i: ranges[i])
    for a, b in zip(order, order[1:]):
        if ranges[a][0] != ranges[b][0] and ranges[a][1] > ranges[b][0]:
            raise RuntimeError("partially overlapping vertex buffers")
    ids = {}
    k = 0
    pos = 0
    for o, rec in zip(objs, out):
        cls = []
        for _ in rec["xyz"]:
            key = ranges[pos][0]
            pos += 1
            if key not in ids:
                ids[key] = k
                k += 1
            cls.append(ids[key])
        rec["cls"] = cls
    return out


def combi(o, extra=None):
    k = kind_of(o)
    d = {"kind": k, "edges": [], "faces": [], "cells": [], "map": extra, "shares_connectivity": False,
         "fc": [[], []], "cc": [[], []], "cf": [[], []]}
    for key, attr in (("fc", "face_corners"), ("cc", "cell_corners"), ("cf", "cell_faces")):
        c = getattr(o, attr, None) if k >= 0 else None
        if c is not None:
            d[key] = [[int(a) for a in c._elem], [int(a) for a in c._adj]]
    d["nv"] = len(slots(o))
    if k >= 1:
        d["edges"] = [sorted(int(a) for a in e) for e in o.edges]      # an edge is an unordered pair
    if k >= 2:
        d["faces"] = [[int(a) for a in f] for f in o.faces]
    if k >= 3:
        d["cells"] = [[int(a) for a in c] for c in o.cells]
    return d


CANON = [False]   # second attempt of a call whose non-canonical argument FORM was refused: plain python numbers, Vec, 3x3 array,
                  # positional arguments (argument forms the property does not name may be refused)
FORM = ["pos"]     # per case: how optional arguments are passed: "pos" | "kw" | "omit" (defaults left out, rest by keyword)
NUMREP = ["py"]    # per case: representation of numbers / flags / counts: "py" | "np64" | "np32" | "mixed"
VECFORM = ["vec"]  # per case: translation vectors as Vec | list | tuple | ndarray
ROTFORM = ["matrix"]


def num(x):
    v = int(x) if INTS[0] and float(x) == int(x) and not CANON[0] else float(x)
    r = "py" if CANON[0] else NUMREP[0]
    if r == "py":
        return v
    if isinstance(v, int):
        return np.int64(v) if r in ("np64", "mixed") else np.int32(v)
    if r == "np32" and float(np.float32(v)) == v:
        return np.float32(v)
    return np.float64(v)


def cnt(n):
    """a count / index argument"""
    r = "py" if CANON[0] else NUMREP[0]
    return int(n) if r == "py" else (np.int64(n) if r in ("np64", "mixed") else np.int32(n))


def flag(b):
    """a boolean switch: bool, numpy bool, or the ints 0 / 1"""
    r = "py" if CANON[0] else NUMREP[0]
    return bool(b) if r == "py" else (np.bool_(b) if r == "np64" else int(bool(b)))


def call(fn, required, optional):
    """fn(*required, <optional>) in the call form of the case. optional: [(name, value, default)]"""
    f = "pos" if CANON[0] else FORM[0]
    if f == "pos":
        return fn(*[v for _, v in required], *[v for _, v, _ in optional])
    if f == "kw":
        return fn(**dict(required), **{k: v for k, v, _ in optional})
    kw = {}
    for k, v, d in optional:            # "omit": whatever equals its documented default is left out
        same = (v is None and d is None) or (d is not None and v is not None and not hasattr(v, "shape")
                                             and type(d) in (bool, int, float) and v == d)
        if not same:
            kw[k] = v
    return fn(*[v for _, v in required], **kw)


def param(objs, p):
    if p is None:
        return None
    if isinstance(p, list) and p and p[0] == "slot":
        o = objs[p[1]]
        return o[p[2]] if isinstance(o, np.ndarray) else o.vertices[p[2]]
    return V3(p)


def tparam(objs, p):
    """a translation vector in the vector form of the case (translate takes anything array-like)"""
    v = param(objs, p)
    if isinstance(p, list) and p and p[0] == "slot":
        return v
    f = "vec" if CANON[0] else VECFORM[0]
    if f == "list":
        return [c.item() for c in v]
    if f == "tuple":
        return tuple(c.item() for c in v)
    if f == "ndarray":
        return np.array(v)
    return v


def rotarg(R):
    """the rotation in the form of the case: 3x3 ndarray, scipy Rotation object"""
    from scipy.spatial.transform import Rotation
    A = np.array(R, dtype=float)
    if ROTFORM[0] == "object" and not CANON[0]:
        return Rotation.from_matrix(A)
    return A


def run_case(case, scratch):
    import mouette as M
    T = M.transform
    objs = []
    steps = []
    keep = []
    INTS[0] = bool(case.get("ints"))
    FORM[0] = case.get("form", "pos")
    NUMREP[0] = case.get("numrep", "py")
    VECFORM[0] = case.get("vecform", "vec")
    ROTFORM[0] = case.get("rotform", "matrix")
    M.config.complete_edges_from_faces = not case.get("no_edge_completion", False)
    FORMED = ("from_arrays", "ring", "copy", "merge", "translate", "rotate", "rotate_euler", "scale", "scale_xyz", "normalize",
              "flatten")
    plain = (FORM[0] == "pos" and NUMREP[0] == "py" and VECFORM[0] == "vec" and ROTFORM[0] == "matrix")
    n = -1
    CANON[0] = False
    while n + 1 < len(case["ops"]):
        n += 1
        op = case["ops"][n]
        name = op[0]
        new = None
        conn = None
        try:
            if name == "arr":
                ncol = len(op[1][0]) if op[1] else 3
                new = np.array(op[1], dtype=(float if op[2] == "f" else np.int64)).reshape((-1, ncol))
                info = combi(new)
            elif name == "from_arrays":
                kw = {}
                for key, v in zip("EFC", op[2:5]):
                    if v is not None:
                        kw[key] = np.array(v, dtype=np.int64)
                new = call(M.mesh.from_arrays, [("V", objs[op[1]])],
                           [("E", kw.get("E"), None), ("F", kw.get("F"), None), ("C", kw.get("C"), None)])
                info = combi(new)
            elif name == "ring":
                new = call(M.procedural.ring, [("N", cnt(op[1])), ("defect", float(op[4]) / 8.0)],
                           [("open", flag(op[3]), False), ("n_cover", cnt(op[2]), 1)])
                info = combi(new)
            elif name == "proc":
                del PARAMS[:]
                new = proc(op[1], op[2])
                info = combi(new)
                keep.append(list(PARAMS))
                info["shares_params"] = any(np.shares_memory(np.asarray(s), a) for s in slots(new) for a in PARAMS)
            elif name == "load":
                path = os.path.join(scratch, "m%d.%s" % (n, op[2]))
                M.mesh.save(objs[op[1]], path)
                new = M.mesh.load(path)
                info = combi(new)
            elif name == "subdiv":
                with M.mesh.SurfaceSubdivision(objs[op[1]]) as sub:
                    if op[2] == "loop":
                        sub.loop_subdivision()
                    else:
                        sub.subdivide_triangles_3quads()
                new = sub.mesh
                info = combi(new)
            elif name == "border":
                src = objs[op[1]]
                if kind_of(src) == 3:
                    r = M.processing.extract_boundary_of_volume(src)
                    new, b2m = r[0], r[1]
                    info = combi(new, [int(b2m[i]) for i in range(len(new.vertices))])
                else:
                    new, v2v = M.processing.extract_boundary_of_surface(src)
                    inv = {int(b): int(a) for a, b in v2v.items()}
                    info = combi(new, [inv[i] for i in range(len(new.vertices))])
            elif name == "tree":
                T_ = M.processing.trees
                cls = {"edge": T_.EdgeSpanningTree, "face": T_.FaceSpanningTree, "cell": T_.CellSpanningTree}[op[2]]
                src = objs[op[1]]
                tr = cls(src, 0)()
                new = tr.build_tree_as_polyline()
                info = combi(new)
                info["shares_attr"] = False
                cont = {"face": "faces", "cell": "cells"}.get(op[2])
                if cont and getattr(src, cont).has_attribute("barycenter"):
                    bar = getattr(src, cont).get_attribute("barycenter")
                    store = np.asarray(bar._data) if isinstance(bar._data, np.ndarray) else None
                    for i, s_ in enumerate(slots(new)):
                        a = np.asarray(s_)
                        if (store is not None and np.shares_memory(a, store)) or \
                                (store is None and any(np.shares_memory(a, np.asarray(v)) for v in bar._data.values())):
                            info["shares_attr"] = True
            elif name == "path":
                r = M.processing.shortest_path(objs[op[1]], int(op[2]), [int(t) for t in op[3]], export_path_mesh=True)
                new = r[1]
                info = combi(new)
            elif name == "cutgraph":
                sc = M.processing.SingularityCutter(objs[op[1]], [int(t) for t in op[2]], verbose=False)
                sc.run()
                new = sc.cut_graph
                info = combi(new)
            elif name == "features":
                fd = M.processing.FeatureEdgeDetector(verbose=False)
                fd.run(objs[op[1]])
                new = fd.feature_graph
                if new is None:
                    raise RuntimeError("no feature graph")
                info = combi(new)
            elif name == "attr":
                c = getattr(objs[op[1]], CONTS[op[2]])
                at = c.create_attribute("a%d" % op[3], int, dense=bool(op[3] % 2))
                for k, v in enumerate(op[4]):
                    at[k] = int(v)
            elif name == "attr_edit":
                getattr(objs[op[1]], CONTS[op[2]]).get_attribute("a%d" % op[3])[int(op[4])] = int(op[5])
            elif name == "grow":
                o = objs[op[1]]
                nv = len(o.vertices)
                o.vertices.append(M.Vec(float(op[2][0]), float(op[2][1]), float(op[2][2])))
                if kind_of(o) == 0:
                    pass
                elif kind_of(o) == 1:
                    o.edges.append((nv - 1, nv))
                else:
                    a, b = [int(x) for x in o.edges[0]]
                    nf = len(o.faces)
                    o.faces.append((a, b, nv))
                    for v in (a, b, nv):
                        o.face_corners.append(v, nf)
                    o.edges.append((a, nv))
                    o.edges.append((b, nv))
                o.connectivity.clear()
            elif name == "conn":
                o = objs[op[1]]
                if kind_of(o) >= 1:
                    if op[2]:
                        o.connectivity.clear()
                    conn = conn_answers(o)
            elif name == "elem_edit":
                c = getattr(objs[op[1]], op[2])
                el = list(c[int(op[3])])
                c[int(op[3])] = tuple(el[1:] + el[:1]) if op[2] != "edges" else tuple(sorted(el))
            elif name == "copy":
                src = objs[op[1]]
                srcinfo = [combi(src)]
                new = call(M.mesh.copy, [("mesh", src)],
                           [("copy_attributes", flag(op[2]), False), ("copy_connectivity", flag(op[3]), False)])
                info = combi(new)
                info["src"] = srcinfo
                info["shares_connectivity"] = bool(hasattr(src, "connectivity") and hasattr(new, "connectivity")
                                                   and new.connectivity is src.connectivity)
            elif name == "merge":
                srcinfo = [combi(objs[i]) for i in op[1]]
                lst = [objs[i] for i in op[1]]
                if not lst:
                    # a merge of nothing: the property does not speak about it - None, a refusal or an empty mesh are all fine
                    try:
                        new = M.mesh.merge(lst)
                    except Exception as ex:  # noqa
                        new, conn = None, {"raised": type(ex).__name__}
                    if new is not None and len(slots(new)) > 0:
                        raise RuntimeError("merge of an empty list returned a mesh with vertices")
                    new = None
                    info = None
                else:
                    new = call(M.mesh.merge, [("mesh_list", tuple(lst) if FORM[0] == "kw" and not CANON[0] else lst)], [])
                if new is None:
                    if op[1]:
                        raise RuntimeError("merge of a non-empty list returned None")
                    info = None
                else:
                    info = combi(new)
                    info["src"] = srcinfo
            elif name == "translate":
                call(T.translate, [("mesh", objs[op[1]]), ("tr", tparam(objs, op[2]))], [])
            elif name == "rotate":
                call(T.rotate, [("mesh", objs[op[1]]), ("rot", rotarg(op[2]))], [("orig", param(objs, op[3]), None)])
            elif name == "rotate_euler":
                # quarter turns about the fixed axes x, y, z (scipy "xyz"): exact matrices; op[2] = [a, b, c] in quarter turns
                ang = [float(q) * np.pi / 2 for q in op[2]]
                if CANON[0]:
                    raise RuntimeError("no canonical form")     # handled by the caller: Euler angles may be refused
                call(T.rotate, [("mesh", objs[op[1]]), ("rot", tuple(ang) if op[4] else list(ang))],
                     [("orig", param(objs, op[3]), None)])
            elif name == "bad":
                # a call that must fail (or do nothing): whatever happens, every live object is afterwards as it was
                raised = None
                try:
                    o = objs[op[2]] if op[2] is not None else None
                    if op[1] == "rotate_shape":
                        T.rotate(o, np.eye(2))
                    elif op[1] == "rotate_type":
                        T.rotate(o, "xyz")
                    elif op[1] == "translate_len":
                        T.translate(o, M.Vec(1., 2.))
                    elif op[1] == "from_arrays_index":
                        M.mesh.from_arrays(o, F=np.array([[0, 1, o.shape[0]]]))
                    elif op[1] == "from_arrays_cols":
                        M.mesh.from_arrays(np.zeros((3, 4)))
                    elif op[1] == "ring_small":
                        M.procedural.ring(2, 0.5)
                    elif op[1] == "merge_generator":
                        M.mesh.merge(x for x in [o, o])
                    elif op[1] == "copy_none":
                        M.mesh.copy(None)
                except Exception as ex:  # noqa
                    raised = type(ex).__name__
                conn = {"raised": raised}
            elif name == "scale":
                call(T.scale, [("mesh", objs[op[1]]), ("factor", num(op[2]))], [("orig", param(objs, op[3]), None)])
            elif name == "scale_xyz":
                call(T.scale_xyz, [("mesh", objs[op[1]])],
                     [("fx", num(op[2]), 1.), ("fy", num(op[3]), 1.), ("fz", num(op[4]), 1.), ("orig", param(objs, op[5]), None)])
            elif name == "normalize":
                call(T.normalize, [("mesh", objs[op[1]])], [("center_at_zero", flag(op[2]), True)])
            elif name == "fit":
                T.fit_into_unit_cube(objs[op[1]])
            elif name == "to_origin":
                T.translate_to_origin(objs[op[1]])
            elif name == "flatten":
                call(T.flatten, [("mesh", objs[op[1]])], [("dim", cnt(op[2]), None)])
            elif name == "edit":
                o = objs[op[1]]
                if isinstance(o, np.ndarray):
                    o[op[2], op[3]] = op[4]
                else:
                    o.vertices[op[2]][op[3]] = num(op[4])
            elif name == "set":
                # the caller's own vector goes into the container as it is: floats (an int64 vector would stay one)
                objs[op[1]].vertices[op[2]] = M.Vec(float(op[3][0]), float(op[3][1]), float(op[3][2]))
            else:
                raise ValueError("unknown op " + name)
            if new is not None:
                objs.append(new)
            else:
                info = None
            back, shared = graph_state(objs)
            steps.append({"ok": True, "new": info if new is not None else None, "objs": snapshot(objs),
                          "backrefs": back, "shared": shared, "conn": conn, "refused_form": CANON[0]})
            CANON[0] = False
        except Exception as ex:  # noqa: an exception is an observation; the history stops
            if name in FORMED and not CANON[0] and (not plain or name == "rotate_euler"):
                # the argument FORM (keyword names, numpy scalars, list/tuple vectors, Rotation object, Euler angles) may be
                # refused: the property does not name it. Same call again in the canonical form.
                CANON[0] = True
                n -= 1
                continue
            if name == "rotate_euler" and CANON[0]:
                CANON[0] = False
                steps.append({"ok": False, "err": [type(ex).__name__, str(ex)[:200]], "refused_form": True})
                break
            CANON[0] = False
            steps.append({"ok": False, "err": [type(ex).__name__, str(ex)[:200]]})
            break
    return steps


def main():
    payload = json.load(sys.stdin)
    res = []
    with tempfile.TemporaryDirectory(prefix="c06_", dir=os.environ.get("C06_SCRATCH")) as scratch:
        for c in payload["cases"]:
            res.append(run_case(c, scratch))
    print("@@JSON " + json.dumps({"obs": res}))


if __name__ == "__main__":
    main()
