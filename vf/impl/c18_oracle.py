"""C18 independent oracle (numpy only, no mouette import): the clauses of the property restated on the implementation's
observed outputs.  Each function returns a list of (class_key, message) failures."""
import cmath
import math

import numpy as np

from . import c18_own as OWN

TOL = 1e-7


def euler_char(case, obs):
    return len(case["V"]) - len(obs["edges"]) + len(case["F"])


def dense(entries, n):
    L = np.zeros((n, n), dtype=complex)
    for i, j, re, im in entries:
        L[i, j] += complex(re, im)
    return L


def face_feature_edges(case, obs):
    """for every face the list of its directed edges (a,b) that are feature edges"""
    eid = {}
    for k, (a, b) in enumerate(obs["edges"]):
        eid[(a, b)] = k
        eid[(b, a)] = k
    fe = set(obs["feat"])
    out = []
    for f in case["F"]:
        out.append([(f[k], f[(k + 1) % 3]) for k in range(3) if eid.get((f[k], f[(k + 1) % 3])) in fe])
    return out


def branches(z, order):
    t = cmath.phase(z)
    return [(t + 2 * math.pi * k) / order for k in range(order)]


def dirs3d(z, order, X, Y):
    X, Y = np.array(X), np.array(Y)
    return [math.cos(a) * X + math.sin(a) * Y for a in branches(z, order)]


def first_solve_abs(obs):
    out = {}
    if "solve" in obs:
        for k, i in enumerate(obs["free"]):
            if k < len(obs["solve"]["x"]):
                out[i] = abs(complex(*obs["solve"]["x"][k]))
    return out


def has_parallel_unit_field(obs):
    """(sigma_min / sigma_max, null vector scaled to modulus ~1, spread of its moduli) of the observed operator"""
    n = obs["lap_shape"][0]
    L = dense(obs["lap"], n)
    if n == 0:
        return None
    u, sv, vh = np.linalg.svd(L)
    p = vh[-1].conj()
    mods = np.abs(p)
    if mods.max() == 0:
        return None
    p = p / mods.mean()
    return float(sv[-1] / sv[0]) if sv[0] > 0 else 0.0, p, float(np.abs(np.abs(p) - 1).max())


_EIG_CACHE = {}


def eigen_vanishes(case, obs, i):
    """closed surface, eigen path: does the eigenvector of the smallest eigenvalue of the observed connection Laplacian (generalised
    by the vertex masses for the vertex-based field), that eigenvalue being simple, vanish at element i ?"""
    import scipy.linalg as sla
    key = id(obs)
    if key not in _EIG_CACHE:
        n = obs["lap_shape"][0]
        L = dense(obs["lap"], n)
        L = (L + L.conj().T) / 2
        Bm = np.diag(obs["mass"]) if case["elem"] == "vertices" and "mass" in obs else np.eye(n)
        w, v = sla.eigh(L, Bm)
        simple = n >= 2 and (w[1] - w[0]) > 1e-6 * max(1.0, abs(w[-1]))
        _EIG_CACHE.clear()
        _EIG_CACHE[key] = (simple, np.abs(v[:, 0]))
    simple, av = _EIG_CACHE[key]
    return bool(simple and av[i] <= 1e-7 * av.max())


def smoothing_vanishes(obs, L_ref, var0, fixed, free, i):
    """the last smoothing system the code solved is (own operator on the free set) minus a real non-negative diagonal (alpha*AI),
    its right-hand side is -L_IB z_B minus that diagonal times unit (or zero) numbers, and the oracle's own solve of it is
    numerically zero at element i"""
    sl = obs.get("smooth_last")
    if sl is None or L_ref is None or sorted(obs["free"]) != free or len(sl["x"]) != len(free):
        return False
    nf = len(free)
    A = dense(sl["A"], nf)
    b = np.array([complex(x, y) for x, y in sl["b"]])
    LII = L_ref[np.ix_(free, free)]
    D = A - LII
    scale = max(1.0, float(np.abs(LII).max()))
    off = D - np.diag(np.diag(D))
    dg = np.diag(D)
    if np.abs(off).max() > 1e-8 * scale or np.abs(dg.imag).max() > 1e-8 * scale or dg.real.max() > 1e-12:
        return False
    valB = L_ref[np.ix_(free, fixed)] @ np.array(var0)[fixed] if fixed else np.zeros(nf, dtype=complex)
    rest = b + valB                         # should be  -(alpha*AI) u  =  dg * u  with |u| in {0, 1}
    for k in range(nf):
        if abs(dg[k]) > 1e-14:
            m = abs(rest[k] / dg[k])
            if min(abs(m - 1), m) > 1e-6:
                return False
    sv = np.linalg.svd(A, compute_uv=False)
    if sv[-1] <= 1e-12 * sv[0]:
        return False
    x = np.linalg.solve(A, b)
    return bool(abs(x[free.index(i)]) <= 1e-8 * max(1.0, float(np.abs(x).max())))


def plain_border_vertex(case, obs, v):
    """v lies on the border and its feature edges are exactly its two border edges (no crease ends there)"""
    he = set()
    for f in case["F"]:
        for k in range(3):
            he.add((f[k], f[(k + 1) % 3]))
    border = [e for e, (a, b) in enumerate(obs["edges"]) if v in (a, b) and not ((a, b) in he and (b, a) in he)]
    feat = [e for e in obs["feat"] if v in obs["edges"][e]]
    return len(border) == 2 and sorted(border) == sorted(feat)


def classify_crash(case, obs):
    """the field computation raised: -> (key, message, extra) ; the known class is an INPUT class, not an exception text:
    face-based field, closed surface, no feature edge (eigen path), and the connection Laplacian that was assembled is
    singular with a null vector of constant modulus (a parallel unit field exists: trivial order-fold holonomy)"""
    err = obs["crash"]["error"]
    if case["elem"] == "faces" and obs["n_boundary_edges"] == 0 and len(obs["feat"]) == 0:
        r = has_parallel_unit_field(obs)
        if r is not None and r[0] < 1e-12 and r[2] < 1e-6:
            return ("crash/singular-operator", "the implementation raised %s: the connection Laplacian of this closed surface has the "
                    "parallel unit field as null vector (sigma_min/sigma_max = %.2g) and is factorised with shift 0" % (err, r[0]),
                    {"parallel": [[float(z.real), float(z.imag)] for z in r[1]]})
    return ("crash", "the implementation raised %s" % err, None)


def check(case, obs, notes=None):
    """-> failures (key, message).  `notes`: observations about things the property leaves free (stored edge rotations, extra
    attributes left on the mesh, whether a too-early stage call is refused): collected for the evidence, never a violation"""
    fails = []
    notes = notes if notes is not None else []
    elem, order = case["elem"], case["order"]
    V = np.array(case["V"], dtype=float)
    F = case["F"]
    final = np.array([complex(a, b) for a, b in obs["final"]])
    var0 = np.array([complex(a, b) for a, b in obs["var0"]])
    n = len(final)
    has_feat = len(obs["feat"]) > 0
    # the constrained / free elements as the property words them (not read from the implementation's work attributes)
    fixed, free = OWN.partition(n, F, obs["edges"], obs["feat"], elem)

    # ---- the reference, independent of how the implementation solves: operator rebuilt from the geometry (in the tangent
    #      bases the implementation chose - a gauge), and the harmonic extension of the observed constraints under it
    L_ref = z_ref = None
    try:
        if elem == "faces":
            L_ref = OWN.lap_faces(V, F, obs["edges"], obs["feat"], order, case.get("cotan", True), bases=obs["bases"])
        else:
            L_ref = OWN.lap_vertices(V, F, order, case.get("cotan", True), {(a, b): complex(c_, s_) for a, b, c_, s_ in obs["transport"]})
        if has_feat and np.all(np.isfinite(var0)):
            z_ref = OWN.harmonic_extension(L_ref, var0, fixed, free)
    except Exception:  # noqa - reported by the operator clause below
        L_ref = z_ref = None
    zmax = max(1.0, float(np.abs(z_ref).max())) if z_ref is not None else 1.0
    solved = {i: abs(z_ref[i]) for i in free} if z_ref is not None else {}   # |harmonic extension| at the free elements

    # ---- every value is a number; unit modulus on every element.  EVERY offending element is classified.
    fixedset = set(fixed) if has_feat else set()
    for i in range(n):
        if not np.isfinite(final[i]):
            sv = obs.get("smooth_sv")
            if (case["n_smooth"] > 0 and has_feat and i not in fixedset and i in solved and np.isfinite(solved[i])
                    and sv is not None and sv < 1e-9):
                fails.append(("unit/nan-smoothing", "element %d is NaN after the smoothing solves: the first solve was finite and "
                                                    "the smoothing matrix lapI - alpha*AI is singular (sigma_min/sigma_max = %.2g)" % (i, sv)))
            else:
                fails.append(("unit/nonfinite", "element %d of the field is not a finite number" % i))
            continue
        mod_i = abs(final[i])
        if abs(mod_i - 1) <= 1e-8:
            continue
        if mod_i >= 1e-8:
            fails.append(("unit/modulus", "element %d has modulus %.12g after normalisation" % (i, mod_i)))
            continue
        cs = vertex_contributions(case, obs, i) if (elem == "vertices" and i in fixedset) else []
        cancels = len(cs) >= 2 and abs(sum(cs)) < 1e-6 and abs(var0[i]) < 1e-8
        guarded = case.get("smooth_normals", True) and order % 2 != 1
        if cancels and guarded:
            fails.append(("unit/zero-constraint-guarded-branch",
                          "element %d (constrained) has modulus %.3g: in the even-order smooth_normals branch a contribution "
                          "that would cancel the accumulated constraint must be skipped, yet the constraint is 0" % (i, mod_i)))
        elif cancels and plain_border_vertex(case, obs, i):
            fails.append(("unit/zero-constraint-border-vertex",
                          "border vertex %d (its two border edges are its only feature edges) has modulus %.3g: the connection flattens a "
                          "border vertex to a multiple of 2 pi/order so that both border edges ask for the SAME representation vector, "
                          "yet they cancel" % (i, mod_i)))
        elif cancels:
            fails.append(("unit/zero-constraint", "element %d (constrained) has modulus %.3g: the constraints of its feature "
                                                  "edges cancel (plain sum) and are left at 0" % (i, mod_i)))
        elif (not has_feat) and obs["n_boundary_edges"] == 0 and case["n_smooth"] == 0 and eigen_vanishes(case, obs, i):
            fails.append(("unit/zero-eigenvector", "element %d has modulus %.3g: closed surface without features, and the eigenvector of the "
                                                   "smallest (simple) eigenvalue of the observed operator vanishes at this element" % (i, mod_i)))
        elif (has_feat and case["n_smooth"] > 0 and i not in fixedset and i in solved and solved[i] > 1e-8 * zmax
              and smoothing_vanishes(obs, L_ref, var0, fixed, free, i)):
            fails.append(("unit/zero-smoothing-solution",
                          "free element %d has modulus %.3g after %d smoothing step(s): the first solve is %.3g there, but the smoothing "
                          "system lapI - alpha*AI (re-solved by the oracle from the rebuilt operator) vanishes there, and normalize "
                          "leaves it" % (i, mod_i, case["n_smooth"], solved[i])))
        elif has_feat and i not in fixedset and i in solved and solved[i] <= 1e-8 * zmax:
            fails.append(("unit/zero-solution", "free element %d has modulus %.3g: the harmonic extension of the constraints vanishes "
                                                "there (|z| = %.3g in the oracle's own solve), nothing to normalise" % (i, mod_i, solved[i])))
        else:
            fails.append(("unit/zero-unexplained", "element %d (%s) has modulus %.3g although %s"
                          % (i, "constrained" if i in fixedset else "free", mod_i,
                             "its constraint is %.3g" % abs(var0[i]) if i in fixedset else
                             ("the harmonic extension is %.3g there" % solved[i] if i in solved else "no harmonic extension explains it"))))

    # ---- constrained elements stay at their constraint
    if has_feat:
        for i in fixed:
            z0 = var0[i]
            want = z0 / abs(z0) if abs(z0) > 1e-10 else z0
            if np.isfinite(final[i]) and abs(final[i] - want) > 1e-9:
                fails.append(("constraint/moved", "constrained element %d moved from %r to %r" % (i, complex(want), complex(final[i]))))

    # ---- vertex-based field: the constraint of a feature vertex is the normalised sum of the order-th powers of the
    #      directions of its feature edges (skipped where the edges conflict: the accumulation rule then depends on the
    #      iteration order - known finding gauge/conflicting-vertex-constraints)
    if elem == "vertices" and has_feat:
        tr_v = {(a, b): complex(c_, s_) for a, b, c_, s_ in obs["transport"]}
        for v in fixed:
            cs = vertex_contributions(case, obs, v)
            if not cs or (len(cs) >= 2 and max(abs(a - b) for a in cs for b in cs) > 1e-6):
                continue
            # the direction of a feature edge at v may be measured extrinsically (projection on the vertex basis) or by the
            # connection's own angle of that edge: the property does not say which - either alignment is accepted
            alt = [tr_v[(v, B_ if v == A_ else A_)] ** order for A_, B_ in (obs["edges"][e] for e in obs["feat"]) if v in (A_, B_)]
            ext = vertex_contributions(dict(case, smooth_normals=True, order=order if order % 2 == 0 else order), obs, v) if order % 2 == 0 else cs
            wants = []
            for lst in (cs, alt, ext):
                w = sum(lst)
                wants.append(w / abs(w) if abs(w) > 1e-8 else w)
            if min(abs(var0[v] - w) for w in wants) > 1e-7:
                fails.append(("constraint/vertex-value", "feature vertex %d is constrained to %r, the order-%d representation of its "
                                                         "feature edge direction(s) is %r" % (v, complex(var0[v]), order, complex(wants[0]))))
                break

    # ---- bases are orthonormal; faces: in the face plane, X along the first feature edge
    B = obs["bases"]
    for i, (X, Y) in enumerate(B):
        X, Y = np.array(X), np.array(Y)
        if abs(X @ X - 1) > 1e-9 or abs(Y @ Y - 1) > 1e-9 or abs(X @ Y) > 1e-9:
            fails.append(("basis/orthonormal", "basis of element %d is not orthonormal" % i))
            break
    if elem == "faces":
        ffe = face_feature_edges(case, obs)
        for t, f in enumerate(F):
            X, Y = np.array(B[t][0]), np.array(B[t][1])
            nrm = np.cross(V[f[1]] - V[f[0]], V[f[2]] - V[f[0]])
            nrm /= np.linalg.norm(nrm)
            if abs(X @ nrm) > 1e-9 or abs(Y @ nrm) > 1e-9 or np.cross(X, Y) @ nrm < 0.999:
                fails.append(("basis/plane", "basis of face %d is not a direct basis of its plane" % t))
                break
        # ---- one branch tangent to the feature edge of every face that has exactly one
        for t, f in enumerate(F):
            if len(ffe[t]) == 0:
                continue
            X, Y = B[t]
            ds = dirs3d(final[t], order, X, Y) if abs(final[t]) > 0.5 else []
            es = []
            for a, b in ffe[t]:
                e = V[b] - V[a]
                es.append(e / np.linalg.norm(e))
            best = [min([np.linalg.norm(np.cross(d, e)) for d in ds] or [9.0]) for e in es]
            if len(ffe[t]) == 1:
                if best[0] > 1e-6:
                    fails.append(("constraint/one-edge-not-tangent",
                                  "face %d has exactly one feature edge %s and no branch of its frame is tangent to it "
                                  "(sin of the smallest angle %.3g)" % (t, ffe[t][0], best[0])))
                    break
            elif min(best) > 1e-6:
                fails.append(("constraint/two-edges-power-4",
                              "face %d has %d feature edges and no branch of its order-%d frame is tangent to any of them "
                              "(sines %s): its constraint is u**4, not u**order" % (t, len(ffe[t]), order, ["%.3g" % x for x in best])))

    # ---- the operator is Hermitian
    L = dense(obs["lap"], obs["lap_shape"][0])
    sc = max(1.0, float(np.abs(L).max()) if L.size else 1.0)
    if L.size and np.abs(L - L.conj().T).max() > 1e-10 * sc:
        i, j = np.unravel_index(np.argmax(np.abs(L - L.conj().T)), L.shape)
        fails.append(("hermitian", "connection Laplacian is not Hermitian: L[%d,%d]=%r, L[%d,%d]=%r" % (i, j, complex(L[i, j]), j, i, complex(L[j, i]))))
    if "flat_diff" in obs and obs["flat_diff"] > 1e-10 * sc:
        fails.append(("flat", "with the flat connection the operator differs from the scalar Laplacian by %.3g" % obs["flat_diff"]))

    # ---- the operator against the harness's OWN geometry (own cotangents, own bases and parallel transport on faces): the
    #      weights the library computed, then the whole connection Laplacian
    L_obs = L
    try:
        if case.get("cotan", True):
            if elem == "faces" and "D" in obs:
                sums = OWN.edge_cot_sums(V, F, obs["edges"])
                for e, (sm, d) in enumerate(zip(sums, obs["D"])):
                    want = 1e8 if abs(sm) < 1e-8 else 1.0 / sm
                    if abs(abs(sm) - 1e-8) < 1e-12:
                        continue
                    okw = (abs(d - want) <= 1e-9 * abs(want)) or (abs(sm) >= 1e-8 and d != 0 and abs(1.0 / d - sm) <= 1e-11)
                    if not okw:
                        fails.append(("operator/edge-weight", "edge %d %s: the dual cotangent weight is %.9g, 1/(cot a + cot b) computed from the "
                                                              "geometry is %.9g (cot a + cot b = %.6g)" % (e, tuple(obs["edges"][e]), d, want, sm)))
                        break
            if elem == "vertices" and "cots" in obs:
                own = OWN.corner_cots(V, F)
                for t in range(len(F)):
                    for k in range(3):
                        if abs(own[t][k] - obs["cots"][t][k]) > 1e-9 * (1 + abs(own[t][k])):
                            fails.append(("operator/corner-cotangent", "face %d corner %d: cotangent %.9g, from the geometry %.9g"
                                                                       % (t, k, obs["cots"][t][k], own[t][k])))
                            break
        if L_ref is None:
            raise KeyError("operator rebuild failed")
        L_own = L_ref
        if L_own.shape == L_obs.shape and L_own.size:
            dlt = np.abs(L_own - L_obs)
            # entries are sums of terms of size |w|: compare relative to the row/column scale
            scl = np.maximum.outer(np.abs(L_own).max(axis=1), np.abs(L_own).max(axis=0)) + 1.0
            if (dlt / scl).max() > 1e-8:
                i, j = np.unravel_index(np.argmax(dlt / scl), dlt.shape)
                fails.append(("operator/own-laplacian", "connection Laplacian entry (%d,%d) is %r, rebuilt from the geometry (own cotangents%s) it is %r"
                              % (i, j, complex(L_obs[i, j]), ", own bases and transport" if elem == "faces" else "", complex(L_own[i, j]))))
            L = L_own      # the harmonic-extension clause below is judged against the independently rebuilt operator
            sc = max(1.0, float(np.abs(L).max()))
        elif L_own.shape != L_obs.shape:
            fails.append(("operator/own-laplacian", "connection Laplacian has shape %s, expected %s" % (L_obs.shape, L_own.shape)))
    except (KeyError, ZeroDivisionError, FloatingPointError) as ex:
        fails.append(("oracle-crash", "the operator could not be rebuilt from the geometry: %r" % ex))

    # ---- harmonic extension (n_smooth = 0, bordered / feature branch): the field is the element-wise normalisation of the
    #      harmonic extension of the constraints under the rebuilt operator - judged on the FINAL FIELD, whatever solver the
    #      implementation used; where it let scipy's spsolve answer, the residual of that answer is judged as well
    if has_feat and len(free) > 0 and case["n_smooth"] == 0 and z_ref is not None and np.all(np.isfinite(final)):
        for i in free:
            if abs(z_ref[i]) > 1e-6 * zmax and abs(abs(final[i]) - 1) < 1e-6:
                want_i = z_ref[i] / abs(z_ref[i])
                if abs(final[i] - want_i) > 1e-6:
                    fails.append(("harmonic/normalised", "with n_smooth=0 free element %d is %r, the normalised harmonic extension of the "
                                                         "constraints is %r" % (i, complex(final[i]), complex(want_i))))
                    break
    if has_feat and "solve" in obs and len(free) > 0 and len(obs["solve"]["x"]) == len(obs["free"]) and sorted(obs["free"]) == free:
        x = np.array([complex(a_, b_) for a_, b_ in obs["solve"]["x"]])
        z = var0.copy()
        z[obs["free"]] = x
        r = (L @ z)[free]
        zs = max(1.0, float(np.abs(z).max()))
        if np.all(np.isfinite(r)) and np.abs(r).max() > 1e-7 * sc * zs:
            fails.append(("harmonic/residual", "the solved field is not harmonic at free element %d: (L z) = %r"
                          % (free[int(np.argmax(np.abs(r)))], complex(r[int(np.argmax(np.abs(r)))]))))

    # ---- edge rotations (face-based field): the matching rule  e^{i k rot} = f2/|f2| conj(f1/|f1|) e^{i k (a1 - a2)},
    #      |rot| <= pi/k  (hypothesis H1 of C18_index_quantum_partial)
    if elem == "faces" and np.all(np.abs(np.abs(final) - 1) < 1e-6):
        he = {}
        for t, f in enumerate(F):
            for k in range(3):
                he[(f[k], f[(k + 1) % 3])] = t
        for ie, (a, b) in enumerate(obs["edges"]):
            t1, t2 = he.get((a, b)), he.get((b, a))
            if t1 is None or t2 is None:
                if abs(obs["rot"][ie]) > 1e-12:
                    notes.append(("rotation/border", "border edge %d carries a rotation %.3g" % (ie, obs["rot"][ie])))
                    break
                continue
            Ev = V[b] - V[a]
            w = []
            for t in (t1, t2):
                X, Y = np.array(B[t][0]), np.array(B[t][1])
                c = complex(Ev @ X, Ev @ Y)
                w.append(c / abs(c))
            lhs = cmath.exp(1j * order * obs["rot"][ie])
            rhs = final[t2] * final[t1].conjugate() * (w[0] * w[1].conjugate()) ** order
            if abs(lhs - rhs) > 1e-6 or abs(obs["rot"][ie]) > math.pi / order + 1e-9:
                notes.append(("rotation/matching", "edge %d: rotation %.6g does not match the closest of the %d branches "
                                                   "(|e^{ik rot} - expected| = %.3g)" % (ie, obs["rot"][ie], order, abs(lhs - rhs))))
                break

    # ---- singularity indices (face-based field): quantum at interior vertices, sum = 4 chi
    if elem == "faces":
        s = np.array(obs["singuls"])
        chi = euler_char(case, obs)
        # Gauss-Bonnet (the named hypothesis of C18_index_sum, C07's theorem): the defects handed to flag_singularities add up to 2 pi chi
        if abs(sum(obs["defect"]) - 2 * math.pi * chi) > 1e-8 * max(1, len(obs["defect"])):
            fails.append(("index/gauss-bonnet", "the angle defects add up to %.12g, 2 pi chi = %.12g" % (sum(obs["defect"]), 2 * math.pi * chi)))
        unflagged = int(np.sum(s == 0))
        slack = unflagged * 1e-3 * 2 / math.pi + 1e-6
        if abs(s.sum() - 4 * chi) > slack:
            fails.append(("index/sum", "singularity indices sum to %.9g, Euler characteristic %d times 4 is %d" % (s.sum(), chi, 4 * chi)))
        if np.all(np.abs(np.abs(final) - 1) < 1e-6):
            q = 4.0 / order
            fixedset = set(fixed) if has_feat else set()
            for v in obs["interior_vertices"]:
                if s[v] != 0 and abs(s[v] / q - round(s[v] / q)) > 1e-6:
                    fails.append(("index/quantum", "interior vertex %d has index %.9g, not a multiple of 4/%d" % (v, s[v], order)))
                    break
    # ---- vertex-based field: the stored face indices are +1 / -1 / 0 by the sign of (sum of the edge rotations around the
    #      face + its curvature), recomputed here from the observed rotations - nothing else may be stored
    if elem == "vertices" and "curv" in obs:
        eid = {}
        for k, (a, b) in enumerate(obs["edges"]):
            eid[(a, b)] = (k, -1.0)     # the attribute holds -rot for the stored orientation
            eid[(b, a)] = (k, 1.0)
        for t, f in enumerate(F):
            ang = obs["curv"][t]
            for k in range(3):
                ie, sg = eid[(f[k], f[(k + 1) % 3])]
                ang += sg * obs["rot"][ie]
            if abs(abs(ang) - 1e-2) < 1e-6:
                continue
            want = 1 if ang > 1e-2 else (-1 if ang < -1e-2 else 0)
            if obs["singuls"][t] != want:
                fails.append(("index/vertex-stored", "face %d carries the index %s, the field that was asked for gives %d (angle %.6g)"
                              % (t, obs["singuls"][t], want, ang)))
                break
    # ---- flagging twice in a row stores the same indices; a stage called before initialize() is refused
    if obs.get("flag_twice_same") is False:
        fails.append(("index/flag-twice", "calling flag_singularities() a second time changed the stored indices"))
    if obs.get("early_call_accepted"):
        notes.append(("stages/early-call-accepted", "%s() on a field that was never initialised did not raise" % obs["early_call_accepted"]))
    # ---- a field computation + flagging leaves on the mesh only its documented outputs and the geometry caches the library
    #      is known to leave (feature detection, 'fixed', cotan / corner angles / normals / areas): anything else is a leaked
    #      cache that later computations on the same mesh object will read
    if "new_attrs" in obs:
        allowed = ALLOWED_ATTRS[elem]
        extra = {k: [x for x in v if x not in allowed[k]] for k, v in obs["new_attrs"].items()}
        extra = {k: v for k, v in extra.items() if v}
        if extra:
            notes.append(("leak/attribute", "the %s-based field left new attribute(s) %s on the mesh (neither a documented output nor one of the "
                                            "known geometry caches)" % (elem, extra)))
    return fails


ALLOWED_ATTRS = {
    "faces": {"vertices": {"border", "corners", "feature", "singuls"}, "edges": {"angles", "feature", "border"},
              "faces": {"area", "fixed", "border"}, "face_corners": {"cotan"}},
    "vertices": {"vertices": {"border", "corners", "feature", "normals"}, "edges": {"angles", "feature", "border"},
                 "faces": {"area", "normals", "singuls", "border"}, "face_corners": {"angles", "cotan"}},
}


def cleared_matches_fresh(obs, fresh):
    """the probe of a moved step: same call on the same object after deleting the known geometry caches == fresh mesh (field, indices)"""
    cl = obs.get("cleared")
    if not cl or cl.get("final") is None or cl.get("singuls") is None:
        return False
    c = np.array([complex(x, y) for x, y in cl["final"]])
    b = np.array([complex(x, y) for x, y in fresh["final"]])
    cs, s2 = np.array(cl["singuls"], dtype=float), np.array(fresh["singuls"], dtype=float)
    return bool(c.shape == b.shape and np.all(np.isfinite(c)) and np.abs(c - b).max() <= 1e-6 and np.abs(cs - s2).max() <= 1e-6)


def history_check(case, obs, fresh):
    """a field computed and flagged on a mesh object that carried earlier fields (possibly with its vertices moved since),
    against the same computation on a fresh mesh of the same geometry.  -> list of (key, message)"""
    def arr(l):
        return np.array([complex(x, y) for x, y in l])
    out = []
    deterministic = len(obs["feat"]) > 0 and case["n_smooth"] == 0     # linear-solve branch without the eigsh-estimated weight
    a, b = arr(obs["final"]), arr(fresh["final"])
    # 1e-6: the two runs may read cotangents produced by different (equivalent) code paths; with the 1e8 weights of right-angled
    # cells that shows at the 1e-9 level, a stale geometry shows at the 1e-2 level
    same = a.shape == b.shape and np.all(np.isfinite(a)) and np.all(np.isfinite(b)) and np.abs(a - b).max() <= 1e-6
    s1, s2 = np.array(obs["singuls"], dtype=float), np.array(fresh["singuls"], dtype=float)
    if same:
        if np.abs(a - b).max() <= 1e-12 and np.abs(s1 - s2).max() > 1e-9:
            k = int(np.argmax(np.abs(s1 - s2)))
            out.append(("index/history", "the same field (order %d) flagged on a mesh that carried an earlier field stores index %.6g at "
                                         "element %d, on a fresh mesh %.6g" % (case["order"], s1[k], k, s2[k])))
        return out
    if not deterministic or not (np.all(np.isfinite(a)) and np.all(np.isfinite(b))):
        return out   # randomly started eigen-solvers: fields legitimately differ
    k = int(np.argmax(np.abs(a - b)))
    cl = obs.get("cleared")
    if obs.get("moved") and cl and cl.get("final") is not None:
        c = arr(cl["final"])
        cs = np.array(cl["singuls"], dtype=float)
        if c.shape == b.shape and np.abs(c - b).max() <= 1e-6 and np.abs(cs - s2).max() <= 1e-6:
            # recorded mechanism verified: once cotan / corner angles / normals / areas cached on the mesh are deleted, the very
            # same call on the very same object gives the fresh result (field AND indices)
            out.append(("history/stale-geometry-cache",
                        "after its vertices were moved the mesh object gives another field than a fresh mesh of the same geometry "
                        "(element %d: %r vs %r); deleting the cached cotan / angles / normals / area attributes restores it" % (k, complex(a[k]), complex(b[k]))))
            return out
    out.append(("history/field", "the field computed on a mesh object that carried earlier fields%s differs from the one of a fresh mesh of the "
                                 "same geometry at element %d: %r vs %r%s"
                % (" (vertices moved since)" if obs.get("moved") else "", k, complex(a[k]), complex(b[k]),
                   ", also after deleting the known geometry caches" if obs.get("moved") else "")))
    return out


# ---------------------------------------------------------------------- metamorphic: renumbering / face rotation
def _rel_faces(z, order, basis):
    return dirs3d(z, order, *basis)


def _dir_diff(d1, d2):
    return max(min(np.linalg.norm(a - b) for b in d2) for a in d1)


def vertex_contributions(case, obs, v):
    """the representation vectors the feature edges at vertex v ask for (as _initialize_variables computes them)"""
    order = case["order"]
    V = np.array(case["V"], dtype=float)
    t = {(a, b): complex(c, s) for a, b, c, s in obs["transport"]}
    smooth = case.get("smooth_normals", True) and order % 2 != 1
    out = []
    for e in obs["feat"]:
        A, B = obs["edges"][e]
        if v not in (A, B):
            continue
        if smooth:
            X, Y = np.array(obs["bases"][v][0]), np.array(obs["bases"][v][1])
            ed = V[B] - V[A]
            c = complex(X @ ed, Y @ ed)
            out.append((c / abs(c)) ** order)
        else:
            w = B if v == A else A
            out.append(t[(v, w)] ** order)
    return out


def _tiny_solved(case, obs, rel=1e-7):
    """free elements at which the harmonic extension of the constraints (the oracle's own solve) is numerically zero"""
    try:
        n = len(obs["final"])
        fixed, free = OWN.partition(n, case["F"], obs["edges"], obs["feat"], case["elem"])
        if not obs["feat"] or not free:
            return set()
        V = np.array(case["V"], dtype=float)
        if case["elem"] == "faces":
            L = OWN.lap_faces(V, case["F"], obs["edges"], obs["feat"], case["order"], case.get("cotan", True), bases=obs["bases"])
        else:
            L = OWN.lap_vertices(V, case["F"], case["order"], case.get("cotan", True),
                                 {(a, b): complex(c_, s_) for a, b, c_, s_ in obs["transport"]})
        z = OWN.harmonic_extension(L, np.array([complex(a, b) for a, b in obs["var0"]]), fixed, free)
        if z is None:
            return set(free)      # ill-conditioned: directions of the free elements are not determined
        mx = max(1.0, float(np.abs(z).max()))
        return {i for i in free if abs(z[i]) < rel * mx}
    except Exception:  # noqa
        return set()


def guarded_outcomes(cs):
    """every value the accumulation `if abs(var + c) > 1e-10: var += c` (then normalise if abs > 1e-8) can end with,
    over the orders in which the contributions may arrive"""
    import itertools
    outs = []
    for perm in itertools.permutations(range(len(cs))) if len(cs) <= 5 else [tuple(range(len(cs)))]:
        var = 0j
        for k in perm:
            if abs(var + cs[k]) > 1e-10:
                var += cs[k]
        if abs(var) > 1e-8:
            var /= abs(var)
        if not any(abs(var - o) < 1e-7 for o in outs):
            outs.append(var)
    return outs


def vertex_is_flat(case, v):
    V = np.array(case["V"], dtype=float)
    ns = []
    for f in case["F"]:
        if v in f:
            nrm = np.cross(V[f[1]] - V[f[0]], V[f[2]] - V[f[0]])
            ns.append(nrm / np.linalg.norm(nrm))
    return all(float(a @ b) > 1 - 1e-9 for a in ns for b in ns)


def face_edge_powers(case, obs, t, power):
    """u_e ** power for every feature edge e of face t, u_e its unit direction (as stored) in the basis of t"""
    V = np.array(case["V"], dtype=float)
    X, Y = np.array(obs["bases"][t][0]), np.array(obs["bases"][t][1])
    eid = {}
    for k, (a, b) in enumerate(obs["edges"]):
        eid[(a, b)] = eid[(b, a)] = k
    fe = set(obs["feat"])
    f = case["F"][t]
    out = []
    for k in range(3):
        e = eid.get((f[k], f[(k + 1) % 3]))
        if e in fe:
            a, b = obs["edges"][e]
            ed = V[b] - V[a]
            c = complex(ed @ X, ed @ Y)
            out.append((c / abs(c)) ** power)
    return out


def compare_runs(case, obs, case2, obs2, vperm, fperm):
    """The two runs (same surface, renumbered vertices / rotated faces / shuffled face list), measured against the mesh's
    own geometry.  Returns the list of (class_key, message): EVERY element whose constraint differs is classified, each
    known class by its recorded mechanism; if all constraints agree, every element whose frame differs."""
    order = case["order"]
    elem = case["elem"]
    f1 = [complex(a, b) for a, b in obs["final"]]
    f2 = [complex(a, b) for a, b in obs2["final"]]
    z1 = [complex(a, b) for a, b in obs["var0"]]
    z2 = [complex(a, b) for a, b in obs2["var0"]]
    TOLM = 1e-6
    out = []
    tiny1, tiny2 = _tiny_solved(case, obs), _tiny_solved(case2, obs2)
    if elem == "faces":
        ffe = face_feature_edges(case, obs)
        cdiff, fdiff = [], []
        for i in range(len(f1)):
            j = fperm[i]
            if abs(abs(z1[i]) - 1) < 1e-6 and abs(abs(z2[j]) - 1) < 1e-6:
                d = _dir_diff(dirs3d(z1[i], order, *obs["bases"][i]), dirs3d(z2[j], order, *obs2["bases"][j]))
                if d > TOLM:
                    cdiff.append((i, d))
            elif abs(abs(z1[i]) - abs(z2[j])) > 1e-6:
                cdiff.append((i, 9.0))
            if abs(abs(f1[i]) - 1) < 1e-6 and abs(abs(f2[j]) - 1) < 1e-6:
                d = _dir_diff(dirs3d(f1[i], order, *obs["bases"][i]), dirs3d(f2[j], order, *obs2["bases"][j]))
                if d > TOLM:
                    fdiff.append((i, d))
        for i, d in cdiff:
            j = fperm[i]
            # mechanism of the known class: >= 2 feature edges, and in each run the constraint is (unit direction)**4 of ONE of them
            c1 = face_edge_powers(case, obs, i, 4)
            c2 = face_edge_powers(case2, obs2, j, 4)
            mech = (len(ffe[i]) >= 2 and any(abs(z1[i] - c) < 1e-7 for c in c1) and any(abs(z2[j] - c) < 1e-7 for c in c2))
            key = "gauge/two-feature-edge-face" if mech else "gauge/constraint"
            out.append((key, "after renumbering the vertices / rotating the faces the constraint of face %d (%d feature edges) points in "
                             "different directions (difference %.3g, order %d)%s"
                        % (i, len(ffe[i]), d, order, ": each run kept the fourth power of a different one of its edges" if mech else "")))
        if not cdiff:
            for i, d in fdiff:
                if i in tiny1 or fperm[i] in tiny2:
                    out.append(("unit/zero-solution-noise", "the solved value at face %d is numerically zero (just above the 1e-10 "
                                "threshold): its normalised direction is round-off noise and differs between numberings" % i))
                else:
                    out.append(("gauge/numbering", "after renumbering the vertices / rotating the faces the frame of face %d differs by "
                                "%.3g although all constraints agree (order %d)" % (i, d, order)))
        return out
    # vertices: the frame at v measured against each of its own edges (v, w): var[v] * e^{-i order transport(v, w)}
    t1 = {(a, b): complex(c, s) for a, b, c, s in obs["transport"]}
    t2 = {(a, b): complex(c, s) for a, b, c, s in obs2["transport"]}
    cworst, fworst = {}, {}
    for (v, w), tw in t1.items():
        pv, pw = vperm[v], vperm[w]
        if (pv, pw) not in t2:
            return [("gauge/numbering", "edge (%d,%d) has no transport after renumbering" % (v, w))]
        g = (tw.conjugate() ** order, t2[(pv, pw)].conjugate() ** order)
        d0 = abs(z1[v] * g[0] - z2[pv] * g[1])
        if d0 > TOLM:
            cworst[v] = max(cworst.get(v, 0.0), d0)
        if abs(abs(f1[v]) - 1) < 1e-6 and abs(abs(f2[pv]) - 1) < 1e-6:
            d = abs(f1[v] * g[0] - f2[pv] * g[1])
            if d > TOLM:
                fworst[v] = max(fworst.get(v, 0.0), d)
    guarded = order % 2 == 0 and case.get("smooth_normals", True)

    def intrinsic_terms(o, tt, v):
        return [tt[(v, B if v == A else A)] ** order for A, B in (o["edges"][e] for e in o["feat"]) if v in (A, B)]

    def normed(acc):
        return acc / abs(acc) if abs(acc) > 1e-8 else acc
    for v, d0 in sorted(cworst.items()):
        pv = vperm[v]
        cs1, cs2 = vertex_contributions(case, obs, v), vertex_contributions(case2, obs2, pv)
        key, why = "gauge/constraint", "no recorded mechanism explains it"
        if guarded and len(cs1) >= 2:
            # recorded mechanism: an update that would cancel the accumulated constraint is skipped, so the outcome depends on
            # the order in which the contributions arrive: several outcomes exist and each run shows one of them
            o1, o2 = guarded_outcomes(cs1), guarded_outcomes(cs2)
            if len(o1) > 1 and any(abs(z1[v] - o) < 1e-7 for o in o1) and any(abs(z2[pv] - o) < 1e-7 for o in o2):
                key, why = "gauge/conflicting-vertex-constraints", "its feature edges ask for cancelling representation vectors, the skipped update depends on their order"
        if key == "gauge/constraint" and guarded and cs1 and not vertex_is_flat(case, v):
            # recorded mechanism: non-flat vertex, constraint = normalised sum of EXTRINSIC projections in both runs, and the
            # extrinsic direction of a feature edge is off the connection's own (intrinsic) angle of that edge
            e1, e2 = normed(sum(cs1)), normed(sum(cs2))
            i1, i2 = intrinsic_terms(obs, t1, v), intrinsic_terms(obs2, t2, pv)
            off = max([abs(a - b) for a, b in zip(cs1, i1)] + [abs(a - b) for a, b in zip(cs2, i2)] + [0.0])
            noconf = len(guarded_outcomes(cs1)) == 1
            if noconf and abs(z1[v] - e1) < 1e-7 and abs(z2[pv] - e2) < 1e-7 and off > TOLM:
                key, why = "gauge/vertex-constraint-projection", ("non-flat vertex: the extrinsic projection of a feature edge is off "
                                                                  "the connection's own angle of that edge by %.3g" % off)
        out.append((key, "after renumbering the constraint of vertex %d differs by %.3g (order %d, %d feature edges): %s"
                    % (v, d0, order, len(cs1), why)))
    if not cworst:
        for v, d in sorted(fworst.items()):
            if v in tiny1 or vperm[v] in tiny2:
                out.append(("unit/zero-solution-noise", "the solved value at vertex %d is numerically zero (just above the 1e-10 "
                            "threshold): its normalised direction is round-off noise and differs between numberings" % v))
            else:
                out.append(("gauge/numbering", "after renumbering the frame of vertex %d differs by %.3g although all constraints "
                                               "agree (order %d)" % (v, d, order)))
    return out
