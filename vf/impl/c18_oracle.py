"""C18 independent oracle (numpy only, no mouette import): the clauses of the property restated on the implementation's
observed outputs.  Each function returns a list of (class_key, message) failures."""
import cmath
import math

import numpy as np

TOL = 1e-7


def euler_char(case, obs):
    return len(case["V"]) - len(obs["edges"]) + len(case["F"])


def dense(entries, n):
    L = np.zeros((n, n), dtype=complex)
    for i, j, re, im in entries:
        L[i, j] += complex(re, im)
    return L


def face_feature_edges(case, obs):
    """for every face the list of its directed edges (a,b) that are feature edges"""
    eid = {}
    for k, (a, b) in enumerate(obs["edges"]):
        eid[(a, b)] = k
        eid[(b, a)] = k
    fe = set(obs["feat"])
    out = []
    for f in case["F"]:
        out.append([(f[k], f[(k + 1) % 3]) for k in range(3) if eid.get((f[k], f[(k + 1) % 3])) in fe])
    return out


def branches(z, order):
    t = cmath.phase(z)
    return [(t + 2 * math.pi * k) / order for k in range(order)]


def dirs3d(z, order, X, Y):
    X, Y = np.array(X), np.array(Y)
    return [math.cos(a) * X + math.sin(a) * Y for a in branches(z, order)]


def check(case, obs):
    fails = []
    elem, order = case["elem"], case["order"]
    V = np.array(case["V"], dtype=float)
    F = case["F"]
    final = np.array([complex(a, b) for a, b in obs["final"]])
    var0 = np.array([complex(a, b) for a, b in obs["var0"]])
    n = len(final)
    fixed, free = obs["fixed"], obs["free"]
    has_feat = len(obs["feat"]) > 0

    # ---- every value is a number
    if not np.all(np.isfinite(final)):
        i = int(np.argmin(np.isfinite(final)))
        if case["n_smooth"] > 0 and has_feat and np.all(np.isfinite(var0)) and "solve" in obs \
                and np.all(np.isfinite(np.array(obs["solve"]["x"], dtype=float))):
            return [("unit/nan-smoothing", "element %d is NaN after the smoothing solves (the first solve was finite): "
                                           "lapI - alpha*AI is singular for the estimated attach weight alpha" % i)]
        return [("unit/nonfinite", "element %d of the field is not a finite number" % i)]
    # ---- unit modulus on every element
    mod = np.abs(final)
    bad = [i for i in range(n) if abs(mod[i] - 1) > 1e-8]
    if bad:
        i = bad[0]
        if mod[i] < 1e-8:
            cs = vertex_contributions(case, obs, i) if (elem == "vertices" and has_feat and i in set(fixed)) else []
            guarded = case.get("smooth_normals", True) and order % 2 != 1
            if len(cs) >= 2 and abs(sum(cs)) < 1e-6 and guarded:
                fails.append(("unit/zero-constraint-guarded-branch",
                              "element %d (constrained) has modulus %.3g: in the even-order smooth_normals branch a contribution "
                              "that would cancel the accumulated constraint must be skipped, yet the constraint is 0" % (i, mod[i])))
            elif len(cs) >= 2 and abs(sum(cs)) < 1e-6:
                fails.append(("unit/zero-constraint", "element %d (constrained) has modulus %.3g: the constraints of its feature "
                                                      "edges cancel and are left at 0" % (i, mod[i])))
            else:
                fails.append(("unit/zero-solution", "element %d has modulus %.3g after normalisation (solved value below the "
                                                    "1e-10 threshold is left as it is)" % (i, mod[i])))
        else:
            fails.append(("unit/modulus", "element %d has modulus %.12g after normalisation" % (i, mod[i])))

    # ---- constrained elements stay at their constraint
    if has_feat:
        for i in fixed:
            z0 = var0[i]
            want = z0 / abs(z0) if abs(z0) > 1e-10 else z0
            if abs(final[i] - want) > 1e-9:
                fails.append(("constraint/moved", "constrained element %d moved from %r to %r" % (i, complex(want), complex(final[i]))))
                break

    # ---- vertex-based field: the constraint of a feature vertex is the normalised sum of the order-th powers of the
    #      directions of its feature edges (skipped where the edges conflict: the accumulation rule then depends on the
    #      iteration order - known finding gauge/conflicting-vertex-constraints)
    if elem == "vertices" and has_feat:
        for v in fixed:
            cs = vertex_contributions(case, obs, v)
            if not cs or (len(cs) >= 2 and max(abs(a - b) for a in cs for b in cs) > 1e-6):
                continue
            want = sum(cs)
            want = want / abs(want) if abs(want) > 1e-8 else want
            if abs(var0[v] - want) > 1e-7:
                fails.append(("constraint/vertex-value", "feature vertex %d is constrained to %r, the order-%d representation of its "
                                                         "feature edge direction(s) is %r" % (v, complex(var0[v]), order, complex(want))))
                break

    # ---- bases are orthonormal; faces: in the face plane, X along the first feature edge
    B = obs["bases"]
    for i, (X, Y) in enumerate(B):
        X, Y = np.array(X), np.array(Y)
        if abs(X @ X - 1) > 1e-9 or abs(Y @ Y - 1) > 1e-9 or abs(X @ Y) > 1e-9:
            fails.append(("basis/orthonormal", "basis of element %d is not orthonormal" % i))
            break
    if elem == "faces":
        ffe = face_feature_edges(case, obs)
        for t, f in enumerate(F):
            X, Y = np.array(B[t][0]), np.array(B[t][1])
            nrm = np.cross(V[f[1]] - V[f[0]], V[f[2]] - V[f[0]])
            nrm /= np.linalg.norm(nrm)
            if abs(X @ nrm) > 1e-9 or abs(Y @ nrm) > 1e-9 or np.cross(X, Y) @ nrm < 0.999:
                fails.append(("basis/plane", "basis of face %d is not a direct basis of its plane" % t))
                break
            if ffe[t]:
                a, b = ffe[t][0]
                e = V[b] - V[a]
                e /= np.linalg.norm(e)
                if np.linalg.norm(X - e) > 1e-9:
                    fails.append(("basis/feature-first", "X of face %d is not its first feature edge" % t))
                    break
        # ---- one branch tangent to the feature edge of every face that has exactly one
        for t, f in enumerate(F):
            if len(ffe[t]) == 0:
                continue
            X, Y = B[t]
            ds = dirs3d(final[t], order, X, Y) if abs(final[t]) > 0.5 else []
            es = []
            for a, b in ffe[t]:
                e = V[b] - V[a]
                es.append(e / np.linalg.norm(e))
            best = [min([np.linalg.norm(np.cross(d, e)) for d in ds] or [9.0]) for e in es]
            if len(ffe[t]) == 1:
                if best[0] > 1e-6:
                    fails.append(("constraint/one-edge-not-tangent",
                                  "face %d has exactly one feature edge %s and no branch of its frame is tangent to it "
                                  "(sin of the smallest angle %.3g)" % (t, ffe[t][0], best[0])))
                    break
            elif min(best) > 1e-6:
                fails.append(("constraint/two-edges-power-4",
                              "face %d has %d feature edges and no branch of its order-%d frame is tangent to any of them "
                              "(sines %s): its constraint is u**4, not u**order" % (t, len(ffe[t]), order, ["%.3g" % x for x in best])))

    # ---- the operator is Hermitian
    L = dense(obs["lap"], obs["lap_shape"][0])
    sc = max(1.0, float(np.abs(L).max()) if L.size else 1.0)
    if L.size and np.abs(L - L.conj().T).max() > 1e-10 * sc:
        i, j = np.unravel_index(np.argmax(np.abs(L - L.conj().T)), L.shape)
        fails.append(("hermitian", "connection Laplacian is not Hermitian: L[%d,%d]=%r, L[%d,%d]=%r" % (i, j, complex(L[i, j]), j, i, complex(L[j, i]))))
    if "flat_diff" in obs and obs["flat_diff"] > 1e-10 * sc:
        fails.append(("flat", "with the flat connection the operator differs from the scalar Laplacian by %.3g" % obs["flat_diff"]))

    # ---- harmonic extension: the first solve answers L_II z = -L_IB z_B; without smoothing the field is its normalisation
    if has_feat and "solve" in obs and len(free) > 0:
        x = np.array([complex(a, b) for a, b in obs["solve"]["x"]])
        if len(x) != len(free):
            fails.append(("harmonic/shape", "the first solve has %d unknowns for %d free elements" % (len(x), len(free))))
        else:
            z = var0.copy()
            z[free] = x
            r = (L @ z)[free]
            zs = max(1.0, float(np.abs(z).max()))
            if np.abs(r).max() > 1e-7 * sc * zs:
                fails.append(("harmonic/residual", "the solved field is not harmonic at free element %d: (L z) = %r"
                              % (free[int(np.argmax(np.abs(r)))], complex(r[int(np.argmax(np.abs(r)))]))))
            if case["n_smooth"] == 0:
                want = np.array([w / abs(w) if abs(w) > 1e-10 else w for w in z])
                d = np.abs(final - want)
                if d.max() > 1e-9:
                    fails.append(("harmonic/normalised", "with n_smooth=0 element %d is %r, the normalised harmonic extension is %r"
                                  % (int(np.argmax(d)), complex(final[int(np.argmax(d))]), complex(want[int(np.argmax(d))]))))
    if has_feat and len(free) > 0 and "solve" not in obs:
        fails.append(("harmonic/no-solve", "bordered/feature mesh with free elements but no linear solve was performed"))

    # ---- edge rotations (face-based field): the matching rule  e^{i k rot} = f2/|f2| conj(f1/|f1|) e^{i k (a1 - a2)},
    #      |rot| <= pi/k  (hypothesis H1 of C18_index_quantum_partial)
    if elem == "faces" and np.all(np.abs(np.abs(final) - 1) < 1e-6):
        he = {}
        for t, f in enumerate(F):
            for k in range(3):
                he[(f[k], f[(k + 1) % 3])] = t
        for ie, (a, b) in enumerate(obs["edges"]):
            t1, t2 = he.get((a, b)), he.get((b, a))
            if t1 is None or t2 is None:
                if abs(obs["rot"][ie]) > 1e-12:
                    fails.append(("rotation/border", "border edge %d carries a rotation %.3g" % (ie, obs["rot"][ie])))
                    break
                continue
            Ev = V[b] - V[a]
            w = []
            for t in (t1, t2):
                X, Y = np.array(B[t][0]), np.array(B[t][1])
                c = complex(Ev @ X, Ev @ Y)
                w.append(c / abs(c))
            lhs = cmath.exp(1j * order * obs["rot"][ie])
            rhs = final[t2] * final[t1].conjugate() * (w[0] * w[1].conjugate()) ** order
            if abs(lhs - rhs) > 1e-6 or abs(obs["rot"][ie]) > math.pi / order + 1e-9:
                fails.append(("rotation/matching", "edge %d: rotation %.6g does not match the closest of the %d branches "
                                                   "(|e^{ik rot} - expected| = %.3g)" % (ie, obs["rot"][ie], order, abs(lhs - rhs))))
                break

    # ---- singularity indices (face-based field): quantum at interior vertices, sum = 4 chi
    if elem == "faces":
        s = np.array(obs["singuls"])
        chi = euler_char(case, obs)
        unflagged = int(np.sum(s == 0))
        slack = unflagged * 1e-3 * 2 / math.pi + 1e-6
        if abs(s.sum() - 4 * chi) > slack:
            fails.append(("index/sum", "singularity indices sum to %.9g, Euler characteristic %d times 4 is %d" % (s.sum(), chi, 4 * chi)))
        if np.all(np.abs(np.abs(final) - 1) < 1e-6):
            q = 4.0 / order
            fixedset = set(fixed) if has_feat else set()
            for v in obs["interior_vertices"]:
                if s[v] != 0 and abs(s[v] / q - round(s[v] / q)) > 1e-6:
                    fails.append(("index/quantum", "interior vertex %d has index %.9g, not a multiple of 4/%d" % (v, s[v], order)))
                    break
    # ---- vertex-based field: the stored face indices are +1 / -1 / 0 by the sign of (sum of the edge rotations around the
    #      face + its curvature), recomputed here from the observed rotations - nothing else may be stored
    if elem == "vertices" and "curv" in obs:
        eid = {}
        for k, (a, b) in enumerate(obs["edges"]):
            eid[(a, b)] = (k, -1.0)     # the attribute holds -rot for the stored orientation
            eid[(b, a)] = (k, 1.0)
        for t, f in enumerate(F):
            ang = obs["curv"][t]
            for k in range(3):
                ie, sg = eid[(f[k], f[(k + 1) % 3])]
                ang += sg * obs["rot"][ie]
            if abs(abs(ang) - 1e-2) < 1e-6:
                continue
            want = 1 if ang > 1e-2 else (-1 if ang < -1e-2 else 0)
            if obs["singuls"][t] != want:
                fails.append(("index/vertex-stored", "face %d carries the index %s, the field that was asked for gives %d (angle %.6g)"
                              % (t, obs["singuls"][t], want, ang)))
                break
    return fails


def history_check(case, obs, fresh):
    """a field computed and flagged on a mesh object that carried earlier fields, against the same computation on a fresh mesh"""
    a = np.array([complex(x, y) for x, y in obs["final"]])
    b = np.array([complex(x, y) for x, y in fresh["final"]])
    if a.shape != b.shape or np.abs(a - b).max() > 1e-12:
        return None   # smoothing weights come from a randomly started eigsh: fields differ in the last digits, ties may flip
    s1, s2 = np.array(obs["singuls"], dtype=float), np.array(fresh["singuls"], dtype=float)
    if np.abs(s1 - s2).max() > 1e-9:
        k = int(np.argmax(np.abs(s1 - s2)))
        return ("index/history", "the same field (order %d) flagged on a mesh that carried an earlier field stores index %.6g at element %d, "
                                 "on a fresh mesh %.6g" % (case["order"], s1[k], k, s2[k]))
    return None


# ---------------------------------------------------------------------- metamorphic: renumbering / face rotation
def _rel_faces(z, order, basis):
    return dirs3d(z, order, *basis)


def _dir_diff(d1, d2):
    return max(min(np.linalg.norm(a - b) for b in d2) for a in d1)


def vertex_contributions(case, obs, v):
    """the representation vectors the feature edges at vertex v ask for (as _initialize_variables computes them)"""
    order = case["order"]
    V = np.array(case["V"], dtype=float)
    t = {(a, b): complex(c, s) for a, b, c, s in obs["transport"]}
    smooth = case.get("smooth_normals", True) and order % 2 != 1
    out = []
    for e in obs["feat"]:
        A, B = obs["edges"][e]
        if v not in (A, B):
            continue
        if smooth:
            X, Y = np.array(obs["bases"][v][0]), np.array(obs["bases"][v][1])
            ed = V[B] - V[A]
            c = complex(X @ ed, Y @ ed)
            out.append((c / abs(c)) ** order)
        else:
            w = B if v == A else A
            out.append(t[(v, w)] ** order)
    return out


def _tiny_solved(obs, rel=1e-6):
    """elements whose first-solve value is numerically zero (relative to the largest solved value)"""
    out = set()
    if "solve" in obs and obs["solve"]["x"]:
        x = np.abs(np.array([complex(a, b) for a, b in obs["solve"]["x"]]))
        mx = max(1e-300, float(x.max()))
        for k, i in enumerate(obs["free"]):
            if x[k] < rel * max(1.0, mx):
                out.add(i)
    return out


def compare_runs(case, obs, case2, obs2, vperm, fperm):
    """The two runs (same surface, renumbered vertices / rotated faces / shuffled face list), measured against the mesh's
    own geometry.  Returns None or (class_key, message)."""
    order = case["order"]
    elem = case["elem"]
    f1 = [complex(a, b) for a, b in obs["final"]]
    f2 = [complex(a, b) for a, b in obs2["final"]]
    z1 = [complex(a, b) for a, b in obs["var0"]]
    z2 = [complex(a, b) for a, b in obs2["var0"]]
    TOLM = 1e-6
    if elem == "faces":
        ffe = face_feature_edges(case, obs)
        worst0, at0, worst, at = 0.0, None, 0.0, None
        for i in range(len(f1)):
            j = fperm[i]
            if abs(abs(z1[i]) - 1) < 1e-6 and abs(abs(z2[j]) - 1) < 1e-6:
                d = _dir_diff(dirs3d(z1[i], order, *obs["bases"][i]), dirs3d(z2[j], order, *obs2["bases"][j]))
                if d > worst0:
                    worst0, at0 = d, i
            elif abs(abs(z1[i]) - abs(z2[j])) > 1e-6:
                worst0, at0 = 9.0, i
            if abs(abs(f1[i]) - 1) < 1e-6 and abs(abs(f2[j]) - 1) < 1e-6:
                d = _dir_diff(dirs3d(f1[i], order, *obs["bases"][i]), dirs3d(f2[j], order, *obs2["bases"][j]))
                if d > worst:
                    worst, at = d, i
        if worst0 > TOLM:
            key = "gauge/two-feature-edge-face" if len(ffe[at0]) >= 2 else "gauge/constraint"
            return key, ("after renumbering the vertices / rotating the faces the constraint of face %d (%d feature edges) points in "
                         "different directions (difference %.3g, order %d)" % (at0, len(ffe[at0]), worst0, order))
        if worst > TOLM:
            if at in _tiny_solved(obs) or fperm[at] in _tiny_solved(obs2):
                return "unit/zero-solution", ("the solved value at face %d is numerically zero (just above the 1e-10 threshold): its "
                                              "normalised direction is round-off noise and differs between numberings" % at)
            return "gauge/numbering", ("after renumbering the vertices / rotating the faces the frame of face %d differs by %.3g "
                                       "although all constraints agree (order %d)" % (at, worst, order))
        return None
    # vertices: the frame at v measured against each of its own edges (v, w): var[v] * e^{-i order transport(v, w)}
    t1 = {(a, b): complex(c, s) for a, b, c, s in obs["transport"]}
    t2 = {(a, b): complex(c, s) for a, b, c, s in obs2["transport"]}
    worst0, at0, worst, at = 0.0, None, 0.0, None
    for (v, w), tw in t1.items():
        pv, pw = vperm[v], vperm[w]
        if (pv, pw) not in t2:
            return "gauge/numbering", "edge (%d,%d) has no transport after renumbering" % (v, w)
        g = (tw.conjugate() ** order, t2[(pv, pw)].conjugate() ** order)
        d0 = abs(z1[v] * g[0] - z2[pv] * g[1])
        if d0 > worst0:
            worst0, at0 = d0, v
        if abs(abs(f1[v]) - 1) < 1e-6 and abs(abs(f2[pv]) - 1) < 1e-6:
            d = abs(f1[v] * g[0] - f2[pv] * g[1])
            if d > worst:
                worst, at = d, v
    if worst0 > TOLM:
        cs = vertex_contributions(case, obs, at0)
        conflict = len(cs) >= 2 and max(abs(a - b) for a in cs for b in cs) > 1e-6
        if conflict:
            return "gauge/conflicting-vertex-constraints", (
                "after renumbering the constraint of vertex %d differs by %.3g (its %d feature edges ask for conflicting "
                "representation vectors, order %d)" % (at0, worst0, len(cs), order))
        # the constraint the connection's own (intrinsic, rescaled) edge angles ask for
        def intrinsic(o, tt, v):
            acc = 0
            for e in o["feat"]:
                A, B = o["edges"][e]
                if v in (A, B):
                    acc += tt[(v, B if v == A else A)] ** order
            return acc / abs(acc) if abs(acc) > 1e-8 else acc
        mis = max(abs(z1[at0] - intrinsic(obs, t1, at0)), abs(z2[vperm[at0]] - intrinsic(obs2, t2, vperm[at0])))
        if order % 2 == 0 and case.get("smooth_normals", True) and mis > TOLM:
            return "gauge/vertex-constraint-projection", (
                "after renumbering the constraint of vertex %d differs by %.3g: it is built from the extrinsic projection of the "
                "feature edge on the vertex basis, which is off the connection's own angle of that edge by %.3g (order %d)"
                % (at0, worst0, mis, order))
        return "gauge/constraint", ("after renumbering the constraint of vertex %d differs by %.3g (its %d feature edges ask for "
                                    "equal representation vectors, order %d)" % (at0, worst0, len(cs), order))
    if worst > TOLM:
        if at in _tiny_solved(obs) or vperm[at] in _tiny_solved(obs2):
            return "unit/zero-solution", ("the solved value at vertex %d is numerically zero (just above the 1e-10 threshold): its "
                                          "normalised direction is round-off noise and differs between numberings" % at)
        return "gauge/numbering", ("after renumbering the frame of vertex %d differs by %.3g although all constraints agree (order %d)"
                                   % (at, worst, order))
    return None
