"""C16 - independent brute-force restatement of the property on one concrete (case, observation) pair.

oracle(case, obs) -> list of (class_key, message); empty list = the property holds on this input.
No mouette import, no use of the Coq model.
"""
from .c16_meshgen import directed_edges, n_components, border_loops, euler, stats


def _components_of_graph(verts, pairs):
    par = {v: v for v in verts}

    def find(x):
        while par[x] != x:
            par[x] = par[par[x]]
            x = par[x]
        return x
    for a, b in pairs:
        par[find(a)] = find(b)
    return len({find(v) for v in verts})


def oracle(case, obs):
    out = []
    if not obs.get("ok"):
        return [("crash", "SingularityCutter raised %s" % obs.get("error"))]
    faces = case["faces"]
    nv = case["nv"]
    coords = case["coords"]
    singus = list(case["singus"])
    st = stats(nv, faces)
    edges = [tuple(e) for e in obs["edges"]]
    interior = set(obs["interior"])
    boundary = set(obs["boundary"])
    cut = set(obs["cut"])
    of = obs["out_faces"]
    ov = obs["out_verts"]
    ref = {u: v for u, v in obs["ref_vertex"]}
    nout = len(ov)

    # ---- faces in bijection, in order, corners at the input positions; ref_vertex onto and consistent
    if len(of) != len(faces):
        return [("faces-count", "output has %d faces, input %d" % (len(of), len(faces)))]
    for f, (F, G) in enumerate(zip(faces, of)):
        if len(G) != 3:
            return [("faces-arity", "output face %d is %s" % (f, G))]
        for i in range(3):
            u = G[i]
            if not (0 <= u < nout):
                return [("faces-range", "output face %d corner %d = %d out of range (%d vertices)" % (f, i, u, nout))]
            if list(ov[u]) != list(coords[F[i]]):
                out.append(("corner-position", "face %d corner %d sits at %s, input corner at %s" % (f, i, ov[u], coords[F[i]])))
            if ref.get(u) != F[i]:
                out.append(("ref-vertex-consistent", "face %d corner %d: ref_vertex[%d] = %s but the input corner is vertex %d"
                            % (f, i, u, ref.get(u), F[i])))
    if out:
        return out[:3]
    if sorted(ref) != list(range(nout)):
        out.append(("ref-vertex-domain", "ref_vertex is defined on %s, output has %d vertices" % (sorted(ref)[:12], nout)))
    if {u for G in of for u in G} != set(range(nout)):
        out.append(("unused-output-vertex", "output vertices not all used by faces"))
    if set(ref.values()) != set(range(nv)):
        out.append(("ref-vertex-onto", "ref_vertex misses input vertices %s" % sorted(set(range(nv)) - set(ref.values()))[:10]))

    # ---- which corners were identified: exactly those linked by a chain of uncut edges around their vertex
    de = directed_edges(faces)
    eid = {tuple(sorted(e)): i for i, e in enumerate(edges)}
    corners_at = {}
    for f, F in enumerate(faces):
        for i, v in enumerate(F):
            corners_at.setdefault(v, []).append((f, i))
    links = {v: [] for v in corners_at}
    opened = set()
    for e in interior:
        a, b = edges[e]
        if (a, b) not in de or (b, a) not in de:
            out.append(("tables", "interior edge %d=%s does not have two faces" % (e, (a, b))))
            continue
        f1, i1 = de[(a, b)][0]
        f2, i2 = de[(b, a)][0]
        # corners of a: (f1,i1) and (f2,i2+1); corners of b: (f1,i1+1), (f2,i2)
        ca1, ca2 = (f1, i1), (f2, (i2 + 1) % 3)
        cb1, cb2 = (f1, (i1 + 1) % 3), (f2, i2)
        if e not in cut:
            links[a].append((ca1, ca2))
            links[b].append((cb1, cb2))
        if of[ca1[0]][ca1[1]] != of[ca2[0]][ca2[1]] or of[cb1[0]][cb1[1]] != of[cb2[0]][cb2[1]]:
            opened.add(e)
    bad_open = sorted(opened - cut)
    if bad_open:
        out.append(("opened-uncut-edge", "edges %s were opened but are not reported in cut_edges" % bad_open[:6]))
    for v, cs in corners_at.items():
        par = {c: c for c in cs}

        def find(x):
            while par[x] != x:
                x = par[x]
            return x
        for c1, c2 in links[v]:
            par[find(c1)] = find(c2)
        for c1 in cs:
            for c2 in cs:
                same_out = of[c1[0]][c1[1]] == of[c2[0]][c2[1]]
                if same_out != (find(c1) == find(c2)):
                    out.append(("identification", "corners %s and %s of vertex %d: identified=%s but chain of uncut edges=%s"
                                % (c1, c2, v, same_out, find(c1) == find(c2))))
                    break
            else:
                continue
            break
    # distinct input vertices never share an output vertex (follows from ref consistency) - nothing more to do

    # ---- cut_adj agrees with cut_edges
    adj = {}
    for e in cut:
        a, b = edges[e]
        adj.setdefault(a, set()).add(b)
        adj.setdefault(b, set()).add(a)
    if sorted([v, sorted(ns)] for v, ns in adj.items()) != obs["cut_adj"]:
        out.append(("cut-adj", "cut_adj is not the adjacency of cut_edges"))

    # ---- cutter.cut_graph (the reported cut edges as a polyline; 'selection' marks the singular vertices)
    cg = obs.get("cut_graph") or {}
    if "error" in cg:
        out.append(("cut-graph-accessor", "cutter.cut_graph raised %s" % cg["error"]))
    else:
        touched0 = {v for e in cut for v in edges[e]}
        if len({tuple(p) for p in coords}) == len(coords):
            pos = {tuple(p): v for v, p in enumerate(coords)}
            try:
                gv = [pos[tuple(p)] for p in cg["verts"]]
            except KeyError:
                gv = None
            want_e = sorted(tuple(sorted(edges[e])) for e in cut)
            if gv is None or len(set(gv)) != len(gv):
                out.append(("cut-graph-accessor", "cut_graph vertices are not distinct input vertices"))
            else:
                got_e = sorted(tuple(sorted((gv[a], gv[b]))) for a, b in cg["edges"])
                if got_e != want_e or set(gv) != touched0:
                    out.append(("cut-graph-accessor", "cut_graph is not the graph of cut_edges"))
                elif cg.get("selected") is not None and sorted(gv[i] for i in cg["selected"]) != sorted(set(singus) & touched0):
                    out.append(("cut-graph-accessor", "cut_graph 'selection' does not mark the singular vertices of the cut graph"))
        else:
            # coincident positions: vertices cannot be told apart by position, compare as multisets of positions
            P = lambda v: tuple(coords[v])
            Q = lambda i: tuple(cg["verts"][i])
            want_e = sorted(tuple(sorted((P(a), P(b)))) for a, b in (edges[e] for e in cut))
            got_e = sorted(tuple(sorted((Q(a), Q(b)))) for a, b in cg["edges"])
            if sorted(map(tuple, cg["verts"])) != sorted(P(v) for v in touched0) or got_e != want_e:
                out.append(("cut-graph-accessor", "cut_graph is not the graph of cut_edges (compared by positions)"))
            elif cg.get("selected") is not None and sorted(Q(i) for i in cg["selected"]) != sorted(P(v) for v in set(singus) & touched0):
                out.append(("cut-graph-accessor", "cut_graph 'selection' does not mark the singular vertices of the cut graph"))

    closed_sphere = st["loops"] == 0 and st["genus"] == 0
    nsing = len(set(singus))
    if closed_sphere and nsing < 2:
        # the exception of the property: left uncut
        if cut or nout != nv:
            out.append(("sphere-exception", "closed sphere with %d singularities was cut: %d cut edges, %d -> %d vertices"
                        % (nsing, len(cut), nv, nout)))
        return out[:4]

    # ---- the cut graph is connected and contains the original border
    if not boundary <= cut:
        out.append(("cut-misses-border", "border edges %s are not in cut_edges" % sorted(boundary - cut)[:6]))
    touched = {v for e in cut for v in edges[e]}
    if cut and _components_of_graph(touched, [edges[e] for e in cut]) != 1:
        out.append(("cut-graph-disconnected", "cut edges form %d components"
                    % _components_of_graph(touched, [edges[e] for e in cut])))

    # ---- disk
    nc = n_components(of)
    if nc != 1:
        out.append(("not-connected", "the cut mesh has %d components" % nc))
    loops = border_loops(of)
    chi = euler(of)
    if loops is None or len(loops) != 1 or chi != 1:
        out.append(("not-a-disk", "the cut mesh has %s border loop(s) and Euler characteristic %d"
                    % ("a non-manifold border /" if loops is None else len(loops), chi)))
    # ---- every singular vertex has a copy on the border of the cut mesh
    bset = {u for L in (loops or []) for u in L}
    on_border = {ref[u] for u in bset if u in ref}
    miss = sorted(set(singus) - on_border)
    if miss:
        out.append(("singularity-not-on-border", "singular vertices %s have no copy on the border of the cut mesh" % miss[:8]))
    return out[:5]
