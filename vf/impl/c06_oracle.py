"""Independent oracle for C06: value semantics restated on the concrete observations.

For every step: snapshot of ALL live objects before the op (= the previous observation), compare after.
 * every object other than the op's target is unchanged (bit-for-bit);
 * a new object has the values the property says (copy = source; merge = concatenation with shifted indices and the
   largest dimensionality; from_arrays = the array) and, for copy / merge / from_arrays / ring, its vertex slots use
   buffers that nobody else uses and that are pairwise distinct;
 * a transform maps every vertex of the target exactly once by the requested map (computed here in exact rational
   arithmetic from the coordinates observed before the call, compared with tolerance 1e-9*(1+|x|));
 * inverse pairs restore the coordinates; normalisation leaves the bounding box where documented.
Returns a list of failures  (step, class_key, text)."""
from fractions import Fraction as Fr

TOL = Fr(1, 10 ** 9)


def close(a, b):
    return abs(Fr(a) - Fr(b)) <= TOL * (1 + abs(Fr(b)))


def vclose(p, q):
    return all(close(a, b) for a, b in zip(p, q))


def F3(p):
    return [Fr(c) for c in p]


def bbox(pts):
    lo = [min(p[k] for p in pts) for k in range(3)]
    hi = [max(p[k] for p in pts) for k in range(3)]
    return lo, hi


def resolve(prev, p):
    """a transform parameter by value, as it was when the call was made"""
    if p is None:
        return None
    if isinstance(p, list) and p and p[0] == "slot":
        return F3(prev[p[1]]["xyz"][p[2]])
    return F3(p)


def expected_map(op, pre, prev):
    """the requested map of a transform op as a function on exact points (or None when undefined)"""
    name = op[0]
    if name == "translate":
        t = resolve(prev, op[2])
        return lambda p: [a + b for a, b in zip(p, t)]
    if name == "rotate_euler":
        R = euler_matrix(op[2])
        if sum(1 for q in op[2] if q % 4) > 1:
            # several non-zero Euler angles: the convention (axis order, fixed or moving axes) is not stated anywhere the
            # property reaches - any composition of the three quarter-turn rotations is accepted, see euler_any()
            R = None
        o = resolve(prev, op[3]) or [Fr(0)] * 3
        if R is None:
            return ("any", o)
        return lambda p: [o[i] + sum(R[i][j] * (p[j] - o[j]) for j in range(3)) for i in range(3)]
    if name == "rotate":
        R = [[Fr(x) for x in r] for r in op[2]]
        o = resolve(prev, op[3]) or [Fr(0)] * 3
        return lambda p: [o[i] + sum(R[i][j] * (p[j] - o[j]) for j in range(3)) for i in range(3)]
    if name == "scale":
        s = Fr(op[2])
        o = resolve(prev, op[3]) or [Fr(0)] * 3
        return lambda p: [o[i] + s * (p[i] - o[i]) for i in range(3)]
    if name == "scale_xyz":
        f = [Fr(op[2]), Fr(op[3]), Fr(op[4])]
        o = resolve(prev, op[5]) or [Fr(0)] * 3      # documented default: the origin
        return lambda p: [o[i] + f[i] * (p[i] - o[i]) for i in range(3)]
    if name in ("normalize", "fit"):
        centre = bool(op[2]) if name == "normalize" else False
        if not pre:
            return None
        lo, hi = bbox(pre)
        span = max(h - l for l, h in zip(lo, hi))
        if span == 0:
            return None
        if centre:
            c = [(l + h) / 2 for l, h in zip(lo, hi)]
            return lambda p: [2 * (p[i] - c[i]) / span for i in range(3)]
        return lambda p: [(p[i] - lo[i]) / span for i in range(3)]
    if name == "to_origin":
        n = len(pre)
        if n == 0:
            return None
        c = [sum(p[i] for p in pre) / n for i in range(3)]
        return lambda p: [p[i] - c[i] for i in range(3)]
    if name == "flatten":
        d = op[2]
        return lambda p: [Fr(0) if i == d else p[i] for i in range(3)]
    raise ValueError(name)


def cube_rotations():
    import itertools
    out = []
    for perm in itertools.permutations(range(3)):
        for sg in itertools.product((1, -1), repeat=3):
            R = [[sg[i] if perm[i] == j else 0 for j in range(3)] for i in range(3)]
            det = (R[0][0] * (R[1][1] * R[2][2] - R[1][2] * R[2][1]) - R[0][1] * (R[1][0] * R[2][2] - R[1][2] * R[2][0])
                   + R[0][2] * (R[1][0] * R[2][1] - R[1][1] * R[2][0]))
            if det == 1:
                out.append([[Fr(x) for x in r] for r in R])
    return out


def euler_any(pre, post, o):
    """the rotation of the cube group (compositions of quarter turns) that maps every vertex as observed, or None"""
    for R in cube_rotations():
        f = lambda p, R=R: [o[i] + sum(R[i][j] * (p[j] - o[j]) for j in range(3)) for i in range(3)]
        if all(vclose(q, f(p)) for p, q in zip(pre, post)):
            return R
    return None


def euler_matrix(q):
    """rotation by q[0], q[1], q[2] quarter turns about the FIXED axes x, then y, then z (scipy's lower-case "xyz")"""
    def quarter(axis, k):
        c, s_ = [(1, 0), (0, 1), (-1, 0), (0, -1)][k % 4]
        if axis == 0:
            return [[1, 0, 0], [0, c, -s_], [0, s_, c]]
        if axis == 1:
            return [[c, 0, s_], [0, 1, 0], [-s_, 0, c]]
        return [[c, -s_, 0], [s_, c, 0], [0, 0, 1]]

    def mul(A, B):
        return [[sum(A[i][k] * B[k][j] for k in range(3)) for j in range(3)] for i in range(3)]
    R = mul(quarter(2, q[2]), mul(quarter(1, q[1]), quarter(0, q[0])))
    return [[Fr(x) for x in r] for r in R]


TRANSFORMS = ("translate", "rotate", "rotate_euler", "scale", "scale_xyz", "normalize", "fit", "to_origin", "flatten")
DERIVED = ("subdiv", "border", "tree", "path", "cutgraph", "features")
EXTERNAL = ("proc", "load", "subdiv", "border", "arr", "tree", "path", "cutgraph", "features")
ANCHORED_OPS = ("copy", "merge", "from_arrays", "ring", "translate", "rotate", "rotate_euler", "scale", "scale_xyz", "normalize",
                "fit", "to_origin", "flatten", "edit", "set", "bad")
STATE_OPS = ("attr", "attr_edit", "elem_edit", "grow")


def check_case(case, steps):
    ops = case["ops"]
    fails = []
    notes = []
    prev = []            # previous observation (list of {"xyz","cls"})
    before = {}          # step index -> coordinates of the target before that step (for inverse pairs)
    graph_seen = set()
    for k, (op, st) in enumerate(zip(ops, steps)):
        name = op[0]
        if not st["ok"]:
            et, em = st["err"]
            if st.get("refused_form"):
                notes.append("%s refused (argument form the property does not name)" % name)
            elif name in EXTERNAL:
                notes.append("%s raised %s (producer outside C06's anchors; history cut)" % (name, et))
            elif name in ("normalize", "fit", "to_origin") and prev and _span0(prev[op[1]]["xyz"]) \
                    and (name != "to_origin" or not prev[op[1]]["xyz"]):
                notes.append("%s of a zero-extent / empty mesh raised %s" % (name, et))
            else:
                fails.append((k, name + "/raises", "step %d %s raised %s: %s" % (k, op[:2], et, em)))
            break
        cur = st["objs"]
        nprev = len(prev)
        isnew = len(cur) == nprev + 1
        target = None
        if name in TRANSFORMS or name in ("edit", "set"):
            target = op[1]
        if name in STATE_OPS:
            target = op[1]
        # ---- 1. everybody but the target is unchanged: coordinates, attributes, element lists
        for i in range(nprev):
            if i == target:
                continue
            if cur[i]["xyz"] != prev[i]["xyz"]:
                moved = [j for j, (a, b) in enumerate(zip(prev[i]["xyz"], cur[i]["xyz"])) if a != b]
                if moved:
                    txt = "slots %s: %s -> %s" % (moved[:4], prev[i]["xyz"][moved[0]], cur[i]["xyz"][moved[0]])
                else:
                    txt = "%d vertices -> %d vertices" % (len(prev[i]["xyz"]), len(cur[i]["xyz"]))
                fails.append((k, name + "/changes-other-object",
                              "step %d %s on object %s changed object %d (%s)" % (k, name, target, i, txt)))
            if cur[i]["attrs"] != prev[i]["attrs"]:
                fails.append((k, name + "/changes-other-attributes",
                              "step %d %s on object %s changed the attributes of object %d: %s -> %s"
                              % (k, name, target, i, _short(prev[i]["attrs"]), _short(cur[i]["attrs"]))))
            if cur[i]["elems"] != prev[i]["elems"]:
                fails.append((k, name + "/changes-other-elements",
                              "step %d %s on object %s changed the element lists of object %d" % (k, name, target, i)))
        # a call that fails (or a merge of nothing) leaves everything as it was and creates nothing
        if name == "bad":
            if len(cur) != nprev:
                fails.append((k, name + "/creates-an-object", "step %d %s %s created an object" % (k, name, op[1])))
        # attribute NAMES: copy / merge / from_arrays / ring / transforms / edits leave no attribute behind on existing objects
        if name in ANCHORED_OPS:
            for i in range(nprev):
                if cur[i].get("attr_names") != prev[i].get("attr_names"):
                    notes.append("%s left a new attribute name on an existing object (free: %s)" % (name, _short(cur[i].get("attr_names"))))
        # object graph: a mesh never refers back to another live mesh, two meshes never reach one mutable sub-object
        for i, j, what in st.get("backrefs") or []:
            if (i, j, what) not in graph_seen:          # reported once, at the step that creates the reference
                graph_seen.add((i, j, what))
                fails.append((k, name + "/references-another-mesh",
                              "step %d %s: object %d refers to live object %d through %s" % (k, name, i, j, what)))
        for i, j, what in st.get("shared") or []:
            if (i, j, what) not in graph_seen:
                graph_seen.add((i, j, what))
                fails.append((k, name + "/shares-mutable-subobject",
                              "step %d %s: objects %d and %d both hold %s" % (k, name, i, j, what)))
        # connectivity answers come from the object's OWN containers
        if name == "conn" and st.get("conn") is not None:
            msg = check_conn(cur[op[1]], st["conn"])
            if msg:
                fails.append((k, "conn/answers-not-from-own-containers",
                              "step %d connectivity of object %d (%s): %s" % (k, op[1], "after clear()" if op[2] else "as cached", msg)))
        # attribute stores are never shared between live objects
        seen = {}
        for i, o in enumerate(cur):
            for ci, a, ida, idd in o["attr_ids"]:
                for key in (("a", ida), ("d", idd)):
                    if key in seen and seen[key] != i:
                        fails.append((k, name + "/shares-attribute-store",
                                      "step %d %s: objects %d and %d share the storage of attribute a%d" % (k, name, seen[key], i, a)))
                    seen[key] = i
        # ---- 2. the new object
        if isnew:
            new = cur[-1]
            info = st["new"]
            me = nprev
            others = set()
            for i in range(nprev):
                others.update(cur[i]["cls"])
            dup = len(set(new["cls"])) != len(new["cls"])
            shared = [j for j, c in enumerate(new["cls"]) if c in others]
            if name == "copy":
                src = prev[op[1]]
                if new["xyz"] != src["xyz"]:
                    fails.append((k, "copy/not-equal", "step %d copy differs from its source" % k))
                if shared or dup:
                    fails.append((k, "copy/shares-buffers", "step %d copy shares vertex buffers (slots %s, dup=%s)" % (k, shared[:4], dup)))
                if info["shares_connectivity"]:
                    fails.append((k, "copy/shares-connectivity",
                                  "step %d copy(copy_connectivity=True) hands the SAME connectivity object (mutable caches, "
                                  "back-reference to the source mesh) to the copy" % k))
                want = prev[op[1]]["attrs"] if op[2] else []
                # copy_attributes=False: the text only asks for a copy equal to its source - none or the source's are both fine
                if new["attrs"] != want and not (not op[2] and new["attrs"] == prev[op[1]]["attrs"]):
                    fails.append((k, "copy/attributes",
                                  "step %d copy(copy_attributes=%s): attributes of the copy %s, expected %s"
                                  % (k, bool(op[2]), _short(new["attrs"]), _short(want))))
                sinfo = info["src"][0]
                for key, what in CONTAINERS:
                    if info[key] != sinfo[key]:
                        fails.append((k, "copy/container-differs",
                                      "step %d copy(copy_attributes=%s): %s of the copy differs from the source: source %s copy %s"
                                      % (k, bool(op[2]), what, _short(sinfo[key]), _short(info[key]))))
                        break
            elif name == "merge":
                exp = []
                for m in op[1]:
                    exp += prev[m]["xyz"]
                if new["xyz"] != exp:
                    fails.append((k, "merge/vertices", "step %d merge: vertices are not the concatenation of the inputs" % k))
                if new["attrs"]:
                    notes.append("merge result carries attributes (left free by the property)")
                exp = merge_expected(info["src"])
                if not same_elements(info, exp):
                    fails.append((k, "merge/indices", "step %d merge: elements are not the inputs' shifted by the running vertex count" % k))
                else:
                    msg = corners_consistent(info)
                    if msg:
                        fails.append((k, "merge/corner-tables", "step %d merge: %s" % (k, msg)))
                if info["kind"] != exp["kind"]:
                    fails.append((k, "merge/class", "step %d merge: class %s, largest dimensionality %s" % (k, info["kind"], exp["kind"])))
                if shared or dup:
                    fails.append((k, "merge/shares-buffers",
                                  "step %d merge %s: result shares vertex buffers with its inputs (slots %s) / within itself (%s)"
                                  % (k, op[1], shared[:4], dup)))
            elif name == "from_arrays":
                src = prev[op[1]]
                if new["xyz"] != src["xyz"]:
                    fails.append((k, "from_arrays/values", "step %d from_arrays: vertices differ from the array" % k))
                if shared or dup:
                    fails.append((k, "from_arrays/shares-buffers",
                                  "step %d from_arrays: the mesh's vertices are views of the caller's array (slots %s)" % (k, shared[:4])))
            elif name == "ring":
                if shared or dup:
                    j = [a for a in range(len(new["cls"])) if new["cls"].count(new["cls"][a]) > 1]
                    fails.append((k, "ring/shares-buffers", "step %d ring(open=%s): one vector stored under several vertex ids %s" % (k, op[3], j)))
            elif name in DERIVED:
                if dup:
                    j = [a for a in range(len(new["cls"])) if new["cls"].count(new["cls"][a]) > 1]
                    fails.append((k, name + "/shares-buffers",
                                  "step %d %s %s: one vector stored under several vertex ids %s" % (k, name, op[2:3], j[:6])))
                if shared:
                    fails.append((k, name + "/aliases-source",
                                  "step %d %s of object %d: %d of the %d vertices of the result are vectors of another live "
                                  "object (a transform of the result moves it)" % (k, name, op[1], len(shared), len(new["cls"]))))
                if info.get("shares_attr"):
                    fails.append((k, name + "/aliases-source-attribute",
                                  "step %d %s %s of object %d: the vertices of the result are the vectors stored in the source's "
                                  "'barycenter' attribute" % (k, name, op[2], op[1])))
            elif name in ("proc", "load"):
                if info.get("shares_params"):
                    fails.append((k, "proc/aliases-caller-vectors",
                                  "step %d %s: the mesh's vertices are views of the caller's point arguments" % (k, op[1])))
                if shared or dup:
                    fails.append((k, name + "/shares-buffers", "step %d %s %s: vertex slots share buffers (%s, dup=%s)" % (k, name, op[1], shared[:4], dup)))
            # links are inherited by nobody else: copy/merge/from_arrays must be fresh
        # ---- 3a. attribute / element edits change exactly what they address
        if name in STATE_OPS:
            t0, t1 = prev[target], cur[target]
            if t1["xyz"] != t0["xyz"] and name != "grow":
                fails.append((k, name + "/moves-vertices", "step %d %s changed coordinates" % (k, name)))
            for t_ in (t0, t1):
                t_["attrs_keys"] = [x[:2] for x in t_["attrs"]]
            if name == "attr":
                want = [x for x in t0["attrs"] if not (x[0] == op[2] and x[1] == op[3])]
                n = len(t1["elems"][{1: 0, 2: 1, 4: 2}[op[2]]]) if op[2] in (1, 2, 4) else None
                got = [x for x in t1["attrs"] if x[0] == op[2] and x[1] == op[3]]
                rest = [x for x in t1["attrs"] if not (x[0] == op[2] and x[1] == op[3])]
                if rest != want or len(got) != 1 or got[0][2][:len(op[4])] != [int(v) for v in op[4]] \
                        or any(v != 0 for v in got[0][2][len(op[4]):]):
                    fails.append((k, "attr/values", "step %d attribute creation: %s -> %s" % (k, _short(t0["attrs"]), _short(t1["attrs"]))))
                if t1["elems"] != t0["elems"]:
                    fails.append((k, "attr/changes-elements", "step %d attribute creation changed element lists" % k))
            elif name == "attr_edit":
                want = [[x[0], x[1], [int(op[5]) if (x[0] == op[2] and x[1] == op[3] and j == op[4]) else v for j, v in enumerate(x[2])]]
                        for x in t0["attrs"]]
                if t1["attrs"] != want or t1["elems"] != t0["elems"]:
                    fails.append((k, "attr_edit/values", "step %d attribute edit: %s -> %s, expected %s"
                                  % (k, _short(t0["attrs"]), _short(t1["attrs"]), _short(want))))
            elif name == "grow":
                nv = len(t0["xyz"])
                E, Fc, C = [list(map(list, x)) for x in t0["elems"]]
                k0 = (_info_of(steps, ops, target) or {}).get("kind", 1)
                if k0 == 0:
                    pass
                elif Fc or k0 >= 2:
                    a, b = E[0]
                    Fc = Fc + [[a, b, nv]]
                    E = E + [sorted([a, nv]), sorted([b, nv])]
                else:
                    E = E + [[nv - 1, nv]]
                if t1["xyz"] != t0["xyz"] + [[float(c) for c in op[2]]] or t1["elems"] != [E, Fc, C] or t1["attrs_keys"] != t0["attrs_keys"]:
                    fails.append((k, "grow/values", "step %d growing object %d by a vertex and an element gave something else" % (k, target)))
            else:
                ci = {"edges": 0, "faces": 1, "cells": 2}[op[2]]
                want = [list(map(list, x)) for x in t0["elems"]]
                el = want[ci][op[3]]
                want[ci][op[3]] = sorted(el) if ci == 0 else el[1:] + el[:1]
                if t1["elems"] != want or t1["attrs"] != t0["attrs"]:
                    fails.append((k, "elem_edit/values", "step %d element edit changed something else" % k))
            prev = cur
            continue
        # ---- 3. the transformed / edited object
        if target is not None and (cur[target]["attrs"] != prev[target]["attrs"] or cur[target]["elems"] != prev[target]["elems"]):
            fails.append((k, name + "/changes-own-attributes-or-elements",
                          "step %d %s changed the attributes / element lists of its own target" % (k, name)))
        if target is not None:
            pre = [F3(p) for p in prev[target]["xyz"]]
            post = cur[target]["xyz"]
            before[k] = prev[target]["xyz"]
            if name in TRANSFORMS:
                f = expected_map(op, pre, prev)
                if isinstance(f, tuple):
                    R = euler_any(pre, post, f[1])
                    if R is None:
                        fails.append((k, "rotate_euler/not-a-rotation",
                                      "step %d rotate by Euler quarter turns %s: the vertices were not all mapped by one rotation "
                                      "composed of quarter turns about the origin given" % (k, op[2])))
                    prev = cur
                    continue
                if f is None:
                    notes.append("%s of a zero-extent mesh (division by zero; outside the property)" % name)
                    break
                bad = [j for j, p in enumerate(pre) if not vclose(post[j], f(p))]
                if bad:
                    j = bad[0]
                    twice = vclose(post[j], f(f(pre[j])))
                    key = name + ("/vertex-moved-twice" if twice else "/wrong-map")
                    if name == "translate" and isinstance(op[2], list) and op[2] and op[2][0] == "slot":
                        key = "translate/parameter-aliases-a-vertex"
                    fails.append((k, key, "step %d %s: vertex %d went %s -> %s, requested map gives %s%s"
                                  % (k, op[:1] + op[2:], j, prev[target]["xyz"][j], post[j], [float(c) for c in f(pre[j])],
                                     " (moved twice)" if twice else "")))
                if name in ("normalize", "fit"):
                    lo, hi = bbox([F3(p) for p in post])
                    span = max(h - l for l, h in zip(lo, hi))
                    centre = bool(op[2]) if name == "normalize" else False
                    if centre:
                        ok = close(span, 2) and all(close(l + h, 0) for l, h in zip(lo, hi))
                    else:
                        ok = close(span, 1) and all(close(l, 0) for l in lo)
                    if not ok:
                        fails.append((k, "normalize/box", "step %d %s: box after is %s .. %s" % (k, name, [float(c) for c in lo], [float(c) for c in hi])))
            elif name == "edit":
                for j, p in enumerate(pre):
                    want = list(prev[target]["xyz"][j])
                    if j == op[2]:
                        want[op[3]] = float(op[4])
                    if post[j] != want:
                        fails.append((k, "edit/other-slot", "step %d edit of slot %d changed slot %d of the same object" % (k, op[2], j)))
                        break
            elif name == "set":
                for j, p in enumerate(pre):
                    want = [float(c) for c in op[3]] if j == op[2] else prev[target]["xyz"][j]
                    if post[j] != want:
                        fails.append((k, "set/other-slot", "step %d set of slot %d changed slot %d" % (k, op[2], j)))
                        break
        prev = cur
    # ---- 4. inverse pairs restore
    for a, b in case.get("inv", []):
        if b < len(steps) and steps[b]["ok"] and a in before:
            tgt = ops[a][1]
            if not all(vclose(p, q) for p, q in zip(steps[b]["objs"][tgt]["xyz"], before[a])):
                fails.append((b, ops[a][0] + "/inverse-does-not-restore",
                              "steps %d,%d: %s then its inverse does not restore the coordinates" % (a, b, ops[a][0])))
    return fails, notes


CONTAINERS = [("edges", "edges"), ("faces", "faces"), ("cells", "cells"),
              ("fc", "face_corners (elements, owners)"), ("cc", "cell_corners (elements, owners)"),
              ("cf", "cell_faces (elements, owners)"), ("kind", "class")]


def _short(x):
    t = repr(x)
    return t if len(t) < 160 else t[:157] + "..."


def canon_face(f):
    """a face up to the rotation of its row"""
    k = f.index(min(f))
    return tuple(f[k:] + f[:k])


def same_elements(a, b):
    """the element lists as multisets: edges as unordered pairs, faces up to the rotation of their row, cells as given.
    The ORDER of the elements in the result is not fixed by the property."""
    return (sorted(tuple(sorted(e)) for e in a["edges"]) == sorted(tuple(sorted(e)) for e in b["edges"])
            and sorted(canon_face(list(f)) for f in a["faces"]) == sorted(canon_face(list(f)) for f in b["faces"])
            and sorted(tuple(c) for c in a["cells"]) == sorted(tuple(c) for c in b["cells"]))


def corners_consistent(info):
    """the corner containers of a mesh describe ITS OWN faces / cells (whatever the numbering of the corners)"""
    fe, fa = info["fc"]
    if len(fe) != len(fa):
        return "face_corners: %d elements, %d owners" % (len(fe), len(fa))
    if fe and sorted(zip(fa, fe)) != sorted((j, v) for j, f in enumerate(info["faces"]) for v in f):
        return "face_corners are not the (face, vertex) incidences of the result's own faces"
    ce, ca = info["cc"]
    if ce and ca and sorted(zip(ca, ce)) != sorted((j, v) for j, c in enumerate(info["cells"]) for v in c):
        return "cell_corners are not the (cell, vertex) incidences of the result's own cells"
    cfe, cfa = info["cf"]
    if cfe and cfa:
        for fid, cid in zip(cfe, cfa):
            if not (0 <= cid < len(info["cells"]) and 0 <= fid < len(info["faces"])
                    and set(info["faces"][fid]) <= set(info["cells"][cid])):
                return "cell_faces: face %s is not a face of cell %s" % (fid, cid)
    return None


def merge_expected(srcs):
    """disjoint union of the inputs: vertices, faces and cells renumbered by the running counts"""
    voff = foff = coff = 0
    out = {"edges": [], "faces": [], "cells": [], "fc": [[], []], "cc": [[], []], "cf": [[], []], "kind": 0}
    for si in srcs:
        k = si["kind"]
        E = si["edges"] if k >= 1 else []
        Fc = si["faces"] if k >= 2 else []
        C = si["cells"] if k >= 3 else []
        out["edges"] += [[voff + u for u in e] for e in E]
        out["faces"] += [[voff + u for u in f] for f in Fc]
        out["cells"] += [[voff + u for u in c] for c in C]
        if k >= 2:
            out["fc"][0] += [voff + u for u in si["fc"][0]]
            out["fc"][1] += [foff + u for u in si["fc"][1]]
        if k >= 3:
            out["cc"][0] += [voff + u for u in si["cc"][0]]
            out["cc"][1] += [coff + u for u in si["cc"][1]]
            out["cf"][0] += [foff + u for u in si["cf"][0]]
            out["cf"][1] += [coff + u for u in si["cf"][1]]
        out["kind"] = max(out["kind"], 3 if C else 2 if Fc else 1 if E else 0)
        voff += si["nv"]
        foff += len(Fc)
        coff += len(C)
    return out


def check_conn(obj, ans):
    """every connectivity answer against the object's own element lists (direct inspection)"""
    E, Fc, _ = obj["elems"]
    n = len(obj["xyz"])
    for kk, got in enumerate(ans["edge_id"]):
        if got is None or not (0 <= got < len(E)) or E[got] != E[kk]:
            return "edge_id%s = %s, the object's edges are %s" % (tuple(E[kk]), got, _short(E))
    for a, b, got in ans["non_edge"]:
        if got is not None:
            return "edge_id(%d,%d) = %s although the object has no such edge" % (a, b, got)
    for v in range(n):
        want = sorted({e[1] if e[0] == v else e[0] for e in E if v in e})
        got = ans["v2v"][v] if v < len(ans["v2v"]) else "missing"
        if (got or []) != want and not (got is None and not want):
            return "vertex_to_vertices(%d) = %s, own edges give %s" % (v, got, want)
    for kk, got in enumerate(ans["face_id"]):
        if got is None or not (0 <= got < len(Fc)) or sorted(Fc[got]) != sorted(Fc[kk]):
            return "face_id%s = %s, the object's faces are %s" % (tuple(Fc[kk]), got, _short(Fc))
    if ans["v2f"]:
        for v in range(n):
            want = sorted(j for j, f in enumerate(Fc) if v in f)
            got = ans["v2f"][v]
            if (got or []) != want and not (got is None and not want):
                return "vertex_to_faces(%d) = %s, own faces give %s" % (v, got, want)
    return None


def _span0(xyz):
    if not xyz:
        return True
    lo, hi = bbox([F3(p) for p in xyz])
    return max(h - l for l, h in zip(lo, hi)) == 0


def _info_of(steps, ops, obj):
    """combinatorial description recorded when object `obj` was created"""
    n = -1
    for op, st in zip(ops, steps):
        if st["ok"] and st["new"] is not None:
            n += 1
            if n == obj:
                return st["new"]
    return None
