"""Runs query scripts on FRESH SurfaceMesh objects built by /repo's mouette and reports canonical observations.

stdin : {"cases": [ {"nv": n, "faces": [[...],...], "route": r, "sort": bool, "script_seed": k | "script": [[name, args...], ...]}, ... ]}
        the mesh is built from (nv, faces) through construction route r (bare lists, tuples, numpy rows, from_arrays, save+load,
        RawMeshData(mesh) re-wrap with appended faces, subdivision editor, copy, merge); the script is drawn (from script_seed)
        for the FINISHED object, whose face list is reported back and is what the model / oracle are fed.
stdout: '@@JSON ' + {"cases": [ {"nv":.., "faces": [...], "route": used, "script": [...], "edges": [[a,b],...],
                                 "corner_elem": [...], "corner_adj": [...], "obs": [answer, ...]} , ...]}
answer: ["none"] | ["int", z] | ["bool", b] | ["list", [z|null, ...]] | ["err", ExceptionClassName] | ["other", repr]
Tuples and lists are both reported as "list" (the property does not distinguish them).
"""
import json
import sys


def canon(r):
    import numpy as np
    if r is None:
        return ["none"]
    if isinstance(r, (bool, np.bool_)):
        return ["bool", bool(r)]
    if isinstance(r, (int, np.integer)):
        return ["int", int(r)]
    if isinstance(r, (list, tuple, set, frozenset, range)):
        out = []
        for x in r:
            if x is None:
                out.append(None)
            elif isinstance(x, (int, np.integer)) and not isinstance(x, (bool, np.bool_)):
                out.append(int(x))
            else:
                return ["other", repr(r)[:200]]
        return ["list", out]
    return ["other", repr(r)[:200]]


def _pts(nv):
    import mouette as M
    return [M.Vec(float(i % 7), float(i // 7), float((i * i) % 5)) for i in range(nv)]


def _base(nv, faces, conv=list):
    import mouette as M
    d = M.mesh.RawMeshData()
    d.vertices += _pts(nv)
    d.faces += [conv(F) for F in faces]
    return M.mesh.SurfaceMesh(d)


ROUTES = ["list", "tuple", "numpy", "from_arrays", "obj", "medit", "geogram", "rewrap", "triangulate", "loop", "copy",
          "copy_conn", "merge"]
SAME_FACES = {"list", "tuple", "numpy", "from_arrays", "obj", "geogram", "rewrap", "copy", "copy_conn"}


def build_route(case):
    """Builds the finished SurfaceMesh of the case through its construction route.
    Returns (mesh, route actually used): a route that does not apply to the face list falls back to 'list'."""
    import os
    import tempfile
    import numpy as np
    import mouette as M
    nv, faces, route = case["nv"], case["faces"], case.get("route", "list")
    arities = {len(F) for F in faces}
    if route == "tuple":
        return _base(nv, faces, tuple), route
    if route == "numpy":
        return _base(nv, faces, lambda F: np.array(F)), route
    if route == "from_arrays" and len(arities) == 1:
        return M.mesh.from_arrays(np.array([list(p) for p in _pts(nv)]), F=np.array(faces)), route
    if route in ("obj", "medit", "geogram") and not (route == "medit" and max(arities) > 4):
        ext = {"obj": ".obj", "medit": ".mesh", "geogram": ".geogram_ascii"}[route]
        with tempfile.TemporaryDirectory() as td:
            fn = os.path.join(td, "m" + ext)
            M.mesh.save(_base(nv, faces), fn)
            return M.mesh.load(fn), route
    if route == "rewrap" and len(faces) >= 2:
        # build a first mesh from a prefix of the faces, use it, wrap it again (shared containers), append the rest, rebuild
        k = max(1, len(faces) // 3)
        m1 = _base(nv, faces[:-k])
        m1.connectivity.vertex_to_corners(0)
        m1.boundary_vertices
        d2 = M.mesh.RawMeshData(m1)
        d2.faces += [list(F) for F in faces[-k:]]
        return M.mesh.SurfaceMesh(d2), route
    if route in ("triangulate", "loop"):
        m0 = _base(nv, faces)
        m0.connectivity.vertex_to_faces(0)
        with M.mesh.SurfaceSubdivision(m0) as ed:
            if route == "triangulate":
                ed.triangulate()
            else:
                ed.loop_subdivision(1)
        return ed.mesh, route
    if route == "copy":
        return M.mesh.copy(_base(nv, faces)), route
    if route == "copy_conn":
        b = _base(nv, faces)
        b.connectivity.vertex_to_vertices(0)
        b.interior_edges
        return M.mesh.copy(b, copy_attributes=True, copy_connectivity=True), route
    if route == "merge":
        return M.mesh.merge([_base(nv, faces), _base(4, [[0, 1, 2], [0, 2, 3]])]), route
    return _base(nv, faces), "list"


def run_case(case):
    import random
    import mouette as M
    from vf.impl import c01_meshgen as G
    M.config.sort_neighborhoods = bool(case["sort"])
    m, used = build_route(case)
    if type(m).__name__ != "SurfaceMesh":
        return {"crash": "route %s produced a %s" % (used, type(m).__name__)}
    nv2 = len(m.vertices)
    faces2 = [[int(v) for v in F] for F in m.faces]
    note = None
    if used != "list" and G.validate(nv2, faces2) is not None:
        # e.g. a quad split along a diagonal that is already an edge of the surface: not this property's matter
        note = "route %s gave a non-manifold face list (%s): rebuilt from the bare list" % (used, G.validate(nv2, faces2))
        m, used = build_route(dict(case, route="list"))
        nv2 = len(m.vertices)
        faces2 = [[int(v) for v in F] for F in m.faces]
    script = case.get("script")
    if script is None:
        script = G.gen_script(random.Random(case.get("script_seed", 0)), {"nv": nv2, "faces": faces2})
    cn = m.connectivity
    obs = []
    for q in script:
        name, args = q[0], q[1:]
        try:
            if name == "direct_face_inds":
                r = cn.direct_face(args[0], args[1], True)
            elif name == "opposite_face_inds":
                r = cn.opposite_face(args[0], args[1], args[2], True)
            elif name in ("boundary_edges", "interior_edges", "boundary_vertices", "interior_vertices"):
                r = getattr(m, name)
                r = list(r)  # a copy: later queries must not change what was observed now
            elif name in ("is_edge_on_border", "is_vertex_on_border"):
                r = getattr(m, name)(*args)
            elif name == "clear_boundary_data":
                r = m.clear_boundary_data()
            else:
                r = getattr(cn, name)(*args)
                if isinstance(r, list):
                    r = list(r)
            obs.append(canon(r))
        except RecursionError:
            obs.append(["err", "RecursionError"])
        except Exception as ex:  # the class name is the observation
            obs.append(["err", type(ex).__name__])
    # the four rings of a few vertices, read together at the end: their mutual alignment is part of the property
    rings = []
    try:
        rr = random.Random(case.get("script_seed", 0) + 1)
        for V in rr.sample(range(nv2), min(4, nv2)):
            rings.append([V, canon(list(cn.vertex_to_corners(V))), canon(list(cn.vertex_to_vertices(V))),
                          canon(list(cn.vertex_to_faces(V))), canon(list(cn.vertex_to_edges(V)))])
    except Exception as ex:
        rings = [["err", type(ex).__name__]]
    res = {"rings": rings, "edges": [[int(a), int(b)] for a, b in m.edges],
           "corner_elem": [int(m.face_corners.element(i)) for i in range(len(m.face_corners))],
           "corner_adj": [int(m.face_corners.adj(i)) for i in range(len(m.face_corners))],
           "nv": nv2, "faces": faces2, "script": script, "route": used, "note": note,
           "obs": obs}
    return res


def main():
    payload = json.load(sys.stdin)
    out = []
    for case in payload["cases"]:
        try:
            out.append(run_case(case))
        except Exception as ex:
            out.append({"crash": "%s: %s" % (type(ex).__name__, ex)})
    print("@@JSON " + json.dumps({"cases": out}))


if __name__ == "__main__":
    main()
