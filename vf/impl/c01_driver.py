"""Runs query scripts on FRESH SurfaceMesh objects built by /repo's mouette and reports canonical observations.

stdin : {"cases": [ {"nv": n, "faces": [[...],...], "sort": bool, "script": [[name, args...], ...]}, ... ]}
stdout: '@@JSON ' + {"cases": [ {"edges": [[a,b],...], "corner_elem": [...], "corner_adj": [...],
                                 "obs": [answer, ...]} , ...]}
answer: ["none"] | ["int", z] | ["bool", b] | ["list", [z|null, ...]] | ["err", ExceptionClassName] | ["other", repr]
Tuples and lists are both reported as "list" (the property does not distinguish them).
"""
import json
import sys


def canon(r):
    import numpy as np
    if r is None:
        return ["none"]
    if isinstance(r, (bool, np.bool_)):
        return ["bool", bool(r)]
    if isinstance(r, (int, np.integer)):
        return ["int", int(r)]
    if isinstance(r, (list, tuple, set, frozenset, range)):
        out = []
        for x in r:
            if x is None:
                out.append(None)
            elif isinstance(x, (int, np.integer)) and not isinstance(x, (bool, np.bool_)):
                out.append(int(x))
            else:
                return ["other", repr(r)[:200]]
        return ["list", out]
    return ["other", repr(r)[:200]]


def build(case):
    import mouette as M
    d = M.mesh.RawMeshData()
    d.vertices += [M.Vec(float(i), 0., 0.) for i in range(case["nv"])]
    d.faces += [list(F) for F in case["faces"]]
    return M.mesh.SurfaceMesh(d)


def run_case(case):
    import mouette as M
    M.config.sort_neighborhoods = bool(case["sort"])
    m = build(case)
    cn = m.connectivity
    obs = []
    for q in case["script"]:
        name, args = q[0], q[1:]
        try:
            if name == "direct_face_inds":
                r = cn.direct_face(args[0], args[1], True)
            elif name == "opposite_face_inds":
                r = cn.opposite_face(args[0], args[1], args[2], True)
            elif name in ("boundary_edges", "interior_edges", "boundary_vertices", "interior_vertices"):
                r = getattr(m, name)
                r = list(r)  # a copy: later queries must not change what was observed now
            elif name in ("is_edge_on_border", "is_vertex_on_border"):
                r = getattr(m, name)(*args)
            elif name == "clear_boundary_data":
                r = m.clear_boundary_data()
            else:
                r = getattr(cn, name)(*args)
                if isinstance(r, list):
                    r = list(r)
            obs.append(canon(r))
        except RecursionError:
            obs.append(["err", "RecursionError"])
        except Exception as ex:  # the class name is the observation
            obs.append(["err", type(ex).__name__])
    res = {"edges": [[int(a), int(b)] for a, b in m.edges],
           "corner_elem": [int(m.face_corners.element(i)) for i in range(len(m.face_corners))],
           "corner_adj": [int(m.face_corners.adj(i)) for i in range(len(m.face_corners))],
           "faces": [[int(v) for v in F] for F in m.faces],
           "obs": obs}
    return res


def main():
    payload = json.load(sys.stdin)
    out = []
    for case in payload["cases"]:
        try:
            out.append(run_case(case))
        except Exception as ex:
            out.append({"crash": "%s: %s" % (type(ex).__name__, ex)})
    print("@@JSON " + json.dumps({"cases": out}))


if __name__ == "__main__":
    main()
