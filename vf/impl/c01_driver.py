"""Runs query scripts on FRESH SurfaceMesh objects built by /repo's mouette and reports canonical observations.

stdin : {"cases": [ {"nv": n, "faces": [[...],...], "route": r, "sort": bool, "script_seed": k | "script": [[name, args...], ...]}, ... ]}
        the mesh is built from (nv, faces) through construction route r (bare lists, tuples, numpy rows, from_arrays, save+load,
        RawMeshData(mesh) re-wrap with appended faces, subdivision editor, copy, merge); the script is drawn (from script_seed)
        for the FINISHED object, whose face list is reported back and is what the model / oracle are fed.
stdout: '@@JSON ' + {"cases": [ {"nv":.., "faces": [...], "route": used, "script": [...], "edges": [[a,b],...],
                                 "corner_elem": [...], "corner_adj": [...], "obs": [answer, ...]} , ...]}
answer: ["none"] | ["int", z] | ["bool", b] | ["list", [z|null, ...]] | ["err", ExceptionClassName] | ["other", repr]
Tuples and lists are both reported as "list" (the property does not distinguish them).
"""
import json
import sys


def canon(r):
    import numpy as np
    if r is None:
        return ["none"]
    if isinstance(r, (bool, np.bool_)):
        return ["bool", bool(r)]
    if isinstance(r, (int, np.integer)):
        return ["int", int(r)]
    if isinstance(r, (list, tuple, set, frozenset, range)):
        out = []
        for x in r:
            if x is None:
                out.append(None)
            elif isinstance(x, (int, np.integer)) and not isinstance(x, (bool, np.bool_)):
                out.append(int(x))
            else:
                return ["other", repr(r)[:200]]
        return ["list", out]
    return ["other", repr(r)[:200]]


_COORDS = ["distinct"]


def _pts(nv):
    import mouette as M
    if _COORDS[0] == "zero":      # degenerate geometry, valid combinatorics: every vertex at the origin
        return [M.Vec(0., 0., 0.) for i in range(nv)]
    return [M.Vec(float(i % 7), float(i // 7), float((i * i) % 5)) for i in range(nv)]


def _base(nv, faces, conv=list):
    import mouette as M
    d = M.mesh.RawMeshData()
    d.vertices += _pts(nv)
    d.faces += [conv(F) for F in faces]
    return M.mesh.SurfaceMesh(d)


ROUTES = ["list", "tuple", "numpy", "from_arrays", "obj", "medit", "geogram", "rewrap", "triangulate", "loop", "copy",
          "copy_conn", "merge", "edges_explicit"]
SAME_FACES = {"list", "tuple", "numpy", "from_arrays", "obj", "geogram", "rewrap", "copy", "copy_conn"}


def build_route(case):
    """Builds the finished SurfaceMesh of the case through its construction route.
    Returns (mesh, route actually used): a route that does not apply to the face list falls back to 'list'."""
    import os
    import tempfile
    import numpy as np
    import mouette as M
    nv, faces, route = case["nv"], case["faces"], case.get("route", "list")
    arities = {len(F) for F in faces}
    if route == "tuple":
        return _base(nv, faces, tuple), route
    if route == "numpy":
        return _base(nv, faces, lambda F: np.array(F)), route
    if route == "from_arrays" and len(arities) == 1:
        return M.mesh.from_arrays(np.array([list(p) for p in _pts(nv)]), F=np.array(faces)), route
    if route in ("obj", "medit", "geogram") and not (route == "medit" and max(arities) > 4):
        ext = {"obj": ".obj", "medit": ".mesh", "geogram": ".geogram_ascii"}[route]
        with tempfile.TemporaryDirectory() as td:
            fn = os.path.join(td, "m" + ext)
            M.mesh.save(_base(nv, faces), fn)
            return M.mesh.load(fn), route
    if route == "rewrap" and len(faces) >= 2:
        # build a first mesh from a prefix of the faces, use it, wrap it again (shared containers), append the rest, rebuild
        k = max(1, len(faces) // 3)
        m1 = _base(nv, faces[:-k])
        m1.connectivity.vertex_to_corners(0)
        m1.boundary_vertices
        d2 = M.mesh.RawMeshData(m1)
        d2.faces += [list(F) for F in faces[-k:]]
        return M.mesh.SurfaceMesh(d2), route
    if route in ("triangulate", "loop"):
        m0 = _base(nv, faces)
        m0.connectivity.vertex_to_faces(0)
        with M.mesh.SurfaceSubdivision(m0) as ed:
            if route == "triangulate":
                ed.triangulate()
            else:
                ed.loop_subdivision(1)
        return ed.mesh, route
    if route == "copy":
        return M.mesh.copy(_base(nv, faces)), route
    if route == "copy_conn":
        b = _base(nv, faces)
        b.connectivity.vertex_to_vertices(0)
        b.interior_edges
        return M.mesh.copy(b, copy_attributes=True, copy_connectivity=True), route
    if route == "edges_explicit":
        # edges declared by the caller in every spelling: any subset of the sides of the faces, in arbitrary order, either
        # orientation (big, small), some declared twice (same or opposite orientation), as tuples / lists / numpy rows, and
        # invalid rows mixed in (degenerate (x,x), out of range, negative) which mouette documents it filters; the rest of
        # the sides is completed from the faces.  (Valid declared edges are always sides: an extra polyline edge is not a
        # surface edge of this property.)
        import random
        rr = random.Random(case.get("script_seed", 0) + 7)
        und = sorted({tuple(sorted((F[i], F[(i + 1) % len(F)]))) for F in faces for i in range(len(F))})
        rr.shuffle(und)
        und = und[:rr.randint(1, len(und))]
        rows = [(b, a) if rr.random() < 0.5 else (a, b) for a, b in und]
        if rr.random() < 0.5:
            for _ in range(rr.randint(1, 3)):
                a, b = rr.choice(und)
                rows.insert(rr.randrange(len(rows) + 1), rr.choice([(a, b), (b, a)]))
        if rr.random() < 0.6:
            for _ in range(rr.randint(1, 3)):
                x = rr.randrange(nv)
                bad = rr.choice([(x, x), (x, nv + rr.randint(0, 2)), (nv, x), (-1 - rr.randint(0, 2), x), (x, -1), (nv + 1, nv + 1)])
                rows.insert(rr.randrange(len(rows) + 1), bad)
        conv = rr.choice([tuple, list, lambda r: np.array(r)])
        if case.get("declared_edges") is not None:      # replay / corpus: the rows exactly as recorded
            rows, conv = [tuple(r) for r in case["declared_edges"]], tuple
        d = M.mesh.RawMeshData()
        d.vertices += _pts(nv)
        d.edges += [conv(r) for r in rows]
        d.faces += [list(F) for F in faces]
        return M.mesh.SurfaceMesh(d), route
    if route == "merge":
        return M.mesh.merge([_base(nv, faces), _base(4, [[0, 1, 2], [0, 2, 3]])]), route
    return _base(nv, faces), "list"


DECOY_FACES = [[0, 1, 2], [0, 2, 3]]


def decoy_obs(dm):
    """a second mesh living in the same session: its answers must never move"""
    c = dm.connectivity
    return [canon(c.half_edge_to_corner(0, 1)), canon(sorted(c.vertex_to_corners(0))), canon(list(dm.boundary_edges)),
            canon(c.opposite_corner(2)), canon(sorted(dm.interior_vertices))]


def call_query(m, cn, name, args, form, conv):
    """one public call, in one of the accepted call forms, ids given in the numeric representation `conv`"""
    import numpy as np
    a = [conv(x) for x in args]
    if name == "direct_face":
        return [lambda: cn.direct_face(a[0], a[1]), lambda: cn.direct_face(a[0], a[1], False),
                lambda: cn.direct_face(a[0], a[1], return_inds=False), lambda: cn.direct_face(u=a[0], v=a[1])][form % 4]()
    if name == "direct_face_inds":
        return [lambda: cn.direct_face(a[0], a[1], True), lambda: cn.direct_face(a[0], a[1], return_inds=True),
                lambda: cn.direct_face(a[0], a[1], 1)][form % 3]()
    if name == "opposite_face":
        return [lambda: cn.opposite_face(a[0], a[1], a[2]), lambda: cn.opposite_face(a[0], a[1], a[2], False),
                lambda: cn.opposite_face(a[0], a[1], F=a[2], return_inds=False)][form % 3]()
    if name == "opposite_face_inds":
        return [lambda: cn.opposite_face(a[0], a[1], a[2], True), lambda: cn.opposite_face(a[0], a[1], a[2], return_inds=True)][form % 2]()
    if name == "face_id":
        return [lambda: cn.face_id(*a), lambda: cn.face_id(tuple(a)), lambda: cn.face_id(list(a)), lambda: cn.face_id(iter(a))][form % 4]()
    if name in ("boundary_edges", "interior_edges", "boundary_vertices", "interior_vertices"):
        return list(getattr(m, name))   # a copy: later queries must not change what was observed now
    if name in ("is_edge_on_border", "is_vertex_on_border"):
        r = getattr(m, name)(*a)
        return bool(r) if isinstance(r, (int, float, np.bool_, np.integer, np.floating)) else r   # the type of the truth value is free
    if name == "clear_boundary_data":
        return m.clear_boundary_data()
    return getattr(cn, name)(*a)


# accessors that hand out a fresh list: the caller may do what it likes with it
FRESH = {"vertex_to_faces", "vertex_to_edges", "face_to_vertices", "face_to_edges", "face_to_corners", "face_to_faces",
         "direct_face_inds"}


def run_case(case):
    import random
    import numpy as np
    import mouette as M
    from vf.impl import c01_meshgen as G
    M.config.sort_neighborhoods = bool(case["sort"])
    M.config.display_duplicate_attribute_warning = bool(case.get("dupwarn", False))
    import warnings
    warnings.simplefilter("ignore")
    _COORDS[0] = case.get("coords", "distinct")
    decoy = None
    if case.get("decoy"):
        decoy = _base(4, DECOY_FACES)
        decoy0 = decoy_obs(decoy)
    m, used = build_route(case)
    if type(m).__name__ != "SurfaceMesh":
        return {"crash": "route %s produced a %s" % (used, type(m).__name__)}
    nv2 = len(m.vertices)
    faces2 = [[int(v) for v in F] for F in m.faces]
    note = None
    if used != "list" and G.validate(nv2, faces2) is not None:
        # e.g. a quad split along a diagonal that is already an edge of the surface: not this property's matter
        note = "route %s gave a non-manifold face list (%s): rebuilt from the bare list" % (used, G.validate(nv2, faces2))
        m, used = build_route(dict(case, route="list"))
        nv2 = len(m.vertices)
        faces2 = [[int(v) for v in F] for F in m.faces]
    script = case.get("script")
    if script is None:
        script = G.gen_script(random.Random(case.get("script_seed", 0)), {"nv": nv2, "faces": faces2})
    cn = m.connectivity
    # a vertex attribute whose name collides with the one the border computation uses, holding arbitrary values
    if case.get("collide"):
        m.vertices.delete_attribute("border")    # (an earlier mesh of the route may have left its own there)
    if case.get("collide") == "bool":
        a_ = m.vertices.create_attribute("border", bool)
        for i in range(nv2):
            a_[i] = True
    elif case.get("collide") == "float":
        a_ = m.vertices.create_attribute("border", float)
        for i in range(0, nv2, 2):
            a_[i] = 2.5
    conv = {"int": int, "np64": np.int64, "np32": np.int32}[case.get("argtype", "int")]
    fr = random.Random(case.get("script_seed", 0) + 3)
    obs = []
    decoy_log = []
    for k, q in enumerate(script):
        name, args = q[0], q[1:]
        if decoy is not None and k in (len(script) // 3, 2 * len(script) // 3):
            decoy_log.append(decoy_obs(decoy))
        try:
            r = call_query(m, cn, name, args, fr.randrange(12), conv)
            o = canon(r)
            if name in FRESH and isinstance(r, list):
                r.reverse()          # the caller owns what these accessors return
                r.append(-7)
            obs.append(o)
        except RecursionError:
            obs.append(["err", "RecursionError"])
        except Exception as ex:  # the class name is the observation
            obs.append(["err", type(ex).__name__])
    # the four rings of a few vertices, read together at the end: their mutual alignment is part of the property
    rings = []
    try:
        rr = random.Random(case.get("script_seed", 0) + 1)
        for V in rr.sample(range(nv2), min(4, nv2)):
            rings.append([V, canon(list(cn.vertex_to_corners(V))), canon(list(cn.vertex_to_vertices(V))),
                          canon(list(cn.vertex_to_faces(V))), canon(list(cn.vertex_to_edges(V)))])
    except Exception as ex:
        rings = [["err", type(ex).__name__]]
    if decoy is not None:
        decoy_log.append(decoy_obs(decoy))
    M.config.display_duplicate_attribute_warning = False
    res = {"decoy": None if decoy is None else [decoy0] + decoy_log, "rings": rings, "edges": [[int(a), int(b)] for a, b in m.edges],
           "corner_elem": [int(m.face_corners.element(i)) for i in range(len(m.face_corners))],
           "corner_adj": [int(m.face_corners.adj(i)) for i in range(len(m.face_corners))],
           "nv": nv2, "faces": faces2, "script": script, "route": used, "note": note,
           "obs": obs}
    return res


def main():
    payload = json.load(sys.stdin)
    out = []
    for case in payload["cases"]:
        try:
            out.append(run_case(case))
        except Exception as ex:
            out.append({"crash": "%s: %s" % (type(ex).__name__, ex)})
    print("@@JSON " + json.dumps({"cases": out}))


if __name__ == "__main__":
    main()
