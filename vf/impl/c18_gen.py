"""C18 case generators: small triangulated surfaces (bordered disks / annuli, closed tetra / octa / icosa / cube / torus,
open boxes with sharp edges, ears with two border edges) with float coordinates, and the frame-field configurations."""
import math


def _nondegenerate(V, F, min_sin=0.15):
    """every face has all its angles away from 0 and pi (keeps cotangents and the operators well conditioned)"""
    for a, b, c in F:
        P = [V[a], V[b], V[c]]
        for k in range(3):
            p, q, r = P[k], P[(k + 1) % 3], P[(k + 2) % 3]
            u = [q[i] - p[i] for i in range(3)]
            v = [r[i] - p[i] for i in range(3)]
            cr = (u[1] * v[2] - u[2] * v[1], u[2] * v[0] - u[0] * v[2], u[0] * v[1] - u[1] * v[0])
            nu = math.sqrt(sum(x * x for x in u))
            nv = math.sqrt(sum(x * x for x in v))
            if nu < 1e-6 or nv < 1e-6:
                return False
            if math.sqrt(sum(x * x for x in cr)) / (nu * nv) < min_sin:
                return False
    return True


def grid(rng, nx, ny, planar, hole=False, jitter=0.0):
    V = []
    for i in range(nx + 1):
        for j in range(ny + 1):
            z = 0.0 if planar else rng.choice([0.0, 0.25, 0.5, -0.25]) * rng.choice([0, 1, 1])
            V.append([float(i) + (rng.uniform(-jitter, jitter) if jitter else 0.0),
                      float(j) + (rng.uniform(-jitter, jitter) if jitter else 0.0), z])
    idx = lambda i, j: i * (ny + 1) + j
    skip = set()
    if hole and nx >= 3 and ny >= 3:
        skip.add((rng.randint(1, nx - 2), rng.randint(1, ny - 2)))
    F = []
    for i in range(nx):
        for j in range(ny):
            if (i, j) in skip:
                continue
            a, b, c, d = idx(i, j), idx(i + 1, j), idx(i + 1, j + 1), idx(i, j + 1)
            if rng.random() < 0.5:
                F += [(a, b, c), (a, c, d)]
            else:
                F += [(a, b, d), (b, c, d)]
    return V, F


def disk_fan(rng, k, jitter=0.0):
    """k triangles around an interior centre (k >= 3): every face has exactly one border edge"""
    V = [[0.0, 0.0, rng.choice([0.0, 0.3, 0.6])]]
    for i in range(k):
        a = 2 * math.pi * i / k + (rng.uniform(-jitter, jitter) if jitter else 0.0)
        r = 1.0 + (rng.uniform(0, jitter) if jitter else 0.0)
        V.append([r * math.cos(a), r * math.sin(a), 0.0])
    F = [(0, 1 + i, 1 + (i + 1) % k) for i in range(k)]
    return V, F


def eqtri4(rng):
    """an equilateral triangle cut in four: the three corner faces have two border edges at 60 degrees"""
    h = math.sqrt(3) / 2
    V = [[0, 0, 0], [1, 0, 0], [2, 0, 0], [0.5, h, 0], [1.5, h, 0], [1, 2 * h, 0]]
    F = [(0, 1, 3), (1, 2, 4), (3, 4, 5), (1, 4, 3)]
    return [[float(x) for x in p] for p in V], F


def eqtri_n(rng, n):
    """an equilateral triangle cut in n*n faces (corner faces have two border edges)"""
    h = math.sqrt(3) / 2
    V, ids = [], {}
    for j in range(n + 1):
        for i in range(n + 1 - j):
            ids[(i, j)] = len(V)
            V.append([i + 0.5 * j, h * j, 0.0])
    F = []
    for j in range(n):
        for i in range(n - j):
            F.append((ids[(i, j)], ids[(i + 1, j)], ids[(i, j + 1)]))
            if i + 1 < n - j:
                F.append((ids[(i + 1, j)], ids[(i + 1, j + 1)], ids[(i, j + 1)]))
    return V, F


def polyhedron(rng, kind):
    if kind == "tet":
        V = [[1, 1, 1], [1, -1, -1], [-1, 1, -1], [-1, -1, 1]]
        F = [(0, 1, 2), (0, 3, 1), (0, 2, 3), (1, 3, 2)]
    elif kind == "octa":
        V = [[1, 0, 0], [-1, 0, 0], [0, 1, 0], [0, -1, 0], [0, 0, 1], [0, 0, -1]]
        F = [(0, 2, 4), (2, 1, 4), (1, 3, 4), (3, 0, 4), (2, 0, 5), (1, 2, 5), (3, 1, 5), (0, 3, 5)]
    elif kind == "cube":
        V = [[x, y, z] for x in (0, 1) for y in (0, 1) for z in (0, 1)]
        Q = [(0, 1, 3, 2), (4, 6, 7, 5), (0, 4, 5, 1), (2, 3, 7, 6), (0, 2, 6, 4), (1, 5, 7, 3)]
        F = []
        for a, b, c, d in Q:
            F += [(a, b, c), (a, c, d)] if rng.random() < 0.5 else [(a, b, d), (b, c, d)]
    elif kind == "icosa":
        p = (1 + math.sqrt(5)) / 2
        V = [[-1, p, 0], [1, p, 0], [-1, -p, 0], [1, -p, 0], [0, -1, p], [0, 1, p], [0, -1, -p], [0, 1, -p],
             [p, 0, -1], [p, 0, 1], [-p, 0, -1], [-p, 0, 1]]
        F = [(0, 11, 5), (0, 5, 1), (0, 1, 7), (0, 7, 10), (0, 10, 11), (1, 5, 9), (5, 11, 4), (11, 10, 2), (10, 7, 6),
             (7, 1, 8), (3, 9, 4), (3, 4, 2), (3, 2, 6), (3, 6, 8), (3, 8, 9), (4, 9, 5), (2, 4, 11), (6, 2, 10),
             (8, 6, 7), (9, 8, 1)]
    elif kind == "bipyramid":
        k = rng.choice([3, 5, 6])
        V = [[0, 0, 1.2], [0, 0, -1.2]] + [[math.cos(2 * math.pi * i / k), math.sin(2 * math.pi * i / k), 0] for i in range(k)]
        F = []
        for i in range(k):
            a, b = 2 + i, 2 + (i + 1) % k
            F += [(0, a, b), (1, b, a)]
    else:
        raise ValueError(kind)
    return [[float(x) for x in p] for p in V], F


def open_box(rng):
    """a cube without its top face: four border edges and eight sharp edges"""
    V, F = polyhedron(rng, "cube")
    top = {i for i, p in enumerate(V) if p[2] == 1.0}
    F = [f for f in F if not all(v in top for v in f)]
    return V, F


def torus(rng, nu, nv, R=2.0, r=0.8):
    V = []
    for i in range(nu):
        for j in range(nv):
            u, v = 2 * math.pi * i / nu, 2 * math.pi * j / nv
            V.append([(R + r * math.cos(v)) * math.cos(u), (R + r * math.cos(v)) * math.sin(u), r * math.sin(v)])
    idx = lambda i, j: (i % nu) * nv + (j % nv)
    F = []
    for i in range(nu):
        for j in range(nv):
            a, b, c, d = idx(i, j), idx(i + 1, j), idx(i + 1, j + 1), idx(i, j + 1)
            F += [(a, b, c), (a, c, d)]
    return V, F


def polygon(rng, n_sides, n_rings=2, jitter=0.0):
    """flat regular polygon, one border vertex per corner (exact corner angles pi - 2 pi / n), rings jittered inside"""
    V = [[0.0, 0.0, 0.0]]
    for r in range(1, n_rings + 1):
        for s in range(n_sides):
            a = 2 * math.pi * s / n_sides
            rad = r / n_rings
            if r < n_rings and jitter:
                a += rng.uniform(-jitter, jitter)
                rad += rng.uniform(-jitter, jitter) / 2
            V.append([rad * math.cos(a), rad * math.sin(a), 0.0])
    idx = lambda r, s: 1 + (r - 1) * n_sides + (s % n_sides)
    F = [(0, idx(1, s), idx(1, s + 1)) for s in range(n_sides)]
    for r in range(1, n_rings):
        for s in range(n_sides):
            a, b, c, d = idx(r, s), idx(r + 1, s), idx(r + 1, s + 1), idx(r, s + 1)
            F += [(a, b, c), (a, c, d)]
    return V, F


def rectangle(rng, nx, ny, jitter=0.15):
    """flat axis-aligned rectangle: exact right-angle corners and straight sides, interior vertices jittered"""
    V = []
    for i in range(nx + 1):
        for j in range(ny + 1):
            x, y = float(i), float(j)
            if 0 < i < nx and 0 < j < ny:
                x += rng.uniform(-jitter, jitter)
                y += rng.uniform(-jitter, jitter)
            V.append([x, y, 0.0])
    idx = lambda i, j: i * (ny + 1) + j
    F = []
    for i in range(nx):
        for j in range(ny):
            a, b, c, d = idx(i, j), idx(i + 1, j), idx(i + 1, j + 1), idx(i, j + 1)
            F += [(a, b, c), (a, c, d)] if (i + j) % 2 == 0 else [(a, b, d), (b, c, d)]
    return V, F


def perturb(rng, V, amp):
    return [[x + rng.uniform(-amp, amp) for x in p] for p in V]


def sheared(rng, big=False):
    """a sheared, anisotropic lattice disk (optionally with relief): many NON-DELAUNAY interior edges (opposite angles add up to
    more than pi, cot a + cot b < 0) and obtuse triangles along the border"""
    nx, ny = rng.choice([(3, 3), (4, 3), (3, 4)] + ([(5, 5), (6, 4)] if big else []))
    k = rng.choice([-1, 1]) * rng.uniform(0.9, 2.0)
    sy = rng.uniform(0.6, 1.4)
    relief = rng.random() < 0.4
    V = []
    for i in range(nx + 1):
        for j in range(ny + 1):
            V.append([i + k * j * sy, sy * j, (0.3 * math.sin(1.3 * i + 0.7 * j) if relief else 0.0)])
    idx = lambda i, j: i * (ny + 1) + j
    F = []
    for i in range(nx):
        for j in range(ny):
            a, b, c, d = idx(i, j), idx(i + 1, j), idx(i + 1, j + 1), idx(i, j + 1)
            # the diagonal that the shear makes the LONG one half of the time
            F += [(a, b, c), (a, c, d)] if rng.random() < 0.5 else [(a, b, d), (b, c, d)]
    return V, F, "sheared%dx%d" % (nx, ny), not relief


def tiny(rng):
    """a single triangle / two triangles: every edge (but one) on the border"""
    if rng.random() < 0.5:
        return [[0.0, 0.0, 0.0], [1.0, 0.1, 0.0], [0.2, 0.9, 0.0]], [(0, 1, 2)], "tri1"
    return [[0.0, 0.0, 0.0], [1.0, 0.0, 0.0], [1.1, 1.0, 0.2], [0.0, 0.9, 0.0]], [(0, 1, 2), (0, 2, 3)], "quad2"


def random_mesh(rng, tier="quick"):
    """-> dict(kind, V, F, planar): a base surface, then (half of the time) renumbered vertices / rotated faces / shuffled
    face list, sometimes mirrored orientation (clockwise planar input) and sometimes another length scale"""
    m = _base_mesh(rng, tier)
    V, F = m["V"], [list(f) for f in m["F"]]
    if rng.random() < 0.5:
        V, F, _, _ = renumber(rng, V, F)
    if rng.random() < 0.15:
        F = [[f[0], f[2], f[1]] for f in F]          # the opposite (still consistent) orientation
    if rng.random() < 0.15:
        sc = rng.choice([1e-3, 1e3])
        V = [[x * sc for x in p] for p in V]
        m["kind"] += "s"
    m["V"], m["F"] = V, F
    return m


def _base_mesh(rng, tier="quick"):
    big = tier != "quick"
    for _ in range(50):
        r = rng.random()
        planar = False
        if rng.random() < 0.04:
            V, F, kind = tiny(rng)
            planar = kind == "tri1"
            return {"kind": kind, "V": V, "F": [list(f) for f in F], "planar": planar}
        if rng.random() < 0.14:
            V, F, kind, planar = sheared(rng, big)
            if _nondegenerate(V, F, min_sin=0.06):
                return {"kind": kind, "V": V, "F": [list(f) for f in F], "planar": planar}
            continue
        if r < 0.30:
            nx, ny = rng.choice([(2, 2), (3, 2), (3, 3), (4, 3), (3, 4)] + ([(5, 4), (5, 5)] if big else []))
            planar = rng.random() < 0.5
            V, F = grid(rng, nx, ny, planar, hole=rng.random() < 0.35, jitter=rng.choice([0.0, 0.1, 0.2]))
            kind = "grid%dx%d" % (nx, ny)
        elif r < 0.42:
            k = rng.choice([3, 4, 5, 6, 7])
            V, F = disk_fan(rng, k, jitter=rng.choice([0.0, 0.15]))
            planar = all(p[2] == 0.0 for p in V)
            kind = "fan%d" % k
        elif r < 0.50:
            # exact border corners: odd multiples of pi/order occur (right angles with order 2/6, 135 degrees with order 4 ..)
            if rng.random() < 0.5:
                ns = rng.choice([4, 6, 8, 8, 12])
                V, F = polygon(rng, ns, n_rings=rng.choice([2, 3]) if ns <= 8 else 2, jitter=rng.choice([0.0, 0.1]))
                kind = "polygon%d" % ns
            else:
                nx, ny = rng.choice([(3, 2), (3, 3), (4, 3)])
                V, F = rectangle(rng, nx, ny)
                kind = "rect%dx%d" % (nx, ny)
            planar = True
        elif r < 0.56:
            n = rng.choice([2, 3])
            V, F = eqtri_n(rng, n)
            planar = True
            if rng.random() < 0.5:
                V = [[p[0] + rng.uniform(-0.08, 0.08), p[1] + rng.uniform(-0.08, 0.08), 0.0] for p in V]
            kind = "eqtri%d" % n
        elif r < 0.63:
            V, F = open_box(rng)
            if rng.random() < 0.5:
                V = perturb(rng, V, 0.05)
            kind = "openbox"
        elif r < 0.9:
            kk = rng.choice(["tet", "octa", "cube", "icosa", "bipyramid"])
            V, F = polyhedron(rng, kk)
            if rng.random() < 0.6:
                V = perturb(rng, V, 0.06)
            kind = kk
        else:
            nu, nv = rng.choice([(4, 3), (5, 3), (4, 4)] + ([(6, 4)] if big else []))
            V, F = torus(rng, nu, nv)
            kind = "torus%dx%d" % (nu, nv)
        if _nondegenerate(V, F):
            return {"kind": kind, "V": V, "F": [list(f) for f in F], "planar": planar}
    raise RuntimeError("no non-degenerate mesh generated")


def random_config(rng):
    return {
        "elem": rng.choice(["faces", "faces", "vertices"]),
        "order": rng.choice([1, 2, 3, 4, 4, 5, 6]),
        "features": rng.random() < 0.5,
        "n_smooth": rng.choice([0, 0, 0, 1, 3]),
        "cotan": rng.random() < 0.7,
        "smooth_normals": rng.random() < 0.6,
        # the order in which the caller uses the public stage methods (every legal order must give the same field)
        "protocol": rng.choice(["init_opt", "init_opt", "run", "run", "call", "init_run", "init_run", "init_call", "init_opt_run",
                                "run_run", "opt_opt", "init_opt_ns_opt", "early_opt_run", "init_init_opt"]),
        "callform": rng.choice(["explicit", "explicit", "omit_defaults", "positional", "int_flags"]),
        "preseed": rng.random() < 0.15,
        "flag_twice": rng.random() < 0.25,
    }


def renumber(rng, V, F):
    """random vertex renumbering, per-face rotation and face-list shuffle; returns (V', F', vperm, fperm) with
    old vertex v -> vperm[v], old face f -> fperm[f]"""
    n = len(V)
    perm = list(range(n))
    rng.shuffle(perm)
    V2 = [None] * n
    for v in range(n):
        V2[perm[v]] = list(V[v])
    order = list(range(len(F)))
    rng.shuffle(order)
    F2 = []
    fperm = [None] * len(F)
    for newi, oldi in enumerate(order):
        f = [perm[v] for v in F[oldi]]
        k = rng.randrange(3)
        F2.append(f[k:] + f[:k])
        fperm[oldi] = newi
    return V2, F2, perm, fperm
