"""Runs call sequences ("programs") on mouette's boxes / vector / angle primitives and reports, after EVERY
call, the canonical result, the exception kind, whether numpy's floating-point error configuration is what
it was before the call, which caller arrays / boxes changed, and which boxes share memory with a caller
array or with another box.

stdin : {"progs": [ {"ops": [op, ...]}, ... ]}
stdout: '@@JSON ' + {"progs": [[obs, ...], ...]}

ops (slots are small integers; values are JSON numbers that are exactly representable):
  ["arr", s, [x...], "f"|"i"]          caller array  np.array([...], dtype)
  ["seterr", [d, o, u, i]]             caller sets np.seterr(divide=d, over=o, under=u, invalid=i)
  ["box", b, sa, sb]                   AABB(arr[sa], arr[sb])
  ["ofpts", b, [s...], pad]            AABB.of_points([arr[s]...], pad)
  ["pad_s", b, x] ["pad_v", b, s]      box.pad(float) / box.pad(array)
  ["contains", b, s] ["project", b, s] ["distance", b, s, which]
  ["union", nb, b1, b2] ["inter", nb, b1, b2] ["do_intersect", b1, b2] ["is_empty", b] ["span", b] ["center", b]
  ["fn", name, [s...], which|null, [scalars...], reps?]  vector / angle primitive on caller arrays
  ["unit_cube", nb, dim, centered] ["infinite", nb, dim] ["of_mesh", nb, [s...], pad] ["normalize", s, which]
  ["vec_ctor", name, n, sa, sb]        Vec.<name>(...) called twice with the same arguments; results -> caller arrays sa, sb
  ["setcomp", s, i, x]                 the caller writes arrs[s][i] = x
The LAST element of an op may be a dict of call-form options: {"form": "o"|"p"|"k"} - the optional argument (which /
padding / centered) is omitted / passed positionally / by keyword; {"sreps": [...]} - how each scalar argument is passed
("f" float, "i" int, "n" np.float64, "m" np.int64, "3" np.float32, "b" np.bool_); {"store": s} - the returned array is
kept by the caller as array s.
A representation code says how a caller array is handed to the function: "a" the ndarray itself, "v" a Vec view
of it, "l" a list, "t" a tuple, "c" a complex number (2-D only).  "fn" takes one code per argument; "box",
"contains", "project", "distance", "pad_v", "ofpts" take them as an optional trailing string.
"""
import cmath
import json
import math
import sys
import warnings

import numpy as np


def canon_float(x):
    x = float(x)
    if x != x:
        return "nan"
    if x == math.inf:
        return "inf"
    if x == -math.inf:
        return "-inf"
    return x


def canon_vec(v):
    return [canon_float(x) for x in np.asarray(v, dtype=float).ravel().tolist()]


def exc_kind(ex):
    from mouette.geometry import AABB
    n = type(ex).__name__
    if isinstance(ex, AABB.IncompatibleDimensionError):
        return "dim"
    if isinstance(ex, FloatingPointError):
        return "fpe"
    if n == "InvalidArgumentValueError":
        return "badarg"
    if type(ex) is Exception:
        return "exc"
    if isinstance(ex, AttributeError) and "NoneType" in str(ex):
        return "nonederef"
    return "other:%s: %s" % (n, str(ex)[:120])


def angle_obs(t):
    t = float(t)
    return ["ang", math.cos(t), math.sin(t), t]


def as_rep(arr, r, Vec):
    if r == "v":
        return arr.view(Vec)
    if r == "l":
        return arr.tolist()
    if r == "t":
        return tuple(arr.tolist())
    if r == "c":
        return complex(float(arr[0]), float(arr[1]))
    return arr


def scalar(x):
    """canonical scalar, or an 'other' marker when the primitive did not return a scalar"""
    if np.ndim(x) != 0:
        return ["other", "non-scalar result %r" % (x,)]
    return ["s", canon_float(x)]


def as_scalar(x, r):
    if r == "i":
        return int(x)
    if r == "n":
        return np.float64(x)
    if r == "m":
        return np.int64(int(x))
    if r == "3":
        return np.float32(x)
    if r == "b":
        return np.bool_(x)
    if r == "B":
        return bool(x)
    return float(x)


def opt_args(form, name, value):
    """(positional tail, keywords) for one optional argument"""
    if form == "o" or value is None:
        return (), {}
    if form == "p":
        return (value,), {}
    return (), {name: value}


def call_fn(geom, Vec, name, A, which, sc, form="k", sreps=()):
    """returns canonical result"""
    pos, kw = opt_args(form, "which", which)
    if pos:
        return call_fn_pos(geom, Vec, name, A, which)
    sc = [as_scalar(x, (list(sreps) + ["f"] * len(sc))[i]) if name not in ("roots",) else x for i, x in enumerate(sc)]
    if name == "cross":
        return ["v", canon_vec(geom.cross(A[0], A[1]))]
    if name == "dot":
        return scalar(geom.dot(A[0], A[1]))
    if name == "vdot":
        return ["s", canon_float(Vec(A[0]).dot(A[1]))]
    if name == "norm":
        return ["s", canon_float(geom.norm(A[0], **kw))]
    if name == "vnorm":
        return ["s", canon_float(Vec(A[0]).norm(**kw))]
    if name == "distance":
        return ["s", canon_float(geom.distance(A[0], A[1], **kw))]
    if name == "normalized":
        return ["v", canon_vec(Vec.normalized(A[0], **kw))]
    if name == "det2":
        return scalar(geom.det_2x2(A[0], A[1]))
    if name == "det3":
        return scalar(geom.det_3x3(A[0], A[1], A[2]))
    if name == "cotan":
        return ["s", canon_float(geom.cotan(A[0], A[1], A[2]))]
    if name == "angle3":
        return angle_obs(geom.angle_3pts(A[0], A[1], A[2]))
    if name == "sangle2":
        return angle_obs(geom.signed_angle_2vec3D(A[0], A[1], A[2]))
    if name == "sangle3":
        return angle_obs(geom.signed_angle_3pts(A[0], A[1], A[2], A[3]))
    if name == "angle2d":
        return angle_obs(geom.angle_2vec2D(A[0], A[1]))
    if name == "angle3d":
        return angle_obs(geom.angle_2vec3D(A[0], A[1]))
    if name == "circum":
        return ["v", canon_vec(geom.circumcenter(A[0], A[1], A[2]))]
    if name == "face_basis":
        X, Y, Z = geom.face_basis(A[0], A[1], A[2])
        return ["vs", [canon_vec(X), canon_vec(Y), canon_vec(Z)]]
    if name == "line2":
        r = geom.intersect_2lines2D(Vec(A[0]), Vec(A[1]), Vec(A[2]), Vec(A[3]))
        return ["none"] if r is None else ["v", canon_vec(r)]
    if name == "plane":
        return ["v", canon_vec(geom.project_to_plane(A[0], A[1], A[2]))]
    if name == "tri_area":
        return ["s", canon_float(geom.triangle_area(A[0], A[1], A[2]))]
    if name == "tri_area2d":
        return ["s", canon_float(geom.triangle_area_2D(A[0], A[1], A[2]))]
    if name == "rot2d":
        a = float(sc[0])
        return ["v", canon_vec(geom.rotate_2d(A[0], sc[0])), math.cos(a), math.sin(a)]
    if name == "rotaxis":
        a = float(sc[0])
        return ["v", canon_vec(geom.rotate_around_axis(A[0], A[1], sc[0])), math.cos(a), math.sin(a)]
    if name == "rot2d2":
        a, b = float(sc[0]), float(sc[1])
        return ["vs", [canon_vec(geom.rotate_2d(geom.rotate_2d(A[0], a), b)), canon_vec(geom.rotate_2d(A[0], a + b))]]
    if name == "rotaxis2":
        a, b = float(sc[0]), float(sc[1])
        return ["vs", [canon_vec(geom.rotate_around_axis(geom.rotate_around_axis(A[0], A[1], a), A[1], b)),
                       canon_vec(geom.rotate_around_axis(A[0], A[1], a + b))]]
    if name == "quad_area":
        return scalar(geom.quad_area(A[0], A[1], A[2], A[3]))
    if name == "aspect_ratio":
        return scalar(geom.aspect_ratio(A[0], A[1], A[2]))
    if name == "dist_seg2d":
        return scalar(geom.distance_to_segment2D(A[0], A[1], A[2]))
    if name == "solve_quadratic":
        from mouette.utils import maths
        return ["v", canon_vec(maths.solve_quadratic(sc[0], sc[1], sc[2]))]
    if name == "outer":
        m = Vec(A[0]).outer(A[1])
        return ["vs", [canon_vec(row) for row in np.asarray(m)]]
    if name == "axis_rot_from_z":
        return ["v", canon_vec(geom.axis_rot_from_z(A[0]))]
    if name == "sign0":
        return ["s", canon_float(geom.sign0(sc[0]))]
    if name == "sign":
        return ["s", canon_float(geom.sign(sc[0]))]
    if name == "principal":
        from mouette.utils import maths
        return ["s", canon_float(maths.principal_angle(sc[0]))]
    if name == "angle_diff":
        from mouette.utils import maths
        return ["s", canon_float(maths.angle_diff(sc[0], sc[1]))]
    if name == "roots":
        from mouette.utils import maths
        c = complex(float(sc[0]), float(sc[1]))
        n = as_scalar(sc[2], (list(sreps) + ["i"] * 3)[2]) if (list(sreps) + ["i"] * 3)[2] in ("i", "m") else int(sc[2])
        nz = int(sc[3]) if len(sc) > 3 else -1          # normalize: 1 True / 0 False / -1 omitted
        if nz < 0:
            rs = maths.roots(c, n)
        elif form == "p":
            rs = maths.roots(c, n, bool(nz))
        else:
            rs = maths.roots(c, n, normalize=bool(nz))
        r, t = cmath.polar(c)
        return ["roots", [[z.real, z.imag, cmath.phase(z)] for z in rs], t, r]
    raise RuntimeError("unknown function " + name)


def call_fn_pos(geom, Vec, name, A, which):
    """the primitives that take `which`, with it passed positionally"""
    if name == "norm":
        return ["s", canon_float(geom.norm(A[0], which))]
    if name == "vnorm":
        return ["s", canon_float(Vec(A[0]).norm(which))]
    if name == "distance":
        return ["s", canon_float(geom.distance(A[0], A[1], which))]
    if name == "normalized":
        return ["v", canon_vec(Vec.normalized(A[0], which))]
    raise RuntimeError("positional `which` for " + name)


def run_prog(prog):
    from mouette import geometry as geom
    from mouette.geometry import Vec, AABB
    np.seterr(divide="warn", over="warn", under="ignore", invalid="warn")
    arrs = {}
    boxes = {}
    meshes = []
    out = []

    def snap():
        a = {k: (v.dtype.str, v.shape, v.tolist()) for k, v in arrs.items()}
        for j, (m, _) in enumerate(meshes):
            a["mesh%d" % j] = ("mesh", len(m.vertices), np.asarray(m.vertices._data).tolist())
        b = {k: (np.asarray(v.mini).tolist(), np.asarray(v.maxi).tolist()) for k, v in boxes.items()}
        return a, b

    def aliases():
        al = []
        bl = sorted(boxes.items())
        for k, b in bl:
            for fld, arr in (("mini", b._p1), ("maxi", b._p2)):
                for s, a in sorted(arrs.items()):
                    if np.shares_memory(arr, a):
                        al.append("box%d.%s~arr%d" % (k, fld, s))
                for k2, b2 in bl:
                    if k2 > k:
                        for fld2, arr2 in (("mini", b2._p1), ("maxi", b2._p2)):
                            if np.shares_memory(arr, arr2):
                                al.append("box%d.%s~box%d.%s" % (k, fld, k2, fld2))
            if np.shares_memory(b._p1, b._p2):
                al.append("box%d.mini~box%d.maxi" % (k, k))
        sl = sorted(arrs.items())
        for x, (s1, a1_) in enumerate(sl):
            for s2, a2_ in sl[x + 1:]:
                if np.shares_memory(a1_, a2_):
                    al.append("arr%d~arr%d" % (s1, s2))
        return al

    for op in prog["ops"]:
        opt = {}
        if isinstance(op[-1], dict):
            opt, op = op[-1], op[:-1]
        form = opt.get("form", "k")
        sreps = opt.get("sreps", [])
        kind = op[0]
        if kind == "arr":
            arrs[op[1]] = np.array(op[2], dtype=float if op[3] == "f" else int)
            out.append({"r": ["none"], "exc": None, "err_same": True, "arrchg": [], "boxchg": [], "alias": aliases()})
            continue
        if kind == "setcomp":
            a0, b0 = snap()
            arrs[op[1]][int(op[2])] = op[3]
            a1, b1 = snap()
            out.append({"r": ["none"], "exc": None, "err_same": True,
                        "arrchg": [[k, a1[k][2]] for k in sorted(a0, key=str) if a0[k] != a1.get(k)],
                        "boxchg": [[k, b1[k][0], b1[k][1]] for k in sorted(b0) if b0[k] != b1[k]], "alias": aliases()})
            continue
        if kind == "seterr":
            d, o_, u, i = op[1]
            np.seterr(divide=d, over=o_, under=u, invalid=i)
            out.append({"r": ["none"], "exc": None, "err_same": True, "arrchg": [], "boxchg": [], "alias": aliases()})
            continue
        err0 = dict(np.geterr())
        call0 = np.geterrcall()
        a0, b0 = snap()
        ids0 = {k: id(v) for k, v in arrs.items()}

        def R(slot, code):
            return as_rep(arrs[slot], code, Vec)

        def reps(i, n):
            r = op[i] if len(op) > i and isinstance(op[i], str) else ""
            return (r + "a" * n)[:n]
        r, exc = ["none"], None
        newbox = None
        try:
            with warnings.catch_warnings():
                warnings.simplefilter("ignore")
                if kind == "box":
                    rr = reps(4, 2)
                    newbox = (op[1], AABB(R(op[2], rr[0]), R(op[3], rr[1])))
                elif kind == "ofpts":
                    rr = reps(4, 1)
                    pts = [arrs[s] for s in op[2]]
                    if rr == "l":
                        pts = [p_.tolist() for p_ in pts]
                    elif rr == "v" and pts:
                        pts = np.array(pts)
                    pos, kw = opt_args(form, "padding", as_scalar(op[3], (sreps + ["f"])[0]))
                    newbox = (op[1], AABB.of_points(pts, *pos, **kw))
                elif kind == "unit_cube":
                    s0 = sreps[0] if len(sreps) > 0 else "i"
                    s1 = sreps[1] if len(sreps) > 1 else "B"
                    pos, kw = opt_args(form, "centered", as_scalar(op[3], s1))
                    newbox = (op[1], AABB.unit_cube(as_scalar(op[2], s0), *pos, **kw))
                elif kind == "infinite":
                    newbox = (op[1], AABB.infinite(int(op[2])))
                elif kind == "vec_ctor":
                    def mk():
                        if op[1] == "zeros":
                            return Vec.zeros(int(op[2]))
                        if op[1] == "random":
                            return Vec.random(int(op[2]))
                        return getattr(Vec, op[1])()
                    v1, v2 = mk(), mk()
                    arrs[op[3]], arrs[op[4]] = v1, v2
                    ids0[op[3]], ids0[op[4]] = id(v1), id(v2)
                    a0, b0 = snap()
                    r = ["vs", [canon_vec(v1), canon_vec(v2)]]
                elif kind == "of_mesh":
                    import mouette as M
                    mesh = M.mesh.from_arrays(np.array([arrs[s] for s in op[2]], dtype=float))
                    meshes.append((mesh, None))
                    a0, b0 = snap()
                    pos, kw = opt_args(form, "padding", as_scalar(op[3], (sreps + ["f"])[0]))
                    newbox = (op[1], AABB.of_mesh(mesh, *pos, **kw))
                elif kind == "normalize":
                    pos, kw = opt_args(form, "which", op[2])
                    res = arrs[op[1]].view(Vec).normalize(*pos, **kw)
                    r = ["v", canon_vec(arrs[op[1]])] if res is None else ["other", repr(res)]
                elif kind == "pad_s":
                    res = boxes[op[1]].pad(as_scalar(op[2], (sreps + ["f"])[0]))
                    r = ["none"] if res is None else ["other", repr(res)]
                elif kind == "pad_v":
                    res = boxes[op[1]].pad(R(op[2], reps(3, 1)))
                    r = ["none"] if res is None else ["other", repr(res)]
                elif kind == "contains":
                    res = boxes[op[1]].contains_point(R(op[2], reps(3, 1)))
                    r = ["b", bool(res)]
                elif kind == "project":
                    r = ["v", canon_vec(boxes[op[1]].project(R(op[2], reps(3, 1))))]
                elif kind == "distance":
                    pos, kw = opt_args(form, "which", op[3])
                    r = ["s", canon_float(boxes[op[1]].distance(R(op[2], reps(4, 1)), *pos, **kw))]
                elif kind == "union":
                    newbox = (op[1], AABB.union(boxes[op[2]], boxes[op[3]]))
                elif kind == "inter":
                    newbox = (op[1], AABB.intersection(boxes[op[2]], boxes[op[3]]))
                elif kind == "do_intersect":
                    r = ["b", bool(AABB.do_intersect(boxes[op[1]], boxes[op[2]]))]
                elif kind == "dim":
                    r = ["s", canon_float(boxes[op[1]].dim)]
                elif kind in ("mini", "maxi"):
                    r = ["v", canon_vec(getattr(boxes[op[1]], kind))]
                elif kind in ("and", "or"):
                    newbox = (op[1], (boxes[op[2]] & boxes[op[3]]) if kind == "and" else (boxes[op[2]] | boxes[op[3]]))
                elif kind == "getc":
                    res = getattr(arrs[op[1]].view(Vec), op[2])
                    r = ["v", canon_vec(res)] if op[2] == "xy" else scalar(res)
                elif kind == "vecset":
                    setattr(arrs[op[1]].view(Vec), op[2], op[3])
                elif kind == "is_empty":
                    r = ["b", bool(boxes[op[1]].is_empty())]
                elif kind == "span":
                    res = boxes[op[1]].span
                    r = ["v", canon_vec(res)]
                    if "store" in opt:
                        arrs[opt["store"]] = res
                        ids0[opt["store"]] = id(res)
                        a0, b0 = snap()
                elif kind == "center":
                    res = boxes[op[1]].center
                    r = ["v", canon_vec(res)]
                    if "store" in opt:
                        arrs[opt["store"]] = res
                        ids0[opt["store"]] = id(res)
                        a0, b0 = snap()
                elif kind == "fn":
                    rr = (list(op[5]) if len(op) > 5 and op[5] else []) + ["a"] * len(op[2])
                    r = call_fn(geom, Vec, op[1], [R(s, rr[i]) for i, s in enumerate(op[2])], op[3], op[4], form, sreps)
                else:
                    raise RuntimeError("unknown op " + kind)
                if newbox is not None:
                    r = ["box", canon_vec(newbox[1].mini), canon_vec(newbox[1].maxi)]
        except KeyError as ex:
            # a slot that does not exist (only when a shrunk program dropped its definition): not an observation
            exc = "harness:missing-slot %s" % ex
            newbox = None
        except Exception as ex:  # noqa
            exc = exc_kind(ex)
            newbox = None
        err1 = dict(np.geterr())
        a1, b1 = snap()
        arrchg = [[k, a1[k][2]] for k in sorted(a0, key=str)
                  if a0[k] != a1.get(k) or (k in ids0 and ids0[k] != id(arrs[k]))]
        boxchg = [[k, b1[k][0], b1[k][1]] for k in sorted(b0) if b0[k] != b1[k]]
        if newbox is not None:
            boxes[newbox[0]] = newbox[1]
        # whether the call raised is an observation; WHICH class / message is recorded for the replay only, never compared
        exc_class = exc
        if exc is not None and not exc.startswith("harness"):
            exc = "raised"
        out.append({"r": r, "exc": exc, "exc_class": exc_class, "err_same": err0 == err1 and call0 is np.geterrcall(),
                    "err": [err0, err1] if err0 != err1 else None,
                    "arrchg": arrchg, "boxchg": boxchg, "alias": aliases()})
        if err0 != err1:
            np.seterr(**err0)       # resynchronise so that one defect is reported once per call, not for the rest of the program
    return out


def signatures():
    """every optional parameter of every function / method / property of the five anchored modules, by inspect"""
    import inspect
    import mouette.geometry.aabb as m1
    import mouette.geometry.geometry as m2
    import mouette.geometry.rotations as m3
    import mouette.geometry.vector as m4
    import mouette.utils.maths as m5
    out = []

    def params(qual, f):
        try:
            sig = inspect.signature(f)
        except (TypeError, ValueError):
            return
        for p_ in sig.parameters.values():
            if p_.default is not inspect.Parameter.empty:
                out.append([qual, p_.name, repr(p_.default)[:60]])
            elif p_.kind in (inspect.Parameter.VAR_KEYWORD,):
                out.append([qual, "**" + p_.name, "<kwargs>"])

    for mod in (m1, m2, m3, m4, m5):
        for nm, obj in sorted(vars(mod).items()):
            if inspect.isfunction(obj) and obj.__module__ == mod.__name__:
                params(nm, obj)
            elif inspect.isclass(obj) and obj.__module__ == mod.__name__:
                for mn, mo in sorted(vars(obj).items()):
                    f = mo.__func__ if isinstance(mo, (classmethod, staticmethod)) else mo
                    if isinstance(mo, property):
                        for acc in (mo.fget, mo.fset):
                            if acc is not None:
                                params("%s.%s" % (nm, mn), acc)
                    elif inspect.isfunction(f):
                        params("%s.%s" % (nm, mn), f)
    return out


def main():
    payload = json.load(sys.stdin)
    if payload.get("signatures"):
        print("@@JSON " + json.dumps({"signatures": signatures()}))
        return
    res = {"progs": [run_prog(p) for p in payload.get("progs", [])]}
    print("@@JSON " + json.dumps(res))


if __name__ == "__main__":
    main()
