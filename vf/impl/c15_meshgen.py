"""C15 - generators of oriented manifold polygon surfaces with geometry, for border / feature extraction.

A case is
  {"nv": int, "faces": [[v,...],...], "coords": [[x,y,z],...] (integers),
   "hard": [[a,b],...] | None        (edges declared in the raw data before the faces -> "hard_edges"),
   "normals": [[x,y,z],...] | None   (face attribute "normals" declared by the caller; floats given as strings
                                      "num/den" with den a power of two, or None = computed by face_normals),
   "exact": bool                     (every quantity the detector compares is computed exactly in binary64),
   "starts": [int,...], "dets": [{"only_border":b,"flag_corners":b,"corner_order":k,"graph":b},...]}
Everything is driven by one random.Random.  Validity (oriented manifold) is decided by brute force here and
re-checked by the Coq well-formedness predicate on the tables the implementation produced.
"""
from fractions import Fraction


# ---------------------------------------------------------------------- validity (brute force)
def directed_edges(faces):
    d = {}
    for f, F in enumerate(faces):
        n = len(F)
        for i in range(n):
            d.setdefault((F[i], F[(i + 1) % n]), []).append((f, i))
    return d


def validate(nv, faces):
    """None if (nv, faces) is an oriented manifold polygon surface, else a reason."""
    for F in faces:
        if len(F) < 3:
            return "face with < 3 vertices"
        if len(set(F)) != len(F):
            return "repeated vertex in a face"
        if any((not isinstance(v, int)) or v < 0 or v >= nv for v in F):
            return "vertex out of range"
    de = directed_edges(faces)
    for k, l in de.items():
        if len(l) > 1:
            return "directed edge %s used twice" % (k,)
    at = {}
    for f, F in enumerate(faces):
        for i, v in enumerate(F):
            at.setdefault(v, []).append((f, i))
    for v, cs in at.items():
        def cw(c):
            f, i = c
            F = faces[f]
            p = F[(i - 1) % len(F)]
            o = de.get((v, p))
            return o[0] if o else None

        def ccw(c):
            f, i = c
            F = faces[f]
            nx = F[(i + 1) % len(F)]
            o = de.get((nx, v))
            if not o:
                return None
            g, j = o[0]
            return (g, (j + 1) % len(faces[g]))
        seen = {cs[0]}
        c = cs[0]
        while True:
            c = cw(c)
            if c is None or c in seen:
                break
            seen.add(c)
        c = cs[0]
        while True:
            c = ccw(c)
            if c is None or c in seen:
                break
            seen.add(c)
        if len(seen) != len(cs):
            return "vertex %d is not manifold (several fans)" % v
    return None


# ---------------------------------------------------------------------- combinatorial seeds
def seed_polygon(n):
    return n, [list(range(n))]


def seed_tetra():
    return 4, [[0, 1, 2], [0, 3, 1], [1, 3, 2], [0, 2, 3]]


def seed_octa():
    eq = [2, 3, 4, 5]
    fs = []
    for k in range(4):
        a, b = eq[k], eq[(k + 1) % 4]
        fs.append([0, a, b])
        fs.append([1, b, a])
    return 6, fs


def seed_cube():
    return 8, [[0, 3, 2, 1], [4, 5, 6, 7], [0, 1, 5, 4], [1, 2, 6, 5], [2, 3, 7, 6], [3, 0, 4, 7]]


def seed_grid(n, m, wrap_i=False, wrap_j=False, tri=False, rng=None):
    def vid(i, j):
        return (i % n) * m + (j % m)
    fs = []
    for i in range(n if wrap_i else n - 1):
        for j in range(m if wrap_j else m - 1):
            a, b, c, d = vid(i, j), vid(i, j + 1), vid(i + 1, j + 1), vid(i + 1, j)
            if tri:
                if rng is not None and rng.random() < 0.5:
                    fs += [[a, b, c], [a, c, d]]
                else:
                    fs += [[a, b, d], [b, c, d]]
            else:
                fs.append([a, b, c, d])
    return n * m, fs


def union(m1, m2):
    n1, f1 = m1
    n2, f2 = m2
    return n1 + n2, [list(F) for F in f1] + [[v + n1 for v in F] for F in f2]


def random_seed_mesh(rng, size):
    kinds = ["tri", "quad", "poly", "tetra", "octa", "cube", "grid", "trigrid", "annulus", "torus", "union", "union"]
    if size == "tiny":
        k = rng.choice(["tri", "quad", "poly", "tetra", "grid", "trigrid", "union", "octa"])
    else:
        k = rng.choice(kinds)
    lim = {"tiny": 3, "mid": 6, "big": 9}[size]
    if k == "tri":
        return "tri", seed_polygon(3)
    if k == "quad":
        return "quad", seed_polygon(4)
    if k == "poly":
        return "poly", seed_polygon(rng.randint(5, 8))
    if k == "tetra":
        return k, seed_tetra()
    if k == "octa":
        return k, seed_octa()
    if k == "cube":
        return k, seed_cube()
    if k == "grid":
        return k, seed_grid(rng.randint(2, lim), rng.randint(2, lim))
    if k == "trigrid":
        return k, seed_grid(rng.randint(2, lim), rng.randint(2, lim), tri=True, rng=rng)
    if k == "annulus":
        return k, seed_grid(rng.randint(3, max(3, lim)), rng.randint(2, lim), wrap_i=True, tri=rng.random() < 0.5, rng=rng)
    if k == "torus":
        return k, seed_grid(rng.randint(3, max(3, lim)), rng.randint(3, max(3, lim)), wrap_i=True, wrap_j=True,
                            tri=rng.random() < 0.5, rng=rng)
    a = random_seed_mesh(rng, "tiny")[1]
    b = random_seed_mesh(rng, "tiny" if size == "tiny" else "mid")[1]
    return "union", union(a, b)


# ---------------------------------------------------------------------- edits
def ed_split13(rng, nv, faces):
    f = rng.randrange(len(faces))
    F = faces[f]
    w = nv
    new = [[F[i], F[(i + 1) % len(F)], w] for i in range(len(F))]
    return nv + 1, faces[:f] + faces[f + 1:] + new


def ed_edge_split(rng, nv, faces):
    f = rng.randrange(len(faces))
    F = faces[f]
    i = rng.randrange(len(F))
    u, v = F[i], F[(i + 1) % len(F)]
    w = nv
    out = []
    for G in faces:
        n = len(G)
        H = []
        for j in range(n):
            H.append(G[j])
            a, b = G[j], G[(j + 1) % n]
            if (a, b) == (u, v) or (a, b) == (v, u):
                H.append(w)
        out.append(H)
    return nv + 1, out


def ed_delete(rng, nv, faces):
    if len(faces) < 2:
        return None
    f = rng.randrange(len(faces))
    return nv, faces[:f] + faces[f + 1:]


def ed_ear(rng, nv, faces):
    de = directed_edges(faces)
    border = [k for k in de if (k[1], k[0]) not in de]
    if not border:
        return None
    u, v = rng.choice(border)
    if rng.random() < 0.5:
        # new vertex (border vertex with a single face); the old border edge becomes a CHORD: an interior
        # edge joining two border vertices
        if rng.random() < 0.3:
            return nv + 2, faces + [[v, u, nv, nv + 1]]
        return nv + 1, faces + [[v, u, nv]]
    # close a notch: (u,v),(v,w) consecutive border half-edges -> triangle (w,v,u); v may become interior
    nxt = [k for k in border if k[0] == v]
    if not nxt:
        return None
    w = nxt[0][1]
    if w == u:
        return None
    return nv, faces + [[w, v, u]]


def ed_isolated(rng, nv, faces):
    return nv + 1, faces


EDITS = [("split13", ed_split13, 2), ("edge_split", ed_edge_split, 2), ("delete", ed_delete, 6), ("ear", ed_ear, 6),
         ("isolated", ed_isolated, 1)]


def finalize(rng, nv, faces):
    perm = list(range(nv))
    rng.shuffle(perm)
    out = []
    for F in faces:
        G = [perm[v] for v in F]
        r = rng.randrange(len(G))
        out.append(G[r:] + G[:r])
    rng.shuffle(out)
    return nv, out, perm


def gen_topology(rng, size=None, max_faces=60):
    if size is None:
        r = rng.random()
        size = "tiny" if r < 0.4 else ("mid" if r < 0.92 else "big")
    while True:
        kind, (nv, faces) = random_seed_mesh(rng, size)
        if len(faces) <= max_faces:
            break
    faces = [list(F) for F in faces]
    n_ed = rng.choice([0, 1, 2, 3, 5, 8, 12]) if size != "tiny" else rng.choice([0, 0, 1, 1, 2, 3, 4])
    applied = []
    names = [e[0] for e in EDITS]
    fns = {e[0]: e[1] for e in EDITS}
    wts = [e[2] for e in EDITS]
    for _ in range(n_ed):
        nm = rng.choices(names, wts)[0]
        r = fns[nm](rng, nv, faces)
        if r is None:
            continue
        nv2, f2 = r
        if not f2 or len(f2) > max_faces or validate(nv2, f2) is not None:
            continue
        nv, faces = nv2, [list(F) for F in f2]
        applied.append(nm)
    nv, faces, _ = finalize(rng, nv, faces)
    assert validate(nv, faces) is None
    return nv, faces, {"seed_kind": kind, "size": size, "edits": applied}


# ---------------------------------------------------------------------- exact geometry helpers
def sub(a, b):
    return [a[0] - b[0], a[1] - b[1], a[2] - b[2]]


def cross(a, b):
    return [a[1] * b[2] - a[2] * b[1], a[2] * b[0] - a[0] * b[2], a[0] * b[1] - a[1] * b[0]]


def dot(a, b):
    return a[0] * b[0] + a[1] * b[1] + a[2] * b[2]


def face_normal_int(coords, F):
    """The (unnormalised) vector face_normals normalises: cross(pB-pA, pC-pA) of the FIRST THREE vertices."""
    a, b, c = coords[F[0]], coords[F[1]], coords[F[2]]
    return cross(sub(b, a), sub(c, a))


def random_coords(rng, nv, faces, R=5):
    """Distinct integer points; the first three vertices of every face are not collinear."""
    for _ in range(200):
        pts = set()
        coords = []
        for _v in range(nv):
            while True:
                p = (rng.randint(-R, R), rng.randint(-R, R), rng.randint(-R, R))
                if p not in pts:
                    pts.add(p)
                    coords.append(list(p))
                    break
        if all(any(face_normal_int(coords, F)) for F in faces):
            return coords
        R += 1
    raise RuntimeError("no non-degenerate coordinates found")


# ---------------------------------------------------------------------- special geometric families
# pairs of integer normals placed around the two thresholds (cos = n1.n2/(|n1||n2|)):
#   1/2  (60 degrees):       (1,1,0).(0,1,1)/2 = 1/2 exactly
#   4/5  (~36.87 degrees):   (0,0,1).(0,3,4)/5 = 4/5 exactly
NORMAL_PAIRS = [
    ([1, 1, 0], [0, 1, 1]),          # cos = 1/2 exactly
    ([1, 1, 0], [1, 0, 1]),          # cos = 1/2 exactly
    ([0, 0, 1], [0, 3, 4]),          # cos = 4/5 exactly
    ([0, 0, 1], [3, 0, 4]),          # 4/5
    ([0, 0, 1], [0, 7, 4]),          # 0.4961 < 1/2
    ([0, 0, 1], [0, 5, 3]),          # 0.5145 > 1/2
    ([0, 0, 1], [0, 97, 56]),        # 0.49998
    ([0, 0, 1], [0, 168, 97]),       # 0.500003 > 1/2
    ([0, 0, 1], [0, 31, 40]),        # 0.7904 < 4/5
    ([0, 0, 1], [0, 30, 41]),        # 0.8070 > 4/5
    ([0, 0, 1], [0, 301, 400]),      # 0.79904
    ([0, 0, 1], [0, 300, 401]),      # 0.80072
    ([0, 0, 1], [0, 1, 0]),          # 0 (90 degrees)
    ([0, 0, 1], [0, 1, -1]),         # -0.707 (135 degrees)
    ([0, 0, 1], [0, 1, 20]),         # 0.9988 (almost flat)
    ([1, 2, 2], [2, 1, 2]),          # 8/9
    ([1, 2, 2], [2, 2, -1]),         # 4/9
    ([2, 3, 6], [3, 6, 2]),          # 36/49 = 0.7347  (between the thresholds)
    ([2, 3, 6], [6, 2, 3]),          # 36/49
    ([1, 4, 8], [4, 8, 1]),          # 44/81 = 0.543
    ([1, 4, 8], [8, 1, 4]),          # 44/81
    ([1, 4, 8], [4, 7, 4]),          # 64/81 = 0.790 (< 4/5)
    ([1, 4, 8], [4, 4, 7]),          # 76/81 = 0.938
]


def hinge(n1, n2):
    """Two triangles [A,B,C], [B,A,D] sharing the edge AB whose face normals are positive multiples of n1, n2."""
    d = cross(n1, n2)
    assert any(d)
    A = [0, 0, 0]
    B = d
    e1 = cross(d, n1)
    e2 = cross(d, n2)
    C = [-e1[0], -e1[1], -e1[2]]
    D = [d[0] + e2[0], d[1] + e2[1], d[2] + e2[2]]
    return [A, B, C, D], [[0, 1, 2], [1, 0, 3]]


def gen_hinges(rng):
    """A union of 1-4 hinges (each: one interior edge with a prescribed dihedral angle + 4 border edges)."""
    k = rng.choice([1, 1, 2, 3, 4])
    coords, faces = [], []
    for c in range(k):
        n1, n2 = rng.choice(NORMAL_PAIRS)
        if rng.random() < 0.5:
            n1, n2 = n2, n1
        if rng.random() < 0.3:
            s = rng.choice([2, 3])
            n1 = [s * x for x in n1]
        P, F = hinge(n1, n2)
        off = [c * 1000000, 0, 0]
        base = len(coords)
        coords += [[p[0] + off[0], p[1] + off[1], p[2] + off[2]] for p in P]
        faces += [[v + base for v in f] for f in F]
    nv = len(coords)
    nv, faces, perm = finalize(rng, nv, faces)
    c2 = [None] * nv
    for old, new in enumerate(perm):
        c2[new] = coords[old]
    return nv, faces, c2, {"seed_kind": "hinges", "size": "tiny", "edits": []}


def gen_roof(rng):
    """n x m triangulated grid folded along the line i = c : z = h*|i-c| ; creases of a chosen slope."""
    n, m = rng.randint(3, 6), rng.randint(2, 5)
    c = rng.randint(1, n - 2)
    num, den = rng.choice([(0, 1), (1, 1), (1, 2), (3, 4), (4, 7), (1, 3), (2, 1), (7, 4), (97, 56), (3, 1), (1, 10)])
    nv, faces = seed_grid(n, m, tri=rng.random() < 0.7, rng=rng)
    coords = []
    for i in range(n):
        for j in range(m):
            coords.append([den * i, den * j, num * abs(i - c)])
    faces = [list(F) for F in faces]
    for _ in range(rng.choice([0, 0, 1, 2])):
        r = ed_delete(rng, nv, faces)
        if r and validate(*r) is None:
            nv, faces = r
    nv, faces, perm = finalize(rng, nv, faces)
    c2 = [None] * nv
    for old, new in enumerate(perm):
        c2[new] = coords[old]
    return nv, faces, c2, {"seed_kind": "roof", "size": "mid", "edits": []}


def gen_flat(rng):
    """planar lattice grid (z = 0): every interior dihedral angle is flat, corner angle sums are multiples of 45 degrees"""
    n, m = rng.randint(2, 5), rng.randint(2, 5)
    nv, faces = seed_grid(n, m, tri=rng.random() < 0.6, rng=rng)
    coords = [[i, j, 0] for i in range(n) for j in range(m)]
    faces = [list(F) for F in faces]
    for _ in range(rng.choice([0, 1, 2, 3])):
        r = ed_delete(rng, nv, faces)
        if r and validate(*r) is None:
            nv, faces = r
    nv, faces, perm = finalize(rng, nv, faces)
    c2 = [None] * nv
    for old, new in enumerate(perm):
        c2[new] = coords[old]
    return nv, faces, c2, {"seed_kind": "flat", "size": "mid", "edits": []}


CUBE_PTS = [[0, 0, 0], [1, 0, 0], [1, 1, 0], [0, 1, 0], [0, 0, 1], [1, 0, 1], [1, 1, 1], [0, 1, 1]]
OCTA_PTS = [[0, 0, 1], [0, 0, -1], [1, 0, 0], [0, 1, 0], [-1, 0, 0], [0, -1, 0]]
TETRA_PTS = [[1, 1, 1], [1, -1, -1], [-1, 1, -1], [-1, -1, 1]]


def gen_solid(rng):
    k = rng.choice(["cube", "octa", "tetra"])
    if k == "cube":
        nv, faces, coords = 8, seed_cube()[1], CUBE_PTS
    elif k == "octa":
        nv, faces, coords = 6, seed_octa()[1], OCTA_PTS
    else:
        nv, faces, coords = 4, seed_tetra()[1], TETRA_PTS
    s = rng.choice([1, 2, 3])
    coords = [[s * x for x in p] for p in coords]
    faces = [list(F) for F in faces]
    for _ in range(rng.choice([0, 0, 1, 2])):
        r = ed_delete(rng, nv, faces)
        if r and validate(*r) is None:
            nv, faces = r
    nv, faces, perm = finalize(rng, nv, faces)
    c2 = [None] * nv
    for old, new in enumerate(perm):
        c2[new] = coords[old]
    return nv, faces, c2, {"seed_kind": k + "-solid", "size": "tiny", "edits": []}


# ---------------------------------------------------------------------- declared normals (exact dyadic values)
DY = [Fraction(k, 4) for k in range(-4, 5)]


def gen_declared_normals(rng, nf):
    """Face attribute 'normals' given by the caller with quarter-integer entries: every dot product is computed
    exactly in binary64, so the comparisons with 0.5 and 1-0.2 are decided exactly (1/2 is hit often)."""
    pool = [[Fraction(1), Fraction(0), Fraction(0)], [Fraction(1, 2), Fraction(1, 2), Fraction(0)],
            [Fraction(1, 2), Fraction(0), Fraction(0)], [Fraction(3, 4), Fraction(1, 4), Fraction(0)],
            [Fraction(0), Fraction(1), Fraction(0)], [Fraction(1), Fraction(1, 4), Fraction(0)],
            [Fraction(3, 4), Fraction(0), Fraction(1)], [Fraction(1), Fraction(1), Fraction(0)]]
    out = []
    for _ in range(nf):
        if rng.random() < 0.7:
            out.append(list(rng.choice(pool)))
        else:
            out.append([rng.choice(DY), rng.choice(DY), rng.choice(DY)])
    return out


def edges_of(faces):
    s = []
    seen = set()
    for F in faces:
        n = len(F)
        for i in range(n):
            e = tuple(sorted((F[i], F[(i + 1) % n])))
            if e not in seen:
                seen.add(e)
                s.append(e)
    return s


def border_loops(faces):
    """Brute force: the border loops as cyclic vertex lists following the half-edge direction."""
    de = directed_edges(faces)
    nxt = {k[0]: k[1] for k in de if (k[1], k[0]) not in de}
    seen = set()
    loops = []
    for s in sorted(nxt):
        if s in seen:
            continue
        x = s
        L = []
        while x not in seen:
            seen.add(x)
            L.append(x)
            x = nxt[x]
        loops.append(L)
    return loops


def gen_big(rng):
    """> 257 vertices (a 17..20 x 17..20 grid with holes): vertex ids beyond CPython's small-int cache as starts"""
    n, mm = rng.randint(17, 20), rng.randint(17, 20)
    nv, faces = seed_grid(n, mm, tri=rng.random() < 0.5, rng=rng)
    faces = [list(F) for F in faces]
    for _ in range(rng.choice([0, 1, 3, 6])):
        r = ed_delete(rng, nv, faces)
        if r and validate(*r) is None:
            nv, faces = r
    coords = [[i, j, (i * j) % 3] for i in range(n) for j in range(mm)]
    nv, faces, perm = finalize(rng, nv, faces)
    c2 = [None] * nv
    for old, new in enumerate(perm):
        c2[new] = coords[old]
    return nv, faces, c2, {"seed_kind": "big-grid", "size": "big", "edits": []}


START_FORMS = ["int", "int", "int", "kw", "np64", "np32", "npu16"]
DET_DEFAULTS = {"only_border": False, "flag_corners": True, "corner_order": 4, "graph": True}   # as documented


def det_variants(rng, d):
    """how the detector is built / called / what the mesh already carries (none of it may change the answers)"""
    d["call"] = rng.choice(["run", "run", "detect"])
    d["types"] = rng.choice(["py", "py", "np", "int01"])
    d["junk"] = rng.random() < 0.3
    f = rng.random()
    if f < 0.15:
        d.update(DET_DEFAULTS)
        d["form"] = "defaults"           # FeatureEdgeDetector(verbose=False): every option omitted
    elif f < 0.4:
        d["form"] = "pos"                # positional arguments
    else:
        d["form"] = "kw"
    return d


def gen_case(rng, tier="quick"):
    r = rng.random()
    border_only = False
    if r < 0.03:
        nv, faces, coords, info = gen_big(rng)
        border_only = True
    elif r < 0.50:
        nv, faces, info = gen_topology(rng, max_faces=60 if tier == "quick" else 90)
        coords = random_coords(rng, nv, faces)
    elif r < 0.68:
        nv, faces, coords, info = gen_hinges(rng)
    elif r < 0.80:
        nv, faces, coords, info = gen_roof(rng)
    elif r < 0.90:
        nv, faces, coords, info = gen_flat(rng)
    else:
        nv, faces, coords, info = gen_solid(rng)
    all_edges = edges_of(faces)
    # declared hard edges: none / a random subset (given in either vertex order) / all
    h = rng.random()
    if h < 0.3:
        hard = None
    elif h < 0.85:
        hard = [list(e) for e in all_edges if rng.random() < 0.4]
        rng.shuffle(hard)
    else:
        hard = [list(e) for e in all_edges]
    if hard is not None and len(hard) == 0:
        hard = None
    if hard is not None:
        hard = [e if rng.random() < 0.5 else [e[1], e[0]] for e in hard]    # declared as (A,B) or (B,A)
    normals = None
    exact = False
    if rng.random() < 0.3:
        normals = [["%d/%d" % (x.numerator, x.denominator) for x in n] for n in gen_declared_normals(rng, len(faces))]
        exact = True
    # starting points: every border vertex, some interior / isolated / out-of-range ones
    loops = border_loops(faces)
    bv = [v for L in loops for v in L]
    starts = list(bv)
    if len(starts) > 24:
        starts = rng.sample(starts, 24)
    others = [v for v in range(nv) if v not in set(bv)]
    rng.shuffle(others)
    if nv > 257:
        hi = [v for v in bv if v > 256]
        starts = rng.sample(hi, min(6, len(hi))) + rng.sample(bv, min(2, len(bv)))
    starts += others[:3] + rng.sample([-1, nv, nv + 3, -nv - 1], 2)
    rng.shuffle(starts)       # failing calls interleaved with good ones: the mesh must be unaffected by a caught exception
    # how each start is passed: python int (positional / keyword), numpy integers of several widths
    start_forms = [rng.choice(["omit", "none", "none_kw"])] + [rng.choice(START_FORMS) for _ in starts]
    start_forms = [f if not (f == "npu16" and s < 0) else "np64" for f, s in zip(start_forms, [0] + starts)]
    # a geometry the combinatorial half must not care about: all vertices at the same point
    degenerate = False
    if not border_only and rng.random() < 0.04:
        border_only = True
        degenerate = True
        coords = [[0, 0, 0] for _ in range(nv)]
    scale_exp = rng.choice([0, 0, 0, 0, -20, 40])
    dets = []
    for _ in range(2):
        dets.append(det_variants(rng, {"only_border": rng.random() < 0.3, "flag_corners": rng.random() < 0.75,
                                       "corner_order": rng.choice([4, 4, 4, 2, 3, 6, 8, 1]), "graph": rng.random() < 0.5}))
    # a run on a mesh that an earlier run (other options) has already been applied to: same answers expected
    d3 = det_variants(rng, {"only_border": rng.random() < 0.5, "flag_corners": rng.random() < 0.85,
                            "corner_order": rng.choice([4, 4, 2, 3, 6]), "graph": rng.random() < 0.3})
    d3["prior"] = {"only_border": False, "flag_corners": True, "corner_order": rng.choice([4, 4, 3, 8]), "graph": False}
    dets.append(d3)
    # ONE detector object re-used: 2-4 runs on this mesh and on a second (small) mesh, options changed in between
    session = None
    if rng.random() < 0.6:
        other = None
        if rng.random() < 0.7:
            r2 = rng.random()
            if r2 < 0.4:
                nv2, f2, c2, _ = gen_hinges(rng)
            elif r2 < 0.7:
                nv2, f2, c2, _ = gen_solid(rng)
            else:
                nv2, f2, _ = gen_topology(rng, size="tiny")
                c2 = random_coords(rng, nv2, f2)
            e2 = edges_of(f2)
            h2 = [list(e) for e in e2 if rng.random() < 0.4] or None
            other = {"nv": nv2, "faces": f2, "coords": c2, "hard": h2, "normals": None, "exact": False}
        steps = []
        for _ in range(rng.choice([2, 2, 3, 4])):
            steps.append({"on": rng.choice([0, 1]) if other else 0, "only_border": rng.random() < 0.3,
                          "flag_corners": rng.random() < 0.75, "corner_order": rng.choice([4, 4, 3, 6]),
                          "graph": rng.random() < 0.5, "call": rng.choice(["run", "detect"])})
        session = {"other": other, "steps": steps}
        # the caller moves the vertices of this mesh between two runs (same connectivity, new geometry): the later runs
        # must classify the NEW geometry (nothing computed from the old coordinates may survive)
        if normals is None and rng.random() < 0.5:
            session["alt_coords"] = random_coords(rng, nv, faces)
            on0 = [k for k, st in enumerate(steps) if st["on"] == 0]
            if on0:
                j = rng.choice(on0)
                for k in on0:
                    steps[k]["moved"] = k >= j
    if border_only:
        dets, session, normals, exact = [], None, None, False
    info["session"] = 0 if session is None else len(session["steps"])
    info["loops"] = len(loops)
    info["normals"] = "declared" if normals else "computed"
    info["hard"] = "none" if hard is None else ("all" if len(hard) == len(all_edges) else "some")
    return {"nv": nv, "faces": faces, "coords": coords, "hard": hard, "normals": normals, "exact": exact,
            "starts": starts, "start_forms": start_forms, "scale_exp": scale_exp, "degenerate": degenerate,
            "dets": dets, "session": session, "info": info}
