"""Structured generators of conforming tetrahedral meshes with integer coordinates (C03).

A mesh is {"V": [[x,y,z],...] (ints), "C": [[a,b,c,d],...]}.  Every generator output is conforming (each vertex
triple lies in at most two cells, cells are non-degenerate, their volumes add up) - checked by `selfcheck`.
"""
import itertools


def det3(a, b, c):
    return (a[0] * b[1] * c[2] + a[1] * b[2] * c[0] + a[2] * b[0] * c[1]
            - a[0] * b[2] * c[1] - a[1] * b[0] * c[2] - a[2] * b[1] * c[0])


def sub(a, b):
    return (a[0] - b[0], a[1] - b[1], a[2] - b[2])


def mdet(V, cell):
    """mouette's own determinant for a cell (A,B,C,D): det(pA-pD, pB-pD, pC-pD) (attr_cells.cell_volume, volume.py:542)"""
    a, b, c, d = (V[i] for i in cell)
    return det3(sub(a, d), sub(b, d), sub(c, d))


# ---------------------------------------------------------------------- seeds
def single_tet():
    return {"V": [[0, 0, 0], [1, 0, 0], [0, 1, 0], [0, 0, 1]], "C": [[0, 1, 2, 3]]}


def grid(nx, ny, nz, mode):
    """nx x ny x nz unit cubes, each cut into 6 (Kuhn) or 5 (alternating parity) tetrahedra."""
    def vid(i, j, k):
        return (i * (ny + 1) + j) * (nz + 1) + k
    V = [[i, j, k] for i in range(nx + 1) for j in range(ny + 1) for k in range(nz + 1)]
    C = []
    for i in range(nx):
        for j in range(ny):
            for k in range(nz):
                def c(dx, dy, dz):
                    return vid(i + dx, j + dy, k + dz)
                if mode == 6:
                    for perm in itertools.permutations(range(3)):
                        p = [0, 0, 0]
                        cell = [c(*p)]
                        for ax in perm:
                            p[ax] = 1
                            cell.append(c(*p))
                        C.append(cell)
                else:
                    par = (i + j + k) % 2
                    corners = [(x, y, z) for x in (0, 1) for y in (0, 1) for z in (0, 1)]
                    even = [q for q in corners if (sum(q) + par) % 2 == 0]
                    odd = [q for q in corners if (sum(q) + par) % 2 == 1]
                    C.append([c(*q) for q in even])
                    for q in odd:
                        nb = [e for e in even if sum(abs(e[t] - q[t]) for t in range(3)) == 1]
                        C.append([c(*q)] + [c(*e) for e in nb])
    return {"V": V, "C": C}


def two_tets_sharing(what):
    """conforming but not a manifold: two tetrahedra glued along one edge / one vertex only"""
    if what == "edge":
        return {"V": [[0, 0, 0], [1, 0, 0], [0, 1, 0], [0, 0, 1], [0, -1, 0], [0, 0, -1]],
                "C": [[0, 1, 2, 3], [0, 1, 4, 5]]}
    return {"V": [[0, 0, 0], [1, 0, 0], [0, 1, 0], [0, 0, 1], [-1, 0, 0], [0, -1, 0], [0, 0, -1]],
            "C": [[0, 1, 2, 3], [0, 4, 5, 6]]}


# ---------------------------------------------------------------------- edits (conformity preserving)
def scale(m, s):
    m["V"] = [[s * x for x in p] for p in m["V"]]


def split_cell(m, ic):
    """1 -> 4: new vertex at the centroid of cell ic"""
    scale(m, 4)
    cell = m["C"][ic]
    p = [sum(m["V"][v][t] for v in cell) // 4 for t in range(3)]
    n = len(m["V"])
    m["V"].append(p)
    new = []
    for i in range(4):
        c2 = list(cell)
        c2[i] = n
        new.append(c2)
    m["C"][ic:ic + 1] = new


def split_face(m, tri):
    """new vertex at the centroid of a face; every incident cell 1 -> 3"""
    scale(m, 3)
    p = [sum(m["V"][v][t] for v in tri) // 3 for t in range(3)]
    n = len(m["V"])
    m["V"].append(p)
    out = []
    for cell in m["C"]:
        if set(tri) <= set(cell):
            for v in tri:
                out.append([n if x == v else x for x in cell])
        else:
            out.append(cell)
    m["C"] = out


def split_edge(m, e):
    """new vertex at the midpoint of an edge; every incident cell 1 -> 2"""
    scale(m, 2)
    a, b = e
    p = [(m["V"][a][t] + m["V"][b][t]) // 2 for t in range(3)]
    n = len(m["V"])
    m["V"].append(p)
    out = []
    for cell in m["C"]:
        if a in cell and b in cell:
            out.append([n if x == a else x for x in cell])
            out.append([n if x == b else x for x in cell])
        else:
            out.append(cell)
    m["C"] = out


def remove_cells(m, rng, k):
    """delete up to k cells whose removal keeps every remaining pair of face-adjacent... (no check: any subset of a
    conforming mesh is conforming); unused vertices are dropped"""
    for _ in range(k):
        if len(m["C"]) <= 1:
            break
        m["C"].pop(rng.randrange(len(m["C"])))
    used = sorted({v for c in m["C"] for v in c})
    ren = {v: i for i, v in enumerate(used)}
    m["V"] = [m["V"][v] for v in used]
    m["C"] = [[ren[v] for v in c] for c in m["C"]]


# ---------------------------------------------------------------------- presentation
def renumber(m, rng):
    n = len(m["V"])
    perm = list(range(n))
    rng.shuffle(perm)            # old -> new
    V = [None] * n
    for old, new in enumerate(perm):
        V[new] = m["V"][old]
    m["V"] = V
    m["C"] = [[perm[v] for v in c] for c in m["C"]]


def orient(m, rng, mode):
    """mode: 'random' (any of the 24 orders per cell), 'pos' / 'neg' (every cell of that sign in mouette's determinant)"""
    out = []
    for c in m["C"]:
        c = list(c)
        rng.shuffle(c)
        if mode in ("pos", "neg"):
            d = mdet(m["V"], c)
            if (d > 0) != (mode == "pos"):
                i, j = rng.sample(range(4), 2)
                c[i], c[j] = c[j], c[i]
        out.append(c)
    m["C"] = out


def faces_of(cell):
    return [frozenset(cell[:i] + cell[i + 1:]) for i in range(4)]


def selfcheck(m):
    cnt = {}
    for c in m["C"]:
        assert len(set(c)) == 4 and all(0 <= v < len(m["V"]) for v in c)
        assert mdet(m["V"], c) != 0
        for f in faces_of(list(c)):
            cnt[f] = cnt.get(f, 0) + 1
    assert max(cnt.values()) <= 2
    assert len({frozenset(c) for c in m["C"]}) == len(m["C"])
    return True


def edge_manifold(m):
    """every edge has a connected link: the cells around it form one fan or one ring through shared faces"""
    around = {}
    for ic, c in enumerate(m["C"]):
        for a, b in itertools.combinations(sorted(c), 2):
            around.setdefault((a, b), []).append(ic)
    for (a, b), cs in around.items():
        comp = {cs[0]}
        todo = [cs[0]]
        while todo:
            x = todo.pop()
            for y in cs:
                if y not in comp and len(set(m["C"][x]) & set(m["C"][y])) == 3:
                    comp.add(y)
                    todo.append(y)
        if len(comp) != len(cs):
            return False
    return True


def gen_mesh(rng, big=False):
    """returns (mesh, tags)"""
    r = rng.random()
    tags = []
    if r < 0.12:
        m = single_tet()
        tags.append("seed=tet")
    elif r < 0.55:
        mode = rng.choice([5, 6])
        dims = rng.choice([(1, 1, 1), (1, 1, 1), (2, 1, 1), (1, 2, 1), (1, 1, 2)] + ([(2, 2, 1), (2, 2, 2), (3, 1, 1)] if big else [(2, 2, 1)]))
        m = grid(dims[0], dims[1], dims[2], mode)
        tags.append("seed=grid%d-%s" % (mode, "x".join(map(str, dims))))
    elif r < 0.62:
        what = rng.choice(["edge", "vertex"])
        m = two_tets_sharing(what)
        tags.append("seed=two-tets-sharing-" + what)
    else:
        m = grid(1, 1, 1, rng.choice([5, 6]))
        tags.append("seed=cube")
    nedit = rng.choice([0, 0, 1, 1, 2, 3] if not big else [0, 1, 2, 3, 4])
    for _ in range(nedit):
        if len(m["C"]) > (70 if big else 30):
            break
        k = rng.random()
        if k < 0.35:
            split_cell(m, rng.randrange(len(m["C"])))
            tags.append("edit=split-cell")
        elif k < 0.65:
            c = rng.choice(m["C"])
            i = rng.randrange(4)
            split_face(m, c[:i] + c[i + 1:])
            tags.append("edit=split-face")
        elif k < 0.85:
            c = rng.choice(m["C"])
            split_edge(m, rng.sample(c, 2))
            tags.append("edit=split-edge")
        else:
            remove_cells(m, rng, rng.randint(1, 3))
            tags.append("edit=remove-cells")
    if rng.random() < 0.8:
        renumber(m, rng)
    rng.shuffle(m["C"])
    mode = rng.choice(["random", "random", "pos", "neg"])
    orient(m, rng, mode)
    tags.append("orient=" + mode)
    selfcheck(m)
    return m, tags


def declare(rng, m):
    """faces / edges declared before construction: random sub-sets of the cells' triangles / sides, each in a random
    vertex order (what a .mesh file with boundary triangles or tetrahedron(volume=True) hands to the constructor)"""
    tris = sorted({tuple(sorted(t)) for c in m["C"] for t in itertools.combinations(c, 3)})
    sides = sorted({tuple(sorted(t)) for c in m["C"] for t in itertools.combinations(c, 2)})
    F0, E0 = [], []
    r = rng.random()
    if r < 0.35:
        k = rng.choice([1, 2, 3, len(tris) // 2, len(tris)])
        for t in rng.sample(tris, min(k, len(tris))):
            t = list(t)
            rng.shuffle(t)
            F0.append(t)
    if rng.random() < 0.25:
        k = rng.choice([1, 2, len(sides) // 2, len(sides)])
        for t in rng.sample(sides, min(k, len(sides))):
            t = list(t)
            rng.shuffle(t)
            E0.append(t)
    if E0 and rng.random() < 0.6:
        # every spelling: the same edge again, in the other direction, and invalid pairs mixed in (dropped by prepare)
        nv = len(m["V"])
        for _ in range(rng.randint(1, 4)):
            k = rng.random()
            e = list(rng.choice(E0))
            if k < 0.4:
                ins = [e[1], e[0]]
            elif k < 0.7:
                ins = list(e)
            elif k < 0.85:
                ins = [e[0], e[0]]
            else:
                ins = [e[0], nv + rng.randint(0, 3)]
            E0.insert(rng.randrange(len(E0) + 1), ins)
    return F0, E0


def pad_vertices(rng, m, total):
    """add isolated vertices (in no cell) up to `total` and renumber at random: cell vertex ids go beyond 256"""
    n = len(m["V"])
    if total <= n:
        return
    m["V"] = m["V"] + [[rng.randint(-9, 9), rng.randint(-9, 9), rng.randint(-9, 9)] for _ in range(total - n)]
    renumber(m, rng)


def fan_with_cell0_inside(rng):
    """an open fan of 3-5 tetrahedra around one edge whose MIDDLE cell has id 0 while an END cell has id 16 and one of
    the end cell's faces through the edge is declared beforehand: CPython then enumerates the edge's cell set as
    16, 0, ... so the rotational walk starts at cell 16 and must step INTO cell 0 (truthiness of index 0)."""
    k = rng.choice([3, 3, 4])
    ring = [(2, 0, 0), (2, 2, 0), (0, 2, 0), (-2, 2, 0), (-2, 0, 0), (-2, -2, 0)][:k + 1]
    V = [[0, 0, 0], [0, 0, 1]] + [list(p) for p in ring]
    fan = [[0, 1, 2 + j, 3 + j] for j in range(k)]
    mid = 1 if k == 3 else rng.randrange(1, k - 1)
    end = rng.choice([0, k - 1])
    others = [j for j in range(k) if j not in (mid, end)]
    cells = [fan[mid]]
    for t in range(15):                         # fillers: far away single tetrahedra (the end cell gets id 16 = 0 mod 8, 16)
        o = len(V)
        V += [[10 * (t + 1), 0, 0], [10 * (t + 1) + 1, 0, 0], [10 * (t + 1), 1, 0], [10 * (t + 1), 0, 1]]
        cells.append([o, o + 1, o + 2, o + 3])
    cells.append(fan[end])                      # id 16
    cells += [fan[j] for j in others]
    m = {"V": V, "C": cells}
    outer = 2 + end if end == 0 else 3 + end    # the ring vertex of the end cell that only it has
    F0 = [[0, 1, outer]]
    # presentation: renumber vertices, random vertex order inside cells, keep the cell order
    n = len(V)
    perm = list(range(n))
    rng.shuffle(perm)
    VV = [None] * n
    for old, new in enumerate(perm):
        VV[new] = V[old]
    m["V"] = VV
    m["C"] = [[perm[v] for v in c] for c in cells]
    F0 = [[perm[v] for v in f] for f in F0]
    orient(m, rng, "random")
    for f in F0:
        rng.shuffle(f)
    selfcheck(m)
    return m, F0
