"""C07 - structured generators: small integer-coordinate manifold meshes (triangle / quad / polygon surfaces,
tetrahedral volumes), exact similarity transforms (rational rotations from Pythagorean quaternions), renumberings,
and call scripts covering every option of every function.  Pure Python + fractions; no mouette import here."""
import itertools
from fractions import Fraction as Fr


# ------------------------------------------------------------------ exact vector helpers
def sub(a, b):
    return [a[0] - b[0], a[1] - b[1], a[2] - b[2]]


def add(a, b):
    return [a[0] + b[0], a[1] + b[1], a[2] + b[2]]


def cross(a, b):
    return [a[1] * b[2] - a[2] * b[1], a[2] * b[0] - a[0] * b[2], a[0] * b[1] - a[1] * b[0]]


def dot(a, b):
    return a[0] * b[0] + a[1] * b[1] + a[2] * b[2]


def det3(a, b, c):
    return dot(a, cross(b, c))


def vector_area2(pts):
    """twice the vector area of a closed polygon (exact)"""
    s = [0, 0, 0]
    o = pts[0]
    for i in range(1, len(pts) - 1):
        s = add(s, cross(sub(pts[i], o), sub(pts[i + 1], o)))
    return s


def is_planar(pts):
    if len(pts) <= 3:
        return True
    n = vector_area2(pts)
    return all(dot(n, sub(p, pts[0])) == 0 for p in pts)


def convex_planar(pts):
    """strictly convex planar polygon, counter-clockwise about its vector area"""
    n = vector_area2(pts)
    if dot(n, n) == 0 or not is_planar(pts):
        return False
    k = len(pts)
    return all(dot(n, cross(sub(pts[(i + 1) % k], pts[i]), sub(pts[(i + 2) % k], pts[(i + 1) % k]))) > 0 for i in range(k))


# ------------------------------------------------------------------ combinatorics
def face_edges(f):
    return [(f[i], f[(i + 1) % len(f)]) for i in range(len(f))]


def manifold_report(faces, nv):
    """(ok, border_vertices, n_edges): oriented edge-manifold + every vertex star is a single fan/disk"""
    he = {}
    for fi, f in enumerate(faces):
        if len(set(f)) != len(f):
            return False, None, None
        for e in face_edges(f):
            if e in he:
                return False, None, None
            he[e] = fi
    und = {}
    for (a, b) in he:
        und.setdefault((min(a, b), max(a, b)), []).append((a, b))
    border_v = set()
    for k, l in und.items():
        if len(l) > 2:
            return False, None, None
        if len(l) == 1:
            border_v.update(k)
    # vertex stars: faces around v connected through edges at v; border vertex: exactly two border edges
    star = {}
    for fi, f in enumerate(faces):
        for v in f:
            star.setdefault(v, []).append(fi)
    if len(star) != nv:
        return False, None, None  # unused vertex
    for v, fl in star.items():
        nb = sum(1 for k, l in und.items() if v in k and len(l) == 1)
        if nb not in (0, 2):
            return False, None, None
        # connectivity of the star through shared edges containing v
        par = {f: f for f in fl}

        def find(x):
            while par[x] != x:
                par[x] = par[par[x]]
                x = par[x]
            return x
        for k, l in und.items():
            if v in k and len(l) == 2:
                a, b = he[l[0]], he[l[1]]
                par[find(a)] = find(b)
        if len({find(f) for f in fl}) != 1:
            return False, None, None
    return True, border_v, len(und)


# ------------------------------------------------------------------ seeds (integer coordinates)
def tri_grid(rng, nx, ny, amp=2, planar=False):
    """(nx+1) x (ny+1) vertices, each cell split along a random diagonal; a bordered disk"""
    V = []
    for i in range(nx + 1):
        for j in range(ny + 1):
            V.append([3 * i + rng.randint(-1, 1), 3 * j + rng.randint(-1, 1), 0 if planar else rng.randint(-amp, amp)])
    F = []

    def vid(i, j):
        return i * (ny + 1) + j
    for i in range(nx):
        for j in range(ny):
            a, b, c, d = vid(i, j), vid(i + 1, j), vid(i + 1, j + 1), vid(i, j + 1)
            if rng.random() < 0.5:
                F += [[a, b, c], [a, c, d]]
            else:
                F += [[a, b, d], [b, c, d]]
    return V, F


def annulus(rng):
    """3x3 cell grid without the centre cell, triangulated: two border loops, chi = 0"""
    V = [[3 * i + rng.randint(-1, 1), 3 * j + rng.randint(-1, 1), rng.randint(-2, 2)] for i in range(4) for j in range(4)]
    F = []
    for i in range(3):
        for j in range(3):
            if (i, j) == (1, 1):
                continue
            a, b, c, d = i * 4 + j, (i + 1) * 4 + j, (i + 1) * 4 + j + 1, i * 4 + j + 1
            F += [[a, b, c], [a, c, d]] if rng.random() < 0.5 else [[a, b, d], [b, c, d]]
    return V, F


def tetra_surface(rng):
    V = [[0, 0, 0], [4, 0, 0], [0, 4, 0], [0, 0, 4]]
    V = [[x + rng.randint(-1, 1) for x in p] for p in V]
    return V, [[0, 2, 1], [0, 1, 3], [1, 2, 3], [0, 3, 2]]


def octahedron(rng):
    a, b, c = rng.randint(2, 4), rng.randint(2, 4), rng.randint(2, 5)
    V = [[a, 0, 0], [-a, 0, 0], [0, b, 0], [0, -b, 0], [0, 0, c], [0, 0, -c]]
    F = [[0, 2, 4], [2, 1, 4], [1, 3, 4], [3, 0, 4], [2, 0, 5], [1, 2, 5], [3, 1, 5], [0, 3, 5]]
    return V, F


CUBE_V = [[0, 0, 0], [1, 0, 0], [1, 1, 0], [0, 1, 0], [0, 0, 1], [1, 0, 1], [1, 1, 1], [0, 1, 1]]
CUBE_Q = [[0, 3, 2, 1], [4, 5, 6, 7], [0, 1, 5, 4], [1, 2, 6, 5], [2, 3, 7, 6], [3, 0, 4, 7]]


def cube(rng, quads):
    s = [rng.randint(2, 4) for _ in range(3)]
    V = [[p[0] * s[0], p[1] * s[1], p[2] * s[2]] for p in CUBE_V]
    if quads:
        return V, [list(q) for q in CUBE_Q]
    F = []
    for q in CUBE_Q:
        a, b, c, d = q
        F += [[a, b, c], [a, c, d]] if rng.random() < 0.5 else [[a, b, d], [b, c, d]]
    return V, F


def bipyramid(rng, n):
    ring = {3: [[4, 0], [-2, 3], [-2, -3]], 4: [[3, 0], [0, 3], [-3, 0], [0, -3]], 5: [[4, 0], [1, 4], [-3, 2], [-3, -2], [1, -4]],
            6: [[4, 0], [2, 3], [-2, 3], [-4, 0], [-2, -3], [2, -3]]}[n]
    V = [[x, y, rng.randint(-1, 1)] for x, y in ring] + [[0, 0, rng.randint(3, 5)], [0, 0, -rng.randint(3, 5)]]
    F = []
    for i in range(n):
        j = (i + 1) % n
        F += [[i, j, n], [j, i, n + 1]]
    return V, F


def torus(rng, quads=False):
    """square-ish torus: 8 stations around a square loop x 4 cross-section points; closed, genus 1, chi = 0"""
    path = [(4, -4), (4, 0), (4, 4), (0, 4), (-4, 4), (-4, 0), (-4, -4), (0, -4)]
    V = []
    for (cx, cy) in path:
        rx, ry = (1 if cx > 0 else -1 if cx < 0 else 0), (1 if cy > 0 else -1 if cy < 0 else 0)
        ring = [(cx + 2 * rx, cy + 2 * ry, 0), (cx, cy, 2), (cx - 2 * rx, cy - 2 * ry, 0), (cx, cy, -2)]
        V += [[p[0], p[1], p[2] + (rng.randint(0, 1) if p[2] != 0 else 0)] for p in ring]
    F = []
    for i in range(8):
        for j in range(4):
            a, b = i * 4 + j, ((i + 1) % 8) * 4 + j
            c, d = ((i + 1) % 8) * 4 + (j + 1) % 4, i * 4 + (j + 1) % 4
            if quads:
                F.append([a, b, c, d])
            else:
                F += [[a, b, c], [a, c, d]] if rng.random() < 0.5 else [[a, b, d], [b, c, d]]
    return V, F


def quad_grid(rng, nx, ny, planar=True):
    """grid of quads on an affine height field (planar quads) or with integer noise"""
    a, b = rng.randint(-1, 1), rng.randint(-1, 1)
    sx = [0]
    for _ in range(nx):
        sx.append(sx[-1] + rng.randint(2, 4))
    sy = [0]
    for _ in range(ny):
        sy.append(sy[-1] + rng.randint(2, 4))
    V = [[sx[i], sy[j], a * sx[i] + b * sy[j] + (0 if planar else rng.randint(-1, 1))] for i in range(nx + 1) for j in range(ny + 1)]
    F = [[i * (ny + 1) + j, (i + 1) * (ny + 1) + j, (i + 1) * (ny + 1) + j + 1, i * (ny + 1) + j + 1] for i in range(nx) for j in range(ny)]
    return V, F


def polygon_patch(rng):
    """planar convex polygons sharing edges with triangles and quads (mixed arities 3..7)"""
    kind = rng.randint(0, 3)
    if kind == 0:   # single n-gon
        n = rng.choice([5, 6, 7])
        pts = {5: [[4, 0], [1, 4], [-3, 2], [-3, -2], [1, -4]], 6: [[4, 0], [2, 3], [-2, 3], [-4, 0], [-2, -3], [2, -3]],
               7: [[5, 0], [3, 4], [-1, 5], [-4, 2], [-4, -2], [-1, -5], [3, -4]]}[n]
        V = [[x, y] for x, y in pts]
        F = [list(range(n))]
    elif kind == 1:  # house: pentagon + square + triangle
        V = [[0, 0], [4, 0], [4, 3], [2, 5], [0, 3], [8, 0], [8, 3], [2, 8]]
        F = [[0, 1, 2, 3, 4], [1, 5, 6, 2], [4, 3, 7]]
    elif kind == 2:  # hexagon ringed by triangles and a quad
        V = [[4, 0], [2, 3], [-2, 3], [-4, 0], [-2, -3], [2, -3], [5, 4], [0, 6], [-6, 4], [6, -3], [5, -6]]
        F = [[0, 1, 2, 3, 4, 5], [0, 6, 1], [1, 7, 2], [2, 8, 3], [5, 0, 9], [5, 9, 10]]
        if rng.random() < 0.5:
            F.append([1, 6, 7])
    else:  # two pentagons sharing an edge + triangle
        V = [[0, 0], [3, -2], [6, 0], [5, 4], [1, 4], [9, -3], [11, 1], [8, 5], [3, 7]]
        F = [[0, 1, 2, 3, 4], [2, 5, 6, 7, 3], [4, 3, 8]]
    # embed the plane in 3D with an integer affine map (keeps planarity and convexity)
    a, b = rng.randint(-1, 1), rng.randint(-1, 1)
    V = [[x, y, a * x + b * y + 1] for x, y in V]
    return V, F


def tet_mesh(rng):
    kind = rng.randint(0, 3)
    if kind == 0:
        V = [[0, 0, 0], [3, 0, 0], [0, 3, 0], [0, 0, 3]]
        C = [[0, 1, 2, 3]]
    elif kind == 1:  # two tets sharing a face
        V = [[0, 0, 0], [3, 0, 0], [0, 3, 0], [0, 0, 3], [3, 3, 3]]
        C = [[0, 1, 2, 3], [1, 2, 3, 4]]
    elif kind == 2:  # 5-tet cube
        V = [[2 * x for x in p] for p in CUBE_V]
        C = [[0, 1, 3, 4], [1, 2, 3, 6], [1, 4, 5, 6], [3, 4, 6, 7], [1, 3, 4, 6]]
    else:  # 6-tet cube around the diagonal 0-6
        V = [[2 * x for x in p] for p in CUBE_V]
        C = [[0, 1, 2, 6], [0, 2, 3, 6], [0, 3, 7, 6], [0, 7, 4, 6], [0, 4, 5, 6], [0, 5, 1, 6]]
    V = [[x + rng.randint(0, 1) for x in p] for p in V]
    C = [list(c) for c in C]
    for c in C:
        rng.shuffle(c)  # both orientations, any vertex order
    return V, C


# ------------------------------------------------------------------ edits (triangle meshes)
def split_face(rng, V, F):
    fi = rng.randrange(len(F))
    a, b, c = F[fi]
    p = [(V[a][k] + V[b][k] + V[c][k]) // 3 + rng.randint(-1, 1) * (k == 2) for k in range(3)]
    V2 = V + [p]
    n = len(V)
    F2 = F[:fi] + [[a, b, n], [b, c, n], [c, a, n]] + F[fi + 1:]
    return V2, F2


def delete_face(rng, V, F):
    fi = rng.randrange(len(F))
    F2 = F[:fi] + F[fi + 1:]
    used = sorted({v for f in F2 for v in f})
    ren = {v: i for i, v in enumerate(used)}
    return [V[v] for v in used], [[ren[v] for v in f] for f in F2]


def flip_edge(rng, V, F):
    he = {}
    for fi, f in enumerate(F):
        for i in range(3):
            he[(f[i], f[(i + 1) % 3])] = (fi, f[(i + 2) % 3])
    cands = [(a, b) for (a, b) in he if a < b and (b, a) in he]
    if not cands:
        return V, F
    a, b = rng.choice(cands)
    f1, c = he[(a, b)]
    f2, d = he[(b, a)]
    if (c, d) in he or (d, c) in he:
        return V, F
    F2 = [list(f) for f in F]
    F2[f1] = [a, d, c]
    F2[f2] = [d, b, c]
    return V, F2


def nondegenerate_surface(V, F, require_planar_polys=True):
    for f in F:
        pts = [V[v] for v in f]
        if len(f) == 3:
            n = cross(sub(pts[1], pts[0]), sub(pts[2], pts[0]))
            if dot(n, n) == 0:
                return False
        elif len(f) == 4:
            # all four corner triangles non-degenerate, first-three normal non-zero
            for i in range(4):
                n = cross(sub(pts[(i + 1) % 4], pts[i]), sub(pts[(i + 3) % 4], pts[i]))
                if dot(n, n) == 0:
                    return False
            # a PLANAR quad must be convex here (darts live in the dedicated non-convex stream); skew quads are allowed
            if is_planar(pts) and not convex_planar(pts):
                return False
        else:
            if require_planar_polys and not convex_planar(pts):
                return False
    return True


def vertex_normals_defined(V, F):
    """the uniform, area-weighted and angle-weighted sums of unit face normals are not (nearly) zero at any vertex
    (float test; generator-side only)"""
    import math
    acc = {}
    for f in F:
        p = [V[v] for v in f[:3]]
        n = cross(sub(p[1], p[0]), sub(p[2], p[0]))
        l = float(dot(n, n)) ** 0.5
        va = vector_area2([V[v] for v in f])
        area = float(dot(va, va)) ** 0.5 / 2
        k = len(f)
        for i, v in enumerate(f):
            u, w = sub(V[f[(i - 1) % k]], V[v]), sub(V[f[(i + 1) % k]], V[v])
            cs = float(dot(u, w)) / (float(dot(u, u)) ** 0.5 * float(dot(w, w)) ** 0.5)
            ang = math.acos(max(-1.0, min(1.0, cs)))
            a = acc.setdefault(v, [[0.0, 0.0, 0.0] for _ in range(3)])
            for j, wt in enumerate((1.0, area, ang)):
                for c in range(3):
                    a[j][c] += wt * n[c] / l
    return all(sum(x * x for x in aj) > 1e-2 for a in acc.values() for aj in a)


def gen_surface(rng, size):
    """returns (kind, V, F) with kind in tri / quad / poly"""
    for _ in range(200):
        r = rng.random()
        if r < 0.62:
            kind = "tri"
            c = rng.random()
            if size == "tiny":
                pick = rng.choice(["one", "grid11", "grid21", "tetra", "bip3"])
            elif size == "medium":
                pick = rng.choice(["grid", "grid", "annulus", "octa", "cube", "bip", "torus"])
            else:
                pick = rng.choice(["biggrid", "torus", "biggrid"])
            if pick == "one":
                V, F = [[0, 0, 0], [rng.randint(1, 5), rng.randint(-2, 2), rng.randint(-2, 2)], [rng.randint(-2, 2), rng.randint(1, 5), rng.randint(-3, 3)]], [[0, 1, 2]]
            elif pick == "grid11":
                V, F = tri_grid(rng, 1, 1)
            elif pick == "grid21":
                V, F = tri_grid(rng, 2, 1)
            elif pick == "tetra":
                V, F = tetra_surface(rng)
            elif pick == "bip3":
                V, F = bipyramid(rng, 3)
            elif pick == "grid":
                V, F = tri_grid(rng, rng.randint(2, 4), rng.randint(2, 4), planar=c < 0.15)
            elif pick == "annulus":
                V, F = annulus(rng)
            elif pick == "octa":
                V, F = octahedron(rng)
            elif pick == "cube":
                V, F = cube(rng, False)
            elif pick == "bip":
                V, F = bipyramid(rng, rng.choice([4, 5, 6]))
            elif pick == "torus":
                V, F = torus(rng)
            else:
                V, F = tri_grid(rng, rng.randint(5, 6), rng.randint(5, 6))
            # edits
            for _e in range(rng.choice([0, 0, 1, 2, 3]) if size != "tiny" else rng.choice([0, 0, 1])):
                ed = rng.choice(["split", "delete", "flip"])
                V2, F2 = {"split": split_face, "delete": delete_face, "flip": flip_edge}[ed](rng, V, F)
                if F2 and manifold_report(F2, len(V2))[0] and nondegenerate_surface(V2, F2):
                    V, F = V2, F2
        elif r < 0.82:
            kind = "quad"
            if size == "tiny":
                V, F = quad_grid(rng, 1, rng.randint(1, 2), planar=rng.random() < 0.7)
            elif rng.random() < 0.25:
                V, F = cube(rng, True)
            elif rng.random() < 0.2:
                V, F = torus(rng, quads=True)
            else:
                V, F = quad_grid(rng, rng.randint(2, 4), rng.randint(1, 4), planar=rng.random() < 0.7)
        else:
            kind = "poly"
            V, F = polygon_patch(rng)
        ok, _, _ = manifold_report(F, len(V))
        if ok and nondegenerate_surface(V, F) and vertex_normals_defined(V, F):
            return kind, V, F
    raise RuntimeError("generator could not produce a valid surface")


def gen_volume(rng):
    for _ in range(100):
        V, C = tet_mesh(rng)
        if all(det3(sub(V[c[0]], V[c[3]]), sub(V[c[1]], V[c[3]]), sub(V[c[2]], V[c[3]])) != 0 for c in C):
            return V, C
    raise RuntimeError("generator could not produce a valid volume")


# ------------------------------------------------------------------ transforms
def quat_matrix(q):
    """integer matrix M = N * R  with N = |q|^2 and R the rotation of the quaternion q = (a,b,c,d)"""
    a, b, c, d = q
    N = a * a + b * b + c * c + d * d
    M = [[a * a + b * b - c * c - d * d, 2 * (b * c - a * d), 2 * (b * d + a * c)],
         [2 * (b * c + a * d), a * a - b * b + c * c - d * d, 2 * (c * d - a * b)],
         [2 * (b * d - a * c), 2 * (c * d + a * b), a * a - b * b - c * c + d * d]]
    return N, M


def matvec(M, p):
    return [M[i][0] * p[0] + M[i][1] * p[1] + M[i][2] * p[2] for i in range(3)]


SIGNED_PERMS = None


def signed_perm(rng):
    global SIGNED_PERMS
    if SIGNED_PERMS is None:
        SIGNED_PERMS = []
        for perm in itertools.permutations(range(3)):
            for sg in itertools.product([1, -1], repeat=3):
                M = [[sg[i] if perm[i] == j else 0 for j in range(3)] for i in range(3)]
                if det3(M[0], M[1], M[2]) == 1:
                    SIGNED_PERMS.append(M)
    return rng.choice(SIGNED_PERMS)


def gen_transform(rng, kind):
    """returns dict(kind, scale (Fraction: the uniform factor lambda), R (3x3 Fractions, rotation), t (Fractions))
    the map is  p -> lambda * R p + t"""
    t = [Fr(rng.randint(-6, 6)) for _ in range(3)]
    I = [[Fr(int(i == j)) for j in range(3)] for i in range(3)]
    if kind == "translate":
        return {"kind": kind, "scale": Fr(1), "R": I, "t": t}
    if kind == "signedperm":
        M = signed_perm(rng)
        return {"kind": kind, "scale": Fr(1), "R": [[Fr(x) for x in r] for r in M], "t": t}
    if kind in ("similarity", "rotation"):
        while True:
            q = [rng.randint(-3, 3) for _ in range(4)]
            if sum(1 for x in q if x) >= 2:
                break
        N, M = quat_matrix(q)
        R = [[Fr(x, N) for x in r] for r in M]
        if kind == "similarity":   # integer coordinates stay integer: lambda = N
            return {"kind": kind, "scale": Fr(N), "R": R, "t": t, "quat": q}
        return {"kind": kind, "scale": Fr(1), "R": R, "t": t, "quat": q}  # coordinates get rounded to binary64
    if kind == "scale":
        # incl. the two extreme magnitudes ~1e-7 and ~1e39 (powers of two: exact): the property is scale-covariant
        s = rng.choice([Fr(1, 2), Fr(2), Fr(3), Fr(1, 4), Fr(5, 2), Fr(7), Fr(1, 2 ** 23), Fr(2 ** 130)])
        return {"kind": kind, "scale": s, "R": I, "t": [Fr(0)] * 3}
    raise ValueError(kind)


def apply_transform(tr, V):
    out = []
    for p in V:
        q = matvec(tr["R"], [Fr(x) for x in p])
        out.append([tr["scale"] * q[k] + tr["t"][k] for k in range(3)])
    return out


def gen_renumbering(rng, V, F, C):
    """vertex permutation sigma (new id of old v), face/cell order permutation, per-face rotation"""
    nv = len(V)
    sigma = list(range(nv))
    rng.shuffle(sigma)
    V2 = [None] * nv
    for v in range(nv):
        V2[sigma[v]] = V[v]
    res = {"sigma": sigma}
    if F is not None:
        order = list(range(len(F)))
        rng.shuffle(order)  # new face k is old face order[k]
        rots = [rng.randrange(len(F[order[k]])) for k in range(len(F))]
        F2 = []
        for k in range(len(F)):
            f = [sigma[v] for v in F[order[k]]]
            r = rots[k]
            F2.append(f[r:] + f[:r])
        res.update(order=order, rots=rots)
    else:
        F2 = None
    if C is not None:
        corder = list(range(len(C)))
        rng.shuffle(corder)
        C2 = []
        for k in range(len(C)):
            c = [sigma[v] for v in C[corder[k]]]
            # even permutation of a tet's vertices keeps its orientation; any permutation keeps |volume|
            rng.shuffle(c)
            C2.append(c)
        res.update(corder=corder)
    else:
        C2 = None
    return V2, F2, C2, res


# ------------------------------------------------------------------ scripts
WEIGHTS_F2V = ["uniform", "area", "angle", "sum"]
WEIGHTS_C = ["uniform", "angle", "sum", "area"]   # "area" must be rejected by the corner averages


def stored_input(rng, n):
    """(values, storage) of an input attribute: `values` are what attr[i] READS (total-map semantics), `storage` how they
    are held: True dense / False sparse fully written / ["d"|"s", default, written indices] - sparse or dense created with
    a custom default, only some entries (possibly none) written.  Scalars or 3-vectors."""
    vec = rng.random() < 0.3
    r = rng.random()

    def val():
        return [rng.randint(-8, 8) / 4.0 for _ in range(3)] if vec else rng.randint(-8, 8) / 4.0

    def rep(d):
        return [d, d, d] if vec else d
    if r < 0.18:      # a constant, fully written
        c = rng.choice([1, -2, 3.5, 0.25, 7])
        return [rep(float(c))] * n, rng.random() < 0.5
    if r < 0.45:      # arbitrary values, fully written
        return [val() for _ in range(n)], rng.random() < 0.5
    d = rng.choice([2.5, -1.5, 3.0, 0.0, 0.75])
    kind = "s" if rng.random() < 0.75 else "d"
    if r < 0.65:      # NOTHING written: the attribute carries the constant `d` only as its default value
        return [rep(d)] * n, [kind, d, []]
    if r < 0.8:       # a constant, partially written (written entries equal the default)
        w = sorted(rng.sample(range(n), rng.randint(1, max(1, n - 1))))
        return [rep(d)] * n, [kind, d, w]
    w = sorted(rng.sample(range(n), rng.randint(1, max(1, n - 1))))   # partially written with other values
    vals = [val() if i in w else rep(d) for i in range(n)]
    return vals, [kind, d, w]


def attr_values(rng, n, mode):
    if mode == "const":
        c = rng.choice([1, -2, 3.5, 0.25, 7])
        return [c] * n
    return [rng.randint(-8, 8) / 4.0 for _ in range(n)]


def respell(rng, w):
    """the same option string in another spelling the code accepts (it lower-cases the weight)"""
    r = rng.random()
    if r < 0.45:
        return None
    if r < 0.65:
        return w.capitalize()
    if r < 0.85:
        return w.upper()
    return "".join(c.upper() if rng.random() < 0.5 else c for c in w)


def gen_script(rng, kind, nV, nF, nCorn, nCells, ncalls, geom=None):
    """a random sequence of calls; persistent calls leave cached attributes that later calls pick up.
    The `persistent` slot is False | True | a custom attribute name (persistent, stored under that name)."""
    def pd():
        r = rng.random()
        return [False if r < 0.4 else True if r < 0.8 else "c07n_%d" % rng.randint(0, 5), rng.random() < 0.5]
    pool = []
    if kind == "vol":
        pool = [["cell_volume"] + pd(), ["cell_bary"] + pd(), ["mean_vol", None], ["mean_vol", rng.randint(1, max(1, 2 * nCells))],
                ["edge_length"] + pd(), ["edge_middle"] + pd(), ["degree"] + pd(), ["bary"], ["mean_edge", None],
                ["face_area"] + pd(), ["face_bary"] + pd(), ["mean_area", None]]
    else:
        pool = [["edge_length"] + pd(), ["edge_middle"] + pd(), ["face_area"] + pd(), ["face_normals"] + pd(), ["face_bary"] + pd(),
                ["angles"] + pd(), ["degree"] + pd(), ["euler"], ["mean_edge", None], ["mean_edge", rng.randint(1, 2 * nF + 4)],
                ["mean_area", None], ["mean_area", rng.randint(1, max(1, 2 * nF))], ["total_area"], ["bary"]]
        for w in ("uniform", "area", "angle"):
            pool.append(["vnormals", w] + pd())
        # a spelling vertex_normals does NOT accept (it does not lower-case `interpolation`): must be rejected
        pool.append(["vnormals", rng.choice(["Area", "UNIFORM", "Angle"])] + pd())
        if geom is not None:
            V_, F_ = geom
            for w in ("uniform", "area", "angle"):
                fv = []
                for f in F_:
                    n_ = cross(sub(V_[f[1]], V_[f[0]]), sub(V_[f[2]], V_[f[0]]))
                    fv.append([float(n_[i] * 2 + rng.randint(-1, 1)) for i in range(3)])
                pool.append(["vnormals_c", w, fv] + pd())
        if kind != "tri":
            # triangulation-only functions on a quad / polygon mesh must raise (and leave the mesh usable afterwards)
            pool += [["cot"] + pd(), ["cw"] + pd(), ["defects", False] + pd(), ["circum"] + pd()]
        if kind == "tri":
            pool += [["circum"] + pd(), ["circum"] + pd(), ["cot"] + pd(), ["cw"] + pd(), ["cot"] + pd(), ["cw"] + pd(),
                     ["defects", False] + pd(), ["defects", True] + pd(), ["defects", False] + pd()]
        mode = lambda: rng.choice(["const", "rand", "rand"])  # noqa: E731
        pre = lambda n: (None if rng.random() < 0.7 else attr_values(rng, n, "rand"))  # noqa: E731
        dd = lambda: [rng.random() < 0.5, rng.random() < 0.5]  # noqa: E731
        def icall(nm, w, n_in, n_out, spell=False):
            vals, st = stored_input(rng, n_in)
            vec = isinstance(vals[0], list)
            p_ = None
            if rng.random() < 0.3:
                p_ = [[rng.randint(-8, 8) / 4.0 for _ in range(3)] if vec else rng.randint(-8, 8) / 4.0 for _ in range(n_out)]
            return [nm, w, vals, st, rng.random() < 0.5, p_] + ([respell(rng, w)] if spell else [])
        pool.append(icall("v2f", None, nV, nF))
        pool.append(icall("v2f", None, nV, nF))
        for w in WEIGHTS_F2V:
            pool.append(icall("f2v", w, nF, nV, True))
        pool.append(icall("sv2c", None, nV, nCorn))
        pool.append(icall("sf2c", None, nF, nCorn))
        for w in WEIGHTS_C:
            pool.append(icall("c2v", w, nCorn, nV, True))
            pool.append(icall("c2f", w, nCorn, nF, True))
    rng.shuffle(pool)
    return pool[:ncalls]


# ------------------------------------------------------------------ multi-step scenarios (stale caches)
PRODUCERS = ["face_area", "angles", "cot", "cw", "defects", "face_normals", "vnormals", "cell_volume"]


def gen_move(rng, kind, V, F, C):
    """new integer coordinates for the same connectivity: an affine map or the displacement of a few vertices,
    keeping the mesh non-degenerate"""
    for _ in range(60):
        V2 = [list(p) for p in V]
        r = rng.random()
        if r < 0.35:
            sc = rng.choice([2, 3])
            t = [rng.randint(-3, 3) for _ in range(3)]
            V2 = [[sc * p[i] + t[i] for i in range(3)] for p in V2]
        elif r < 0.6:   # anisotropic stretch: areas, angles and normals all change
            k = [rng.choice([1, 2, 3]) for _ in range(3)]
            V2 = [[k[i] * p[i] for i in range(3)] for p in V2]
        else:
            for _j in range(rng.randint(1, 3)):
                v = rng.randrange(len(V2))
                V2[v] = [V2[v][i] + rng.randint(-2, 2) for i in range(3)]
        if V2 == [list(p) for p in V]:
            continue
        if C:
            if all(det3(sub(V2[c[0]], V2[c[3]]), sub(V2[c[1]], V2[c[3]]), sub(V2[c[2]], V2[c[3]])) != 0 for c in C):
                return V2
        else:
            polys_ok = all(len(f) <= 4 or convex_planar([V2[v] for v in f]) for f in F)
            if polys_ok and nondegenerate_surface(V2, F) and vertex_normals_defined(V2, F):
                return V2
    return None


def gen_scenario(rng):
    """(kind, V, F, C, script): persistent computations, then the vertices are moved, then more computations"""
    for _ in range(50):
        if rng.random() < 0.15:
            kind = "vol"
            V, C = gen_volume(rng)
            F = None
        else:
            kind, V, F = gen_surface(rng, rng.choice(["tiny", "medium"]))
            C = None
        V2 = gen_move(rng, kind, V, F, C)
        if V2 is None:
            continue
        nF = len(F) if F else 0
        nCorn = sum(len(f) for f in F) if F else 0
        nC = len(C) if C else 0
        pre = gen_script(rng, kind, len(V), nF, nCorn, nC, 40, geom=(V, F) if F else None)
        pre = [c for c in pre if c[0] in PRODUCERS]
        for c in pre:
            c[-2] = True   # persistent under the default name
        rng.shuffle(pre)
        pre = pre[:rng.randint(1, 4)]
        post = gen_script(rng, kind, len(V), nF, nCorn, nC, rng.randint(4, 8), geom=(V, F) if F else None)
        return kind, V, F, C, pre + [["move", [[float(x) for x in p] for p in V2]]] + post
    raise RuntimeError("scenario generator failed")


# ------------------------------------------------------------------ planar NON-CONVEX faces (darts, L-shapes, arrows)
NONCONVEX_SHAPES = [
    [[0, 0], [2, 1], [4, 0], [2, 4]],                                   # dart quad (reflex corner at index 1)
    [[0, 0], [4, 0], [4, 4], [2, 1], [0, 4]],                           # arrow pentagon
    [[0, 0], [4, 0], [4, 2], [2, 2], [2, 4], [0, 4]],                   # L-shaped hexagon
    [[0, 0], [3, 1], [6, 0], [5, 3], [6, 6], [3, 5], [0, 6], [1, 3]],   # four-pointed star octagon
]


def simple_polygon_ccw_2d(P):
    a2 = sum(P[i][0] * P[(i + 1) % len(P)][1] - P[(i + 1) % len(P)][0] * P[i][1] for i in range(len(P)))
    return a2 > 0


def gen_nonconvex(rng):
    """(V, F): one planar, simple, counter-clockwise, non-convex polygon (started at a random vertex), possibly with a
    triangle glued on one of its edges; integer coordinates after an integer shear/scale and an integer embedding"""
    P = [list(p) for p in rng.choice(NONCONVEX_SHAPES)]
    a, b, c, d = rng.choice([(1, 0, 0, 1), (2, 0, 0, 1), (1, 1, 0, 1), (1, 0, 1, 1), (2, 1, 0, 1), (1, 0, 0, 2)])   # det > 0
    P = [[a * x + b * y, c * x + d * y] for x, y in P]
    assert simple_polygon_ccw_2d(P)
    n = len(P)
    r = rng.randrange(n)
    order = list(range(r, n)) + list(range(r))
    F = [order]
    V2 = [list(p) for p in P]
    if rng.random() < 0.5:   # a triangle on the outside of edge (0,1) of the original numbering
        (x0, y0), (x1, y1) = P[0], P[1]
        ex, ey = x1 - x0, y1 - y0
        apex = [x0 + x1 - 0 + ey, y0 + y1 - ex]        # (p0+p1) + outward normal (ey,-ex) : strictly outside a ccw polygon
        V2.append(apex)
        F.append([1, 0, n])
    pa, pb = rng.randint(-1, 1), rng.randint(-1, 1)
    V = [[x, y, pa * x + pb * y + rng.randint(0, 1) * 0 + 1] for x, y in V2]
    return V, F


def nonconvex_faces(V, F):
    """indices of the faces that are planar but not convex"""
    return [fi for fi, f in enumerate(F) if len(f) > 3 and is_planar([V[v] for v in f]) and not convex_planar([V[v] for v in f])]


# ------------------------------------------------------------------ repeated calls on one mesh object (idempotence)
def gen_repeat(rng):
    """(kind, V, F, C, script): a few calls, each issued two or three times with identical arguments on the same mesh
    object - in a row or interleaved with the others - and no vertex is moved.  Half of the surfaces carry faces with
    5 or more vertices (the accumulating branch of face_area)."""
    for _ in range(50):
        r = rng.random()
        if r < 0.1:
            kind = "vol"
            V, C = gen_volume(rng)
            F = None
        elif r < 0.55:
            kind = "poly"
            V, F = polygon_patch(rng)
            C = None
            if not (manifold_report(F, len(V))[0] and nondegenerate_surface(V, F) and vertex_normals_defined(V, F)):
                continue
        else:
            kind, V, F = gen_surface(rng, rng.choice(["tiny", "medium"]))
            C = None
        nF = len(F) if F else 0
        nCorn = sum(len(f) for f in F) if F else 0
        base = gen_script(rng, kind, len(V), nF, nCorn, len(C) if C else 0, 60, geom=(V, F) if F else None)
        # persistent computations first in the pool: they are the ones that leave state behind
        pers = [c for c in base if len(c) >= 3 and isinstance(c[-1], bool) and isinstance(c[-2], bool)]
        for c in pers:
            if rng.random() < 0.7:
                c[-2] = True
        rng.shuffle(base)
        chosen = base[:rng.randint(3, 5)]
        if F and rng.random() < 0.8 and not any(c[0] == "face_area" for c in chosen):
            chosen.append(["face_area", True, rng.random() < 0.5])
        script = []
        for c in chosen:
            script += [c] * rng.choice([2, 2, 3])
        if rng.random() < 0.5:
            rng.shuffle(script)       # interleaved; otherwise in a row
        if F and rng.random() < 0.6:
            script += [["total_area"], ["mean_area", None], ["total_area"]]
        return kind, V, F, C, [list(c) for c in script]
    raise RuntimeError("repeat generator failed")
