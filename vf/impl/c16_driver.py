"""Runs mouette's SingularityCutter on /repo's working tree and reports canonical observations.

stdin : {"cases": [ {"nv","faces","coords","singus","feat","form","late"}, ... ]}
        "form": container in which the singular vertices are handed to the constructor (list, tuple, set, frozenset,
        array, dict, attribute, generator, iter, filter, range-free map object); "late": k = the last k singular
        vertices are appended to the caller's list between the construction of the cutter and run() (form list only)
stdout: '@@JSON ' + {"results": [obs, ...]}

obs = {"ok": bool, "error": str|None,
       "edges": [[a,b],...]            mesh.edges (index = edge id),
       "interior": [e,...], "boundary": [e,...],
       "has_features": bool, "feature_edges": [e,...] | None,
       "flagged": [e,...]              edges flagged by the singularity spanning tree step,
       "evisited": [e,...]             dual edges crossed by the dual tree,
       "cut0": [e,...]                 cut_edges before pruning,
       "cut": [e,...]                  cut_edges after run(),
       "cut_adj": [[v,[n,...]],...]    after run()
       "out_faces": [[..],..], "out_verts": [[x,y,z],..], "ref_vertex": [[u,v],..],
       "cut_graph": {"nv","edges","selected"} | {"error": ...}}
Intermediate values are observed by wrapping (not replacing) the cutter's own methods around its own run().
"""
import json
import sys
import traceback


class _Feat:
    """Duck-typed stand-in for FeatureEdgeDetector: the cutter only reads these two attributes."""

    def __init__(self, edges, verts):
        self.feature_edges = set(edges)
        self.feature_vertices = set(verts)


def _ints(xs):
    return [int(x) for x in xs]


def give(form, singus, mesh):
    """the singular vertices in one of the container forms the constructor accepts"""
    import numpy as np
    l = list(singus)
    if form == "list":
        return l
    if form == "tuple":
        return tuple(l)
    if form == "set":
        return set(l)
    if form == "frozenset":
        return frozenset(l)
    if form == "array":
        return np.array(l, dtype=int)
    if form == "dict":
        return dict.fromkeys(l, 1.)
    if form == "attribute":
        attr = mesh.vertices.create_attribute("c16_singularities", int)
        for v in l:
            attr[v] = 1
        return attr
    if form == "generator":
        return (v for v in l)
    if form == "iter":
        return iter(l)
    if form == "filter":
        return filter(lambda v: True, l)
    if form == "map":
        return map(int, l)
    raise ValueError("unknown container form " + form)


def run_case(case):
    import numpy as np
    import mouette as M
    from mouette.mesh.mesh_data import RawMeshData
    from mouette.processing.cutting import SingularityCutter

    obs = {"ok": False, "error": None}
    try:
        raw = RawMeshData()
        raw.vertices += [np.array(p, dtype=float) for p in case["coords"]]
        raw.faces += [list(F) for F in case["faces"]]
        mesh = M.mesh.SurfaceMesh(raw)
        # the implementation must see the faces in the order given
        if [list(map(int, F)) for F in mesh.faces] != [list(F) for F in case["faces"]]:
            obs["error"] = "SurfaceMesh reordered the faces"
            return obs
        edges = [_ints(e) for e in mesh.edges]
        obs["edges"] = edges
        obs["interior"] = sorted(_ints(mesh.interior_edges))
        obs["boundary"] = sorted(_ints(mesh.boundary_edges))
        eid = {tuple(sorted(e)): i for i, e in enumerate(edges)}
        feat = None
        if case.get("feat") is not None:
            fe = set(obs["boundary"]) | {eid[tuple(sorted(p))] for p in case["feat"]}
            fv = {v for e in fe for v in edges[e]}
            feat = _Feat(fe, fv)
            obs["feature_edges"] = sorted(fe)
        else:
            obs["feature_edges"] = None
        form = case.get("form") or "list"
        late = int(case.get("late") or 0) if form == "list" else 0
        allsing = list(case["singus"])
        given = give(form, allsing[:len(allsing) - late], mesh)
        cutter = SingularityCutter(mesh, given, features=feat, verbose=False)
        if late:
            given.extend(allsing[len(allsing) - late:])   # the caller completes its list before run()
        rec = {}

        def wrap(name, after):
            orig = getattr(cutter, name)

            def w(*a, **k):
                r = orig(*a, **k)
                after(r, *a)
                return r
            setattr(cutter, name, w)

        def flagged_of(attr):
            return sorted(int(e) for e in range(len(edges)) if attr[e])
        wrap("_build_singularity_spanning_tree_no_features", lambda r: rec.__setitem__("flagged", flagged_of(r)))
        wrap("_build_singularity_spanning_tree_with_features", lambda r: rec.__setitem__("flagged", flagged_of(r)))

        def after_cut(r, evisited):
            rec["evisited"] = sorted(_ints(evisited))
            rec["cut0"] = sorted(_ints(cutter.cut_edges))
        wrap("_build_cut_edges_tree", after_cut)
        cutter.run()
        obs["has_features"] = bool(cutter.has_features)
        obs["flagged"] = rec.get("flagged")
        obs["evisited"] = rec.get("evisited")
        obs["cut0"] = rec.get("cut0")
        obs["cut"] = sorted(_ints(cutter.cut_edges))
        obs["cut_adj"] = sorted([int(v), sorted(_ints(ns))] for v, ns in cutter.cut_adj.items() if len(ns) > 0)
        out = cutter.output_mesh
        obs["out_faces"] = [_ints(F) for F in out.faces]
        ov = []
        for p in out.vertices:
            q = [float(x) for x in p]
            ov.append([int(x) if x == int(x) else x for x in q])
        obs["out_verts"] = ov
        obs["ref_vertex"] = sorted([int(u), int(v)] for u, v in cutter.ref_vertex.items())
        try:
            g = cutter.cut_graph
            sel = g.vertices.get_attribute("selection")
            obs["cut_graph"] = {"nv": len(g.vertices), "edges": sorted(sorted(_ints(e)) for e in g.edges),
                                "selected": sorted(int(i) for i in range(len(g.vertices)) if sel[i]),
                                "verts": [[int(x) if float(x) == int(x) else float(x) for x in p] for p in g.vertices]}
        except Exception as ex:  # noqa
            obs["cut_graph"] = {"error": "%s: %s" % (type(ex).__name__, ex)}
        obs["ok"] = True
    except Exception as ex:  # noqa
        obs["error"] = "%s: %s" % (type(ex).__name__, ex)
        obs["trace"] = traceback.format_exc()[-1500:]
    return obs


def main():
    payload = json.load(sys.stdin)
    res = [run_case(c) for c in payload.get("cases", [])]
    print("@@JSON " + json.dumps({"results": res}))


if __name__ == "__main__":
    main()
