"""Runs mouette's SingularityCutter on /repo's working tree and reports canonical observations.

stdin : {"cases": [ {"nv","faces","coords","singus","feat","form","late"}, ... ]}
        "form": container in which the singular vertices are handed to the constructor (list, tuple, set, frozenset,
        array, dict, attribute, generator, iter, filter, range-free map object); "late": k = the last k singular
        vertices are appended to the caller's list between the construction of the cutter and run() (form list only)
stdout: '@@JSON ' + {"results": [obs, ...]}

obs = {"ok": bool, "error": str|None,
       "edges": [[a,b],...]            mesh.edges (index = edge id),
       "interior": [e,...], "boundary": [e,...],
       "has_features": bool, "feature_edges": [e,...] | None,
       "flagged": [e,...]              edges flagged by the singularity spanning tree step,
       "evisited": [e,...]             dual edges crossed by the dual tree,
       "cut0": [e,...]                 cut_edges before pruning,
       "cut": [e,...]                  cut_edges after run(),
       "cut_adj": [[v,[n,...]],...]    after run()
       "out_faces": [[..],..], "out_verts": [[x,y,z],..], "ref_vertex": [[u,v],..],
       "cut_graph": {"nv","edges","selected"} | {"error": ...}}
Intermediate values are observed by wrapping (not replacing) the cutter's own methods around its own run().
"""
import json
import sys
import traceback


class _Feat:
    """Duck-typed stand-in for FeatureEdgeDetector: the cutter only reads these two attributes."""

    def __init__(self, edges, verts):
        self.feature_edges = set(edges)
        self.feature_vertices = set(verts)


def _ints(xs):
    return [int(x) for x in xs]


def give(form, singus, mesh):
    """the singular vertices in one of the container forms the constructor accepts"""
    import numpy as np
    l = list(singus)
    if form == "list":
        return l
    if form == "tuple":
        return tuple(l)
    if form == "set":
        return set(l)
    if form == "frozenset":
        return frozenset(l)
    if form == "array":
        return np.array(l, dtype=int)
    if form == "array32":
        return np.array(l, dtype=np.int32)
    if form == "array_u8":
        return np.array(l, dtype=np.uint8 if all(0 <= v < 256 for v in l) else np.uint16)
    if form == "npscalars":
        return [np.int64(v) for v in l]
    if form == "dictkeys":
        return dict.fromkeys(l, 0).keys()
    if form == "dict":
        return dict.fromkeys(l, 1.)
    if form == "attribute":
        attr = mesh.vertices.create_attribute("c16_singularities", int)
        for v in l:
            attr[v] = 1
        return attr
    if form == "generator":
        return (v for v in l)
    if form == "iter":
        return iter(l)
    if form == "filter":
        return filter(lambda v: True, l)
    if form == "map":
        return map(int, l)
    raise ValueError("unknown container form " + form)


def _snapshot(mesh):
    return ([[float(x) for x in p] for p in mesh.vertices], [[int(v) for v in F] for F in mesh.faces])


def _attr_names(mesh):
    return sorted("%s/%s" % (k, a) for k, c in (("vertices", mesh.vertices), ("edges", mesh.edges), ("faces", mesh.faces),
                                               ("face_corners", mesh.face_corners)) for a in c.attributes)


def _make_cutter(SingularityCutter, mesh, given, feat, call):
    if call == "pos":
        return SingularityCutter(mesh, given, feat, False)
    if call == "kwall":
        return SingularityCutter(mesh=mesh, singularities=given, features=feat, verbose=False)
    if call == "omit" and feat is None:
        return SingularityCutter(mesh, given)
    return SingularityCutter(mesh, given, features=feat, verbose=False)


def _vandalise(c):
    """use and then wreck everything a finished cutter handed out (nothing of it may be shared with another cutter)"""
    try:
        out = c.output_mesh
        for p in out.vertices:
            p += 1000.
        for F in out.faces:
            for k in range(len(F)):
                F[k] = 0
    except Exception:
        pass
    for name in ("cut_edges", "cut_adj", "ref_vertex"):
        x = getattr(c, name, None)
        try:
            x.clear()
        except Exception:
            pass
    try:
        c.singularities.append(0)
        c.singu_set.add(0)
    except Exception:
        pass


def run_case(case):
    import random
    import warnings
    import numpy as np
    import mouette as M
    from mouette.mesh.mesh_data import RawMeshData
    from mouette.processing.cutting import SingularityCutter

    warnings.filterwarnings("ignore")
    obs = {"ok": False, "error": None}
    sess = case.get("session") or {}
    cfg_saved = (M.config.sort_neighborhoods, M.config.display_duplicate_attribute_warning)
    try:
        if sess.get("sort_off"):
            M.config.sort_neighborhoods = False
        raw = RawMeshData()
        raw.vertices += [np.array(p, dtype=float) for p in case["coords"]]
        raw.faces += [list(F) for F in case["faces"]]
        if sess.get("declared_edges"):
            # the caller declares the edges itself: another order, some stored as (b, a)
            r0 = random.Random(1000 * len(case["faces"]) + case["nv"])
            und = sorted({tuple(sorted((F[i], F[(i + 1) % 3]))) for F in case["faces"] for i in range(3)})
            r0.shuffle(und)
            raw.edges += [(b, a) if r0.random() < 0.5 else (a, b) for a, b in und]
        mesh = M.mesh.SurfaceMesh(raw)
        # the implementation must see the faces in the order given
        if [list(map(int, F)) for F in mesh.faces] != [list(F) for F in case["faces"]]:
            obs["error"] = "SurfaceMesh reordered the faces"
            return obs
        edges = [_ints(e) for e in mesh.edges]
        obs["edges"] = edges
        obs["interior"] = sorted(_ints(mesh.interior_edges))
        obs["boundary"] = sorted(_ints(mesh.boundary_edges))
        eid = {tuple(sorted(e)): i for i, e in enumerate(edges)}

        def mkfeat():
            if case.get("feat") is None:
                return None
            fe = set(obs["boundary"]) | {eid[tuple(sorted(p))] for p in case["feat"]}
            return _Feat(fe, {v for e in fe for v in edges[e]})
        feat = mkfeat()
        obs["feature_edges"] = sorted(feat.feature_edges) if feat is not None else None
        if sess.get("stale_attr"):
            # attributes with the names the cutter / the mesh use internally already exist and hold arbitrary values
            a = mesh.edges.create_attribute("singularity_tree", bool)
            for e in range(len(edges)):
                a[e] = True
            b = mesh.faces.create_attribute("barycenter", float, 3)
            for f in range(len(case["faces"])):
                b[f] = np.array([7., 7., 7.])
            c = mesh.edges.create_attribute("length", float)
            for e in range(len(edges)):
                c[e] = 0.
            if sess.get("dup_warning"):
                M.config.display_duplicate_attribute_warning = True   # create_attribute then hands back the existing one
        snap0 = _snapshot(mesh)
        names0 = _attr_names(mesh)
        call = sess.get("call") or "kw"
        decoy = None
        if sess.get("decoy") is not None:
            decoy = _make_cutter(SingularityCutter, mesh, list(sess["decoy"]), mkfeat(), call)
            decoy.run()
            _vandalise(decoy)
        form = case.get("form") or "list"
        late = int(case.get("late") or 0) if form == "list" else 0
        allsing = list(case["singus"])
        given = give(form, allsing[:len(allsing) - late], mesh)
        cutter = _make_cutter(SingularityCutter, mesh, given, feat, call)
        if late:
            given.extend(allsing[len(allsing) - late:])   # the caller completes its list before run()
        rec = {}

        def wrap(name, after):
            orig = getattr(cutter, name, None)
            if orig is None:      # private helper renamed / inlined: the intermediate set is simply not observed
                return

            def w(*a, **k):
                r = orig(*a, **k)
                after(r, *a)
                return r
            setattr(cutter, name, w)

        def flagged_of(attr):
            return sorted(int(e) for e in range(len(edges)) if attr[e])
        wrap("_build_singularity_spanning_tree_no_features", lambda r: rec.__setitem__("flagged", flagged_of(r)))
        wrap("_build_singularity_spanning_tree_with_features", lambda r: rec.__setitem__("flagged", flagged_of(r)))

        def after_cut(r, evisited):
            rec["evisited"] = sorted(_ints(evisited))
            rec["cut0"] = sorted(_ints(cutter.cut_edges))
        wrap("_build_cut_edges_tree", after_cut)
        if sess.get("bad_then_repair") and form == "list":
            # a vertex that does not exist is in the caller's list: run() raises; the caller repairs its list and runs again
            given.append(case["nv"] + 3)
            try:
                cutter.run()
                obs["repair_raised"] = None
            except Exception as ex:  # noqa
                obs["repair_raised"] = type(ex).__name__
            given.pop()
        if sess.get("reconfigure") and form == "list" and len(given) >= 1:
            # a first run with fewer singular vertices, its results are read; then the caller completes its list and runs again
            kept = list(given)
            k = max(1, len(kept) // 2)
            del given[len(kept) - k:]
            cutter.run()
            _ = (cutter.output_mesh, cutter.cut_graph if (given or obs["boundary"] or True) else None, cutter.ref_vertex)
            given.extend(kept[len(kept) - k:])
        cutter.run()
        for _ in range(int(sess.get("rerun") or 0)):
            cutter.run()
        if sess.get("post_decoy") is not None:
            d2 = _make_cutter(SingularityCutter, mesh, list(sess["post_decoy"]), mkfeat(), call)
            d2.run()
            _vandalise(d2)
        if decoy is not None:
            _vandalise(decoy)
        obs["has_features"] = bool(cutter.has_features)
        obs["flagged"] = rec.get("flagged")
        obs["evisited"] = rec.get("evisited")
        obs["cut0"] = rec.get("cut0")
        obs["cut"] = sorted(_ints(cutter.cut_edges))
        obs["cut_adj"] = sorted([int(v), sorted(_ints(ns))] for v, ns in cutter.cut_adj.items() if len(ns) > 0)

        def read_graph():
            try:
                g = cutter.cut_graph
                try:
                    sel = g.vertices.get_attribute("selection")
                    selected = sorted(int(i) for i in range(len(g.vertices)) if sel[i])
                except Exception:   # the marking attribute is a debugging aid the property does not name
                    selected = None
                obs["cut_graph"] = {"nv": len(g.vertices), "edges": sorted(sorted(_ints(e)) for e in g.edges),
                                    "selected": selected,
                                    "verts": [[int(x) if float(x) == int(x) else float(x) for x in p] for p in g.vertices]}
            except Exception as ex:  # noqa
                obs["cut_graph"] = {"error": "%s: %s" % (type(ex).__name__, ex)}
        if sess.get("access") == "graph_first":
            read_graph()
        out = cutter.output_mesh
        obs["out_same_object"] = cutter.output_mesh is out
        obs["out_faces"] = [_ints(F) for F in out.faces]
        ov = []
        for p in out.vertices:
            q = [float(x) for x in p]
            ov.append([int(x) if x == int(x) else x for x in q])
        obs["out_verts"] = ov
        obs["ref_vertex"] = sorted([int(u), int(v)] for u, v in cutter.ref_vertex.items())
        if sess.get("access") != "graph_first":
            read_graph()
        snap1 = _snapshot(mesh)
        obs["mesh_unchanged"] = snap1 == snap0 and snap0[1] == [list(F) for F in case["faces"]] \
            and snap0[0] == [[float(x) for x in p] for p in case["coords"]]
        obs["attr_leak"] = [n for n in _attr_names(mesh) if n not in names0]
        obs["ok"] = True
    except Exception as ex:  # noqa
        obs["error"] = "%s: %s" % (type(ex).__name__, ex)
        obs["trace"] = traceback.format_exc()[-1500:]
    finally:
        M.config.sort_neighborhoods, M.config.display_duplicate_attribute_warning = cfg_saved
    return obs


def main():
    payload = json.load(sys.stdin)
    res = [run_case(c) for c in payload.get("cases", [])]
    print("@@JSON " + json.dumps({"results": res}))


if __name__ == "__main__":
    main()
