"""Independent restatement of C17 on concrete outputs (search for a failing input).  Pure Python, exact
Fractions wherever a sign is decided.  Nothing here is shared with the Coq model or with mouette.

oracle(case, obs) -> list of (key, message); empty list = the property sentence holds on this case.
"""
import math
from fractions import Fraction as Fr

from . import c17_meshgen as G

TOL = 1e-9


def is_disk(nv, faces):
    d = {}
    for f in faces:
        if len(f) != 3 or len(set(f)) != 3:
            return False
        for k in range(3):
            e = (f[k], f[(k + 1) % 3])
            if e in d:
                return False
            d[e] = 1
    if {v for f in faces for v in f} != set(range(nv)):
        return False
    if G.euler(nv, faces) != 1:
        return False
    cyc = G.border_cycle(faces)
    if len(cyc) != 1 or cyc[0] is None:
        return False
    # connected
    adj = {v: set() for v in range(nv)}
    for f in faces:
        for k in range(3):
            adj[f[k]].add(f[(k + 1) % 3])
            adj[f[(k + 1) % 3]].add(f[k])
    seen = {0}
    st = [0]
    while st:
        x = st.pop()
        for y in adj[x]:
            if y not in seen:
                seen.add(y)
                st.append(y)
    if len(seen) != nv:
        return False
    # every vertex fan is a single umbrella: border vertices appear once in the border cycle (checked by border_cycle)
    return True


def solve_exact(A, B):
    """Fraction-free Gaussian elimination.  A: k x k list of Fractions, B: k x r.  Returns X (k x r of Fractions)
    or None if singular."""
    k = len(A)
    if k == 0:
        return []
    r = len(B[0])
    M = [[Fr(x) for x in A[i]] + [Fr(x) for x in B[i]] for i in range(k)]
    for c in range(k):
        p = None
        for i in range(c, k):
            if M[i][c] != 0:
                p = i
                break
        if p is None:
            return None
        M[c], M[p] = M[p], M[c]
        inv = 1 / M[c][c]
        M[c] = [x * inv for x in M[c]]
        for i in range(k):
            if i != c and M[i][c] != 0:
                f = M[i][c]
                M[i] = [x - f * y for x, y in zip(M[i], M[c])]
    return [M[i][k:] for i in range(k)]


def orient(p, q, r):
    """exact sign of the orientation determinant of three points given as pairs of Fractions"""
    d = (q[0] - p[0]) * (r[1] - p[1]) - (q[1] - p[1]) * (r[0] - p[0])
    return (d > 0) - (d < 0)


def frp(p):
    return (Fr(p[0]), Fr(p[1]))


def edge_weights(case, obs):
    """weight of every undirected edge: uniform -> number of adjacent faces / 2 ; cotan -> sum over adjacent faces
    of cot(opposite angle)/2 computed HERE from the input coordinates (independent of mouette)."""
    w = {}
    V = case["verts"]
    for f in case["faces"]:
        for k in range(3):
            a, b, c = f[k], f[(k + 1) % 3], f[(k + 2) % 3]
            if case["cotan"]:
                u = [V[a][i] - V[c][i] for i in range(3)]
                v = [V[b][i] - V[c][i] for i in range(3)]
                dot = sum(x * y for x, y in zip(u, v))
                cr = [u[1] * v[2] - u[2] * v[1], u[2] * v[0] - u[0] * v[2], u[0] * v[1] - u[1] * v[0]]
                val = dot / math.sqrt(sum(x * x for x in cr)) / 2
            else:
                val = 0.5
            key = (min(a, b), max(a, b))
            w[key] = w.get(key, 0.0) + val
    return w


def on_square(p, e=TOL):
    u, v = p
    return ((abs(u) <= e or abs(u - 1) <= e) and -e <= v <= 1 + e) or ((abs(v) <= e or abs(v - 1) <= e) and -e <= u <= 1 + e)


def side_lines(p, eps=1e-9):
    """which of the four side lines of the unit square the point lies on (within eps)"""
    u, v = p
    s = set()
    if abs(v) <= eps:
        s.add(0)
    if abs(u - 1) <= eps:
        s.add(1)
    if abs(v - 1) <= eps:
        s.add(2)
    if abs(u) <= eps:
        s.add(3)
    return s


def convex_cyclic(P):
    """P: positions (pairs of floats) of the border vertices in border order.  True iff they are pairwise distinct
    and are met in cyclic order along a convex closed curve: all consecutive triples turn the same (weak) way, at
    least one strictly, and the polygon winds exactly once."""
    n = len(P)
    Q = [frp(p) for p in P]
    if len(set(Q)) != n:
        seen = {}
        for i, q in enumerate(Q):
            if q in seen:
                return "border vertices number %d and %d of the cycle share the position %s" % (seen[q], i, tuple(P[i]))
            seen[q] = i
    sc = 1 + max(abs(x) for p in P for x in p)

    def turn(a, b, c):           # collinear up to round-off counts as straight (last-bit differences are free)
        d = (b[0] - a[0]) * (c[1] - a[1]) - (b[1] - a[1]) * (c[0] - a[0])
        return 0 if abs(d) <= TOL * sc * sc else orient(frp(a), frp(b), frp(c))
    signs = [turn(P[i], P[(i + 1) % n], P[(i + 2) % n]) for i in range(n)]
    if not (all(s >= 0 for s in signs) or all(s <= 0 for s in signs)) or not any(signs):
        return "border polygon is not convex (turn signs %s)" % signs
    tot = 0.0
    for i in range(n):
        a, b, c = P[i], P[(i + 1) % n], P[(i + 2) % n]
        u = (b[0] - a[0], b[1] - a[1])
        v = (c[0] - b[0], c[1] - b[1])
        tot += math.atan2(u[0] * v[1] - u[1] * v[0], u[0] * v[0] + u[1] * v[1])
    if abs(abs(tot) - 2 * math.pi) > 1e-6:
        return "border polygon winds %.3f times" % (tot / (2 * math.pi))
    return None


def exotic_form(case):
    """argument / state forms the property text does not speak about (the documented ones - keyword, positional, omitted,
    explicit default None - must be answered): flags that are not python bools, numpy integer face indices, a float32
    custom array, a pre-existing attribute named like the output"""
    c = case.get("call") or {}
    return (c.get("flags", "bool") != "bool" or c.get("idx", "int") != "int"
            or (case["mode"] == "custom" and c.get("cb_dtype", "f64") != "f64") or case.get("_pre") == "uv_garbage")


def close(a, b, tol=TOL):
    return abs(a - b) <= tol * (1 + abs(b))


def oracle(case, obs):
    out = []
    nv, faces = len(case["verts"]), case["faces"]
    chi = G.euler(nv, faces)
    st = obs.get("status", "error:none")
    if st.startswith("error"):
        return [("error", "the driver could not observe the embedding: " + st)]
    # ---- gate: whether a refusal is legitimate is decided from the INPUT (V-E+F); any exception class / message counts
    if chi != 1:
        if st != "rejected":
            out.append(("gate", "V-E+F = %d but the surface was not rejected (status %s)" % (chi, st)))
        return out
    if st == "rejected":
        if exotic_form(case):
            obs["_refused_unnamed_form"] = True      # argument forms the property does not name may be refused
            return []
        return [("gate", "V-E+F = 1 (a disk) but the embedding raised %s" % obs.get("exception"))]
    if (obs["nv"], obs["nf"]) != (nv, len(faces)) or obs["nv"] - obs["ne"] + obs["nf"] != chi:
        out.append(("gate", "mouette counts V,E,F = %s,%s,%s; the face list gives chi = %d" % (obs["nv"], obs["ne"], obs["nf"], chi)))
    if not case.get("disk", True):
        return out
    # ---- outputs agree (per-vertex run against per-corner run, flat meshes)
    uvV, uvC = obs["uv_vertex"], obs["uv_corner"]
    scale = 1 + max(abs(x) for p in uvV for x in p)
    for t, f in enumerate(faces):
        for k in range(3):
            v = f[k]
            c = 3 * t + k
            if c >= len(uvC) or max(abs(uvC[c][0] - uvV[v][0]), abs(uvC[c][1] - uvV[v][1])) > TOL * scale:
                out.append(("outputs", "corner %d of face %d (vertex %d): per-corner output %s, per-vertex output %s"
                            % (k, t, v, uvC[c] if c < len(uvC) else None, uvV[v])))
                break
        if out and out[-1][0] == "outputs":
            break
    for v in range(nv):
        fv = obs["flat_vertex"][v]
        if max(abs(fv[0] - uvV[v][0]), abs(fv[1] - uvV[v][1])) > TOL * scale or abs(fv[2]) > TOL:
            out.append(("outputs", "flat_mesh vertex %d is %s, uv is %s" % (v, obs["flat_vertex"][v], uvV[v])))
            break
        fc = obs["flat_corner"][v]
        if max(abs(fc[0] - uvV[v][0]), abs(fc[1] - uvV[v][1])) > TOL * scale or abs(fc[2]) > TOL:
            out.append(("outputs", "flat_mesh (corner storage) vertex %d is %s, uv is %s" % (v, fc, uvV[v])))
            break
    # (side effects on the input mesh / on the caller's array are not constrained by the text: recorded, not judged;
    #  their consequences - a later embedding of the same mesh going wrong - are judged in the sequence cases)
    va = obs.get("verts_after")
    if va is not None and any([float(x) for x in case["verts"][v]] != [float(x) for x in va[v]] for v in range(nv)):
        obs["_input_changed"] = True
    # ---- border placement, on my own border walk
    cyc = G.border_cycle(faces)[0]
    P = [uvV[v] for v in cyc]
    n = len(cyc)
    msg = convex_cyclic(P)
    if msg:
        out.append(("border/" + case["mode"], "border length %d, mode %s: %s" % (n, case["mode"], msg)))
    if case["mode"] == "circle":
        for v, p in zip(cyc, P):
            if abs(p[0] * p[0] + p[1] * p[1] - 1) > TOL:
                out.append(("border/circle", "border vertex %d at %s is not on the unit circle" % (v, p)))
                break
    elif case["mode"] == "square":
        for v, p in zip(cyc, P):
            if not on_square(p):
                out.append(("border/square", "border vertex %d at %s is not on the unit square" % (v, p)))
                break
        if n >= 4:
            for cnr in ((0.0, 0.0), (1.0, 0.0), (1.0, 1.0), (0.0, 1.0)):
                if not any(abs(p[0] - cnr[0]) <= TOL and abs(p[1] - cnr[1]) <= TOL for p in P):
                    out.append(("border/square", "no border vertex sits on the corner %s (border length %d)" % (cnr, n)))
                    break
    else:
        where = {v: k for k, v in enumerate(case["cycle"])}
        for v in cyc:
            want = [float(x) for x in case["poly"][where[v]]]
            if not (close(uvV[v][0], want[0]) and close(uvV[v][1], want[1])):
                out.append(("border/custom", "border vertex %d got %s, the polygon vertex meant for it is %s" % (v, uvV[v], case["poly"][where[v]])))
                break
    # ---- harmonic: every interior vertex at the weighted average of its neighbours
    w = edge_weights(case, obs)
    onb = set(cyc)
    nb = {v: [] for v in range(nv)}
    for (a, b), x in w.items():
        nb[a].append((b, x))
        nb[b].append((a, x))
    for v in range(nv):
        if v in onb:
            continue
        W = sum(x for _, x in nb[v])
        Wabs = sum(abs(x) for _, x in nb[v])
        for c in (0, 1):
            r = sum(x * (uvV[j][c] - uvV[v][c]) for j, x in nb[v])
            if abs(r) > 1e-8 * max(1.0, Wabs) * scale:
                out.append(("harmonic", "interior vertex %d (valence %d): sum_j w_j (p_j - p_i) = %.3e in coordinate %d (sum of weights %.4g)"
                            % (v, len(nb[v]), r, c, W)))
                break
        if out and out[-1][0] == "harmonic":
            break
    # ---- fold-free: all triangles the same strict orientation, when the property promises it
    wint = [x for (a, b), x in w.items() if a not in onb or b not in onb]
    guard = "yes"
    if case["cotan"] and wint:
        if min(wint) < -1e-12:
            guard = "negative-weights"
        elif min(wint) <= 1e-12:
            guard = "zero-weights"
    if case["mode"] == "square" and guard == "yes":
        for f in faces:
            s = side_lines(uvV[f[0]]) & side_lines(uvV[f[1]]) & side_lines(uvV[f[2]])
            if s:
                guard = "triangle-on-one-side"
                break
    Pf = [frp(p) for p in uvV]
    sg = [orient(Pf[a], Pf[b], Pf[c]) for a, b, c in faces]
    same = all(s > 0 for s in sg) or all(s < 0 for s in sg)
    if guard == "yes" and not same:
        bad = [i for i, s in enumerate(sg) if s != sg[0] or s == 0][:3]
        out.append(("foldfree", "triangles %s do not share one strict orientation (signs %s...) with %s weights on the %s"
                    % (bad, sg[:8], "cotangent" if case["cotan"] else "uniform", case["mode"])))
    # ---- exact solution of the uniform-weight system (independent assembly: graph Laplacian on interior vertices)
    if not case["cotan"] and guard == "yes":
        free = [v for v in range(nv) if v not in onb]
        pos = {v: k for k, v in enumerate(free)}
        A = [[Fr(0)] * len(free) for _ in free]
        B = [[Fr(0), Fr(0)] for _ in free]
        for v in free:
            A[pos[v]][pos[v]] = Fr(len(nb[v]))
            for j, _ in nb[v]:
                if j in pos:
                    A[pos[v]][pos[j]] -= 1
                else:
                    B[pos[v]][0] += Fr(uvV[j][0])
                    B[pos[v]][1] += Fr(uvV[j][1])
        X = solve_exact(A, B)
        if X is None:
            out.append(("harmonic", "the uniform-weight interior system is singular"))
        else:
            E = list(Pf)
            for v in free:
                E[v] = tuple(X[pos[v]])
                if max(abs(float(E[v][0]) - uvV[v][0]), abs(float(E[v][1]) - uvV[v][1])) > 1e-9 * scale:
                    out.append(("harmonic", "interior vertex %d: implementation %s, exact solution %s" % (v, uvV[v], (float(E[v][0]), float(E[v][1])))))
                    break
            sg2 = [orient(E[a], E[b], E[c]) for a, b, c in faces]
            if not (all(s > 0 for s in sg2) or all(s < 0 for s in sg2)):
                out.append(("foldfree", "exact uniform-weight solution: triangle orientations are not all strict and equal"))
    obs["_guard"] = guard
    return out
