"""Runs UnionFind / PriorityQueue histories on /repo's implementation and reports canonical observations.

stdin : {"uf": [ {"elts": [desc...], "ops": [[opname, args...], ...]}, ...], "pq": [ [[op,...],...], ...]}
stdout: '@@JSON ' + {"uf": [{"order": [...]|null, "obs": [obs,...]},...], "pq": [[obs,...],...]}
A uf case may carry "init" (constructor argument) and "ambient" (a second structure alive in the session); a pq
case may be {"ops": [...], "ambient": [[...], ...]} (several queues alive at once).
An element descriptor is ["i", 3] | ["t", [1,2]] | ["s", "ab"]; element codes are positions in "elts"
(the op ["getitem", i] carries a raw integer index instead, answered ["elt", code] or ["indexerror"]).
"""
import json
import math
import sys


def mk(desc):
    k, v = desc
    if k == "i":
        return int(v)
    if k == "t":
        return tuple(v)
    if k == "s":
        return str(v)
    if k == "n":
        return None
    raise ValueError(desc)


def build_uf(UnionFind, objs, code_of, init):
    """init: None / {"kind": "noarg"} -> UnionFind(); {"kind": "none"} -> UnionFind(None);
    {"kind": "list"|"tuple"|"set"|"frozenset"|"gen", "elems": [codes]} -> UnionFind(<that container>).
    Returns the structure and the order in which the container hands out its elements (codes; None = no container)."""
    if init is None or init.get("kind") == "noarg":
        return UnionFind(), None
    kind = init["kind"]
    if kind == "none":
        return UnionFind(None), None
    elems = [objs[c] for c in init["elems"]]
    keep = None
    if kind == "iter":
        cont, order = iter(list(elems)), list(init["elems"])
    elif kind == "map":
        cont, order = map(lambda e: e, list(elems)), list(init["elems"])
    elif kind == "dictkeys":
        keep = dict.fromkeys(elems)
        cont = keep.keys()
        order = [code_of(o) for o in keep]
    elif kind == "list":
        cont, order = list(elems), list(init["elems"])
    elif kind == "tuple":
        cont, order = tuple(elems), list(init["elems"])
    elif kind in ("set", "frozenset"):
        cont = set(elems) if kind == "set" else frozenset(elems)
        order = [code_of(o) for o in cont]  # iteration order of this very object
    elif kind == "gen":
        cont, order = (e for e in elems), list(init["elems"])
    else:
        raise ValueError(kind)
    uf = UnionFind(elements=cont) if init.get("kw") else UnionFind(cont)
    # the caller goes on using its container: the structure must not be affected
    if kind == "list":
        cont.extend(elems[:1])
        cont.reverse()
        del cont[:1]
    elif kind == "set":
        cont.clear()
    elif keep is not None:
        keep.clear()
    return uf, order


def run_uf(case):
    """Runs the case's history on one structure; if the case has an "ambient" history, a second structure (same
    element objects) is alive in the same session and its operations are interleaved (answers discarded): the two
    must not share state. Returns {"order": constructor iteration order or None, "obs": [...]}."""
    from mouette.utils.unionfind import UnionFind
    objs = [mk(d) for d in case["elts"]]
    code = {}
    for i, o in enumerate(objs):
        code[(type(o).__name__, o)] = i

    def enc(o):
        # numpy scalars / numpy strings coming back from the views are mapped back through python equality
        try:
            if hasattr(o, "item") and not isinstance(o, (tuple, str)):
                o = o.item()
            if hasattr(o, "tolist") and not isinstance(o, (tuple, str)):
                o = tuple(o.tolist())
            if isinstance(o, str):
                o = str(o)
            return code[(type(o).__name__, o)]
        except Exception:
            return None

    def enc_set(s):
        l = [enc(o) for o in s]
        if any(x is None for x in l):
            return ["other", "element of unknown identity in %r" % (s,)]
        if len(set(l)) != len(l):
            return ["other", "duplicate"]
        return ["set", sorted(l)]

    def do(uf, op):
        name = op[0]
        # `getitem` takes a raw integer index (possibly negative / out of range), every other op element codes
        args = [] if name == "getitem" else [objs[a] for a in op[1:]]
        try:
            if name == "getitem":
                i = op[1]
                if len(op) > 2 and op[2] == "i64":
                    import numpy as np
                    i = np.int64(i)
                r = uf[i]
                c = enc(r)
                return ["elt", c] if c is not None else ["other", "uf[%d] returned %r" % (op[1], r)]
            elif name == "add":
                uf.add(*args)      # whatever add/union return is free
                return ["none"]
            elif name == "union":
                uf.union(*args)
                return ["none"]
            elif name == "find":
                r = uf.find(*args)
                e = uf[r]
                fix = uf.find(e) == r
                c = enc(e)
                return ["elt", c] if (fix and c is not None) else ["other", "find returned a non-root"]
            elif name == "connected":
                r = uf.connected(*args)
                return ["bool", bool(r)]   # the type of the truth value is free
            elif name == "component":
                r = uf.component(*args)
                o = enc_set(list(r))   # any iterable of the elements
                if isinstance(r, set):
                    r.clear()   # the caller may do what it likes with the answer
                return o
            elif name == "roots":
                r = uf.roots()
                o = enc_set([uf[int(i)] for i in list(r)])
                if isinstance(r, set):
                    r.clear()
                return o
            elif name == "components":
                r = uf.components()
                l = [enc_set(c) for c in r]
                for c in r:
                    if isinstance(c, (list, set)):
                        c.clear()
                if isinstance(r, list):
                    r.clear()
                if any(c[0] != "set" for c in l):
                    return ["other", "bad component"]
                return ["sets", sorted(c[1] for c in l)]
            elif name == "mapping":
                r = uf.component_mapping()
                items = []
                bad = False
                for k, v in r.items():
                    ck, cv = enc(k), enc_set(v)
                    if ck is None or cv[0] != "set":
                        bad = True
                    items.append([ck, cv[1]])
                for v in list(r.values()):
                    if isinstance(v, set):
                        v.clear()
                if isinstance(r, dict):
                    r.clear()
                return ["other", "bad mapping"] if bad else ["map", sorted(items)]
            elif name == "len":
                return ["nat", len(uf)]
            elif name == "ncomps":
                return ["nat", int(uf.n_comps)]
            elif name == "contains":
                return ["bool", bool(args[0] in uf)]
            else:
                raise RuntimeError("unknown op " + name)
        except Exception as ex:  # noqa
            # a refusal: whether it is legitimate is decided by the oracle from the input alone; the class and the
            # message are recorded for information only
            return ["raised", type(ex).__name__, str(ex)[:80]]

    try:
        uf, order = build_uf(UnionFind, objs, enc, case.get("init"))
    except Exception as ex:  # noqa
        return {"order": None, "obs": [["other", "constructor: %s: %s" % (type(ex).__name__, ex)] for _ in case["ops"]]}
    amb = case.get("ambient")
    amb_uf, amb_ops = None, []
    if amb:
        try:
            amb_uf, _ = build_uf(UnionFind, objs, enc, amb.get("init"))
            amb_ops = amb.get("ops", [])
        except Exception:  # noqa
            amb_uf = None
    out = []
    for k, op in enumerate(case["ops"]):
        if amb_uf is not None and k < len(amb_ops):
            do(amb_uf, amb_ops[k])
        out.append(do(uf, op))
    return {"order": order, "obs": out}


def mkpayload(code):
    """payload object of a queue item: mutually unorderable kinds (the payload is declared compare=False)"""
    return [code, "p%d" % code, (code, "t"), None, complex(code, 1)][code % 5]


def run_pq(case):
    """case: a list of ops, or {"ops": [...], "ambient": [[ops], ...]}: the ambient queues are alive in the same
    session and their operations are interleaved (answers discarded)."""
    from mouette.utils.priority_queue import PriorityQueue
    ops = case["ops"] if isinstance(case, dict) else case
    ambient = case.get("ambient", []) if isinstance(case, dict) else []
    pq = PriorityQueue()
    others = [(PriorityQueue(), a) for a in ambient]
    out = []
    ident = {}   # id(PriorityItem) -> payload code (the items stay alive in `keep`)
    keep = []

    def pr(p):
        try:
            p = float(p)
        except Exception:  # noqa
            return repr(p)
        if p == math.inf:
            return "inf"
        if p == -math.inf:
            return "-inf"
        return p

    def val(w, rp="py"):
        w = math.inf if w == "inf" else (-math.inf if w == "-inf" else w)
        if rp in ("py", None):
            return w
        import numpy as np
        return {"int": int, "float": float, "bool": bool, "i64": np.int64, "f32": np.float32, "f64": np.float64}[rp](w)

    def code_of(it):
        return ident.get(id(it), -1)

    def data():
        # anything that is not one of the pushed items shows up as code -1 / a repr (never a crash of the harness)
        try:
            return [[code_of(it), pr(getattr(it, "priority", "not-an-item"))] for it in pq.data]
        except Exception as ex:  # noqa
            return [[-1, "data unreadable: %s" % type(ex).__name__]]

    def register(c):
        for it in (pq.data if isinstance(pq.data, list) else []):
            if id(it) not in ident:
                ident[id(it)] = c
                keep.append(it)

    for k, op in enumerate(ops):
        for q, aops in others:
            if k < len(aops):
                a = aops[k]
                try:
                    if a[0] == "push":
                        q.push(mkpayload(a[1]), val(a[2], a[3] if len(a) > 3 else "py"))
                    elif a[0] in ("pop", "get"):
                        q.pop()
                    elif a[0] == "empty":
                        q.empty()
                    else:
                        q.front
                except Exception:  # noqa
                    pass
        name = op[0]
        try:
            if name == "push":
                x, w = mkpayload(op[1]), val(op[2], op[3] if len(op) > 3 else "py")
                try:
                    # positional / mixed / keyword call forms
                    r = pq.push(x, w) if k % 3 == 0 else (pq.push(x, w=w) if k % 3 == 1 else pq.push(x=x, w=w))
                finally:
                    register(op[1])
                o = ["none"]   # whatever push returns is free
            elif name in ("pop", "get"):
                it = pq.pop() if name == "pop" else pq.get()
                o = ["noitem"] if it is None else ["item", code_of(it), pr(it.priority)]
            elif name == "empty":
                o = ["bool", bool(pq.empty())]
            elif name == "front":
                it = pq.front
                o = ["noitem"] if it is None else ["item", code_of(it), pr(it.priority)]
            else:
                raise RuntimeError(name)
        except Exception as ex:  # noqa
            # a refusal of any class; the oracle decides from the input whether it is legitimate
            o = ["raised", type(ex).__name__, str(ex)[:80]]
        out.append([o, data()])
    return out


def main():
    payload = json.load(sys.stdin)
    res = {"uf": [run_uf(c) for c in payload.get("uf", [])], "pq": [run_pq(c) for c in payload.get("pq", [])]}
    print("@@JSON " + json.dumps(res))


if __name__ == "__main__":
    main()
