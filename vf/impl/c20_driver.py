"""Runs UnionFind / PriorityQueue histories on /repo's implementation and reports canonical observations.

stdin : {"uf": [ {"elts": [desc...], "ops": [[opname, args...], ...]}, ...], "pq": [ [[op,...],...], ...]}
stdout: '@@JSON ' + {"uf": [[obs,...],...], "pq": [[obs,...],...]}
An element descriptor is ["i", 3] | ["t", [1,2]] | ["s", "ab"]; element codes are positions in "elts"
(the op ["getitem", i] carries a raw integer index instead, answered ["elt", code] or ["indexerror"]).
"""
import json
import math
import sys


def mk(desc):
    k, v = desc
    if k == "i":
        return int(v)
    if k == "t":
        return tuple(v)
    if k == "s":
        return str(v)
    raise ValueError(desc)


def run_uf(case):
    from mouette.utils.unionfind import UnionFind
    objs = [mk(d) for d in case["elts"]]
    code = {}
    for i, o in enumerate(objs):
        code[(type(o).__name__, o)] = i

    def enc(o):
        # numpy scalars / numpy strings coming back from the views are mapped back through python equality
        try:
            if hasattr(o, "item") and not isinstance(o, (tuple, str)):
                o = o.item()
            if hasattr(o, "tolist") and not isinstance(o, (tuple, str)):
                o = tuple(o.tolist())
            if isinstance(o, str):
                o = str(o)
            return code[(type(o).__name__, o)]
        except Exception:
            return None

    def enc_set(s):
        l = [enc(o) for o in s]
        if any(x is None for x in l):
            return ["other", "element of unknown identity in %r" % (s,)]
        if len(set(l)) != len(l):
            return ["other", "duplicate"]
        return ["set", sorted(l)]

    uf = UnionFind()
    out = []
    for op in case["ops"]:
        name = op[0]
        # `getitem` takes a raw integer index (possibly negative / out of range), every other op element codes
        args = [] if name == "getitem" else [objs[a] for a in op[1:]]
        try:
            if name == "getitem":
                r = uf[op[1]]
                c = enc(r)
                out.append(["elt", c] if c is not None else ["other", "uf[%d] returned %r" % (op[1], r)])
            elif name == "add":
                r = uf.add(*args)
                out.append(["none"] if r is None else ["other", repr(r)])
            elif name == "union":
                r = uf.union(*args)
                out.append(["none"] if r is None else ["other", repr(r)])
            elif name == "find":
                r = uf.find(*args)
                e = uf[r]
                fix = uf.find(e) == r
                c = enc(e)
                out.append(["elt", c] if (fix and c is not None) else ["other", "find returned a non-root"])
            elif name == "connected":
                r = uf.connected(*args)
                out.append(["bool", bool(r)] if isinstance(r, (bool,)) or type(r).__name__ == "bool_" else ["other", repr(r)])
            elif name == "component":
                r = uf.component(*args)
                out.append(enc_set(r) if isinstance(r, (set, frozenset)) else ["other", repr(r)])
            elif name == "roots":
                r = uf.roots()
                out.append(enc_set([uf[int(i)] for i in r]) if isinstance(r, (set, frozenset)) else ["other", repr(r)])
            elif name == "components":
                r = uf.components()
                l = [enc_set(c) for c in r]
                if any(c[0] != "set" for c in l):
                    out.append(["other", "bad component"])
                else:
                    out.append(["sets", sorted(c[1] for c in l)])
            elif name == "mapping":
                r = uf.component_mapping()
                items = []
                bad = False
                for k, v in r.items():
                    ck, cv = enc(k), enc_set(v)
                    if ck is None or cv[0] != "set":
                        bad = True
                    items.append([ck, cv[1]])
                out.append(["other", "bad mapping"] if bad else ["map", sorted(items)])
            elif name == "len":
                out.append(["nat", len(uf)])
            elif name == "ncomps":
                out.append(["nat", int(uf.n_comps)])
            elif name == "contains":
                out.append(["bool", args[0] in uf])
            else:
                raise RuntimeError("unknown op " + name)
        except IndexError:
            out.append(["indexerror"])
        except ValueError as ex:
            # the documented error for an absent element is ValueError('... is not an element')
            if "is not an element" in str(ex):
                out.append(["valueerror"])
            else:
                out.append(["other", "ValueError: %s" % ex])
        except Exception as ex:  # noqa
            out.append(["other", "%s: %s" % (type(ex).__name__, ex)])
    return out


def run_pq(ops):
    from mouette.utils.priority_queue import PriorityQueue
    pq = PriorityQueue()
    out = []

    def pr(p):
        if p == math.inf:
            return "inf"
        if p == -math.inf:
            return "-inf"
        return p

    def data():
        return [[it.x, pr(it.priority)] for it in pq.data]

    for op in ops:
        name = op[0]
        try:
            if name == "push":
                w = op[2]
                w = math.inf if w == "inf" else (-math.inf if w == "-inf" else w)
                r = pq.push(op[1], w)
                o = ["none"] if r is None else ["other", repr(r)]
            elif name in ("pop", "get"):
                it = pq.pop() if name == "pop" else pq.get()
                o = ["item", it.x, pr(it.priority)]
            elif name == "empty":
                r = pq.empty()
                o = ["bool", bool(r)] if isinstance(r, bool) else ["other", repr(r)]
            elif name == "front":
                it = pq.front
                o = ["item", it.x, pr(it.priority)]
            else:
                raise RuntimeError(name)
        except IndexError:
            o = ["indexerror"]
        except Exception as ex:  # noqa
            o = ["other", "%s: %s" % (type(ex).__name__, ex)]
        out.append([o, data()])
    return out


def main():
    payload = json.load(sys.stdin)
    res = {"uf": [run_uf(c) for c in payload.get("uf", [])], "pq": [run_pq(c) for c in payload.get("pq", [])]}
    print("@@JSON " + json.dumps(res))


if __name__ == "__main__":
    main()
