"""Runs mouette's spanning trees / forests on generated meshes and reports canonical observations.

stdin : {"cases": [case, ...]}   case = {"mesh": {"type": "polyline"|"surface"|"volume", "V": [[x,y,z]..],
                                          "E": [[a,b]..], "F": [[..]..], "C": [[..]..]},
                                  "op": "tree"|"forest"|"kruskal", "kind": "edge"|"face"|"cell", ...}
stdout: '@@JSON ' + {"results": [obs, ...]}

Besides what the tree objects expose (parent / children / edges / traverse(), forest.roots / trees / edges) the
driver reports the neighbour slots `put_neighbours_in_queue` iterates over, obtained through the same public
connectivity queries and in the same order (the `raw` input of the Coq model), and the element tables
(mesh.edges / faces / cells) from which the oracle rebuilds the adjacency on its own.
"""
import json
import signal
import sys
import warnings

warnings.filterwarnings("ignore")


class CaseTimeout(Exception):
    pass


def _alarm(signum, frame):
    raise CaseTimeout()


def build_mesh(spec):
    import mouette as M
    r = M.mesh.RawMeshData()
    r.vertices += [tuple(float(x) for x in v) for v in (spec.get("pre_V") or spec["V"])]
    if spec.get("E"):
        r.edges += [tuple(e) for e in spec["E"]]
    if spec.get("F"):
        r.faces += [tuple(f) for f in spec["F"]]
    if spec.get("C"):
        r.cells += [tuple(c) for c in spec["C"]]
    t = spec["type"]
    if t == "polyline":
        return M.mesh.PolyLine(r)
    if t == "surface":
        return M.mesh.SurfaceMesh(r)
    if t == "volume":
        return M.mesh.VolumeMesh(r)
    raise ValueError(t)


def ints(l):
    return [int(x) for x in l]


def opt(x):
    return None if x is None else int(x)


def tables(m, spec):
    out = {"edges_tab": [ints(e) for e in m.edges]}
    if spec["type"] in ("surface", "volume"):
        out["faces_tab"] = [ints(f) for f in m.faces]
    if spec["type"] == "volume":
        out["cells_tab"] = [ints(c) for c in m.cells]
    return out


def raw_slots(m, spec, kind, excl, with_border):
    """per element, the slots [target|None, excluded?, on_border?] in the order the tree code sees them"""
    from mouette.mesh.datatypes import PolyLine
    is_poly = isinstance(m, PolyLine)
    raw = []
    if kind == "edge":
        for v in m.id_vertices:
            row = []
            for nv in m.connectivity.vertex_to_vertices(v):
                forb = excl is not None and (m.connectivity.edge_id(v, nv) in excl)
                bord = False
                if with_border and not is_poly:
                    bord = bool(m.is_edge_on_border(v, nv))
                row.append([int(nv), bool(forb), bord])
            raw.append(row)
    elif kind == "face":
        for f in m.id_faces:
            row = []
            for e in m.connectivity.face_to_edges(f):
                forb = excl is not None and (e in excl)
                a, b = m.edges[e]
                nf = m.connectivity.opposite_face(a, b, f)
                row.append([opt(nf), bool(forb), False])
            raw.append(row)
    elif kind == "cell":
        for c in m.id_cells:
            row = []
            for F in m.connectivity.cell_to_face(c):
                forb = excl is not None and (F in excl)
                row.append([opt(m.connectivity.other_face_side(c, F)), bool(forb), False])
            raw.append(row)
    return raw, is_poly


_FORM = [0]


def _trav(t, order):
    """traverse(order) in its three call forms in turn: positional, keyword, and (for BFS) the default"""
    _FORM[0] += 1
    k = _FORM[0] % 3
    it = t.traverse(order) if k == 0 else (t.traverse(order=order) if (k == 1 or order != "BFS") else t.traverse())
    out = []
    for j, (node, par) in enumerate(it):
        out.append([int(node), opt(par)])
        if j > 100000:
            raise RuntimeError("traverse does not terminate")
    return out


def failed_call(obj):
    """a call that legitimately raises (unknown traversal order); the object is used again afterwards and must be as before"""
    try:
        for _ in obj.traverse("breadth-first?"):
            break
    except Exception:  # noqa
        pass


TREE_READS = {
    "root": lambda t: int(t.root),
    "parent": lambda t: [opt(p) for p in t.parent],
    "children": lambda t: [ints(c) for c in t.children],
    "edges": lambda t: [ints(e) for e in t.edges],
    "bfs": lambda t: _trav(t, "BFS"),
    "dfs": lambda t: _trav(t, "DFS"),
}
FOREST_READS = {
    "roots": lambda f: ints(f.roots),
    "n_trees": lambda f: int(f.n_trees),
    "tree_roots": lambda f: [int(t.root) for t in f.trees],
    "edges": lambda f: [ints(e) for e in f.edges],
    "bfs": lambda f: [[int(a), opt(b)] for a, b in f.traverse("BFS")],
    "dfs": lambda f: [[int(a), opt(b)] for a, b in f.traverse("DFS")],
    "getitem": lambda f: [int(f[k].root) for k in range(len(f.trees))],
}


def _orders(keys, k):
    """two different orders of the same reads, chosen by the case"""
    keys = sorted(keys)
    r = k % len(keys)
    first = keys[r:] + keys[:r]
    return first, list(reversed(first))


def snapshot(obj, reads, order):
    return {name: reads[name](obj) for name in order}


def canon(name, v):
    """what two reads of the same accessor must agree on: contents, not the order the property leaves free"""
    if name == "children":
        return [sorted(c) for c in v]
    if name in ("edges", "bfs", "dfs", "roots", "tree_roots", "getitem"):
        return sorted(v, key=repr)
    return v


def tree_obs(t, k=0, unstable=None, label="tree"):
    """every public table / accessor of the tree read twice, in two different orders: reading must neither
    change the answers nor depend on what was read before; the LAST reads are reported"""
    o1, o2 = _orders(TREE_READS, k)
    s1 = snapshot(t, TREE_READS, o1)
    failed_call(t)
    s2 = snapshot(t, TREE_READS, o2)
    if unstable is not None:
        for name in TREE_READS:
            if canon(name, s1[name]) != canon(name, s2[name]):
                unstable.append("%s.%s changed between two reads: %s then %s" % (label, name, str(s1[name])[:120], str(s2[name])[:120]))
    return s2


def forest_obs(f, k=0, unstable=None):
    """trees and forest-level accessors read twice in two interleavings; each tree's own tables are re-inspected
    after the forest-level reads"""
    res = {}
    o1, o2 = _orders(FOREST_READS, k)
    if k % 2 == 0:
        trees1 = [snapshot(t, TREE_READS, sorted(TREE_READS)) for t in f.trees]
        f1 = snapshot(f, FOREST_READS, o1)
    else:
        f1 = snapshot(f, FOREST_READS, o1)
        trees1 = [snapshot(t, TREE_READS, sorted(TREE_READS)) for t in f.trees]
    # the caller edits the list forest.edges handed out, and makes a call that raises: neither may show anywhere
    handed = f.edges
    handed.append((10 ** 6, 10 ** 6))
    del handed[:1]
    failed_call(f)
    f2 = snapshot(f, FOREST_READS, o2)
    trees2 = [tree_obs(t, k + j, unstable, "forest.trees[%d]" % j) for j, t in enumerate(f.trees)]
    f3 = snapshot(f, FOREST_READS, o1)
    if unstable is not None:
        for name in FOREST_READS:
            if not (canon(name, f1[name]) == canon(name, f2[name]) == canon(name, f3[name])):
                unstable.append("forest.%s changed between reads: %s / %s / %s" % (name, str(f1[name])[:100], str(f2[name])[:100], str(f3[name])[:100]))
        for j, (a, b) in enumerate(zip(trees1, trees2)):
            for name in TREE_READS:
                if canon(name, a[name]) != canon(name, b[name]):
                    unstable.append("forest.trees[%d].%s changed after forest-level reads: %s then %s" % (j, name, str(a[name])[:120], str(b[name])[:120]))
    res.update({k2: f3[k2] for k2 in ("roots", "n_trees", "tree_roots", "edges", "bfs", "dfs")})
    if f3["getitem"] != f3["tree_roots"]:
        res.setdefault("notes", []).append("forest[k] is not forest.trees[k]")
    res["trees"] = trees2
    return res


def prepare(m, case):
    """multi-step scenarios before the tree is built: geometric attributes computed persistently, then the vertices
    move; pre-existing attributes whose names collide with the ones the trees package computes"""
    import mouette as M
    pre = case.get("pre") or {}
    if pre.get("preset_length") is not None:
        vals = pre["preset_length"]
        a = m.edges.create_attribute("length", float, dense=bool(pre.get("dense", True)))
        for e in range(len(m.edges)):
            a[e] = float(vals[e % len(vals)])
    if pre.get("persist_length"):
        from mouette.attributes import edge_length
        edge_length(m)    # persistent=True by default: stored on mesh.edges as "length"
    if case["mesh"].get("pre_V"):
        for i, v in enumerate(case["mesh"]["V"]):
            m.vertices[i] = M.Vec(float(v[0]), float(v[1]), float(v[2]))


def as_repr(x, rep):
    """the same integer in another integer representation (roots come out of numpy code as often as not)"""
    if x is None or not rep or rep == "int":
        return x
    import numpy as np
    if rep == "uint8" and not (0 <= x < 256):
        rep = "int64"
    return {"int32": np.int32, "int64": np.int64, "uint8": np.uint8}[rep](x)


def excl_repr(excl, rep):
    """the exclusion set in another representation: a set of numpy integers, a frozenset"""
    if excl is None:
        return None
    if rep == "np":
        import numpy as np
        return set(np.int64(x) for x in excl)
    if rep == "frozen":
        return frozenset(excl)
    return set(excl)


def flag_repr(b, rep):
    if rep == "np":
        import numpy as np
        return np.bool_(b)
    if rep == "int":
        return 1 if b else 0
    return b


def run_case(case, meshes=None, keep=None):
    """one object built, computed and observed.  meshes = (mesh under test, mesh for the observations) when the caller
    shares them between several objects (sessions); keep: list receiving the object built"""
    import mouette as M  # noqa
    from mouette.processing import trees as T
    spec = case["mesh"]
    if meshes is None:
        m = build_mesh(spec)
        prepare(m, case)
        # the neighbour slots / element tables are read from a second mesh object built from the same data, so the
        # tree under test runs on cold connectivity caches
        m_obs = build_mesh(spec)
    else:
        m, m_obs = meshes
    omit = bool(case.get("omit_optional"))      # build WITHOUT the optional arguments (their defaults apply)
    root_arg = as_repr(case.get("root"), case.get("root_repr"))
    kind = case["kind"]
    op = case["op"]
    unstable = []
    ro = int(case.get("read_order", 0))
    calls = max(1, int(case.get("calls", 1)))

    def again(obj):
        # compute() called again, through both public ways
        for j in range(calls - 1):
            if (ro + j) % 2 == 0:
                obj = obj()
            else:
                obj.compute()
        return obj
    excl = case.get("excl")
    excl_set = None if excl is None else set(excl)          # what the oracle / the slot extraction use
    excl_arg = excl_repr(excl, case.get("excl_repr"))       # what the constructor receives (a set, in some representation)
    ab_arg = flag_repr(bool(case.get("avoid_boundary", False)), case.get("flag_repr"))
    form = case.get("call_form", "mixed")
    ROOTKW = {"edge": "starting_vertex", "face": "starting_face", "cell": "starting_cell"}
    EXKW = {"edge": "avoid_edges", "face": "forbidden_edges", "cell": "forbidden_faces"}

    def build(cls, named):
        """named: ordered (parameter name, value) pairs after `mesh`; the same call positionally, by keyword, or mixed"""
        if form == "pos":
            return cls(m, *[v for _, v in named])
        if form == "kw":
            return cls(mesh=m, **dict(named))
        return cls(m, *[v for _, v in named[:1]], **dict(named[1:]))

    res = {"op": op, "kind": kind}
    res.update(tables(m_obs, spec))
    if op == "tree":
        raw, poly = raw_slots(m_obs, spec, kind, excl_set, True)
        res.update({"raw": raw, "polyline": poly, "n": len(raw)})
        cls = {"edge": T.EdgeSpanningTree, "face": T.FaceSpanningTree, "cell": T.CellSpanningTree}[kind]
        try:
            named = [(ROOTKW[kind], root_arg)]
            if not omit:
                if kind == "edge":
                    named += [("avoid_boundary", ab_arg), ("avoid_edges", excl_arg)]
                else:
                    named += [(EXKW[kind], excl_arg)]
            t = build(cls, named)
            if keep is not None:
                keep.append(t)
            t = t()
            t = again(t)
            res["err"] = None
            res.update(tree_obs(t, ro, unstable))
        except CaseTimeout:
            raise
        except Exception as ex:  # noqa  - whatever its class: whether a refusal is legitimate is decided from the input
            res["err"] = type(ex).__name__
            res["err_msg"] = str(ex)[:200]
    elif op == "forest":
        raw, poly = raw_slots(m_obs, spec, kind, excl_set if kind == "face" else None, True)
        res.update({"raw": raw, "polyline": poly, "n": len(raw)})
        cls = {"edge": T.EdgeSpanningForest, "face": T.FaceSpanningForest, "cell": T.CellSpanningForest}[kind]
        f = build(cls, [("forbidden_edges", excl_arg)] if (kind == "face" and not omit) else [])
        if keep is not None:
            keep.append(f)
        f = f()
        f = again(f)
        res["err"] = None
        res.update(forest_obs(f, ro, unstable))
    elif op == "kruskal":
        from mouette.mesh.datatypes import PolyLine
        import numpy as np
        poly = isinstance(m, PolyLine)
        res["polyline"] = poly
        res["n"] = len(m.vertices)
        res["bord"] = [False if poly else bool(m_obs.is_edge_on_border(int(a), int(b))) for a, b in m_obs.edges]
        w = case["weights"]
        if isinstance(w, dict):
            # the custom weights, possibly scaled by a power of two (exact: the order and the minimum forests are the
            # same) and stored as python float / int / numpy.float32 / numpy.float64
            scale = 2.0 ** int(w.get("scale_exp", 0))
            num = {"float": float, "float32": np.float32, "float64": np.float64, "int": int}[w.get("num", "float")]
            vals = w["values"]
            if w.get("num") == "int":
                assert all(float(v) == int(v) for v in vals) and scale >= 1
            conv = [num(v * scale) for v in vals]
            if w["as"] == "dict":
                weights = {(np.int64(e) if w.get("np_keys") else e): conv[e] for e in range(len(m.edges))}
            else:
                weights = m.edges.create_attribute("c10w", float, dense=(w["as"] == "attr_dense"))
                for e in range(len(m.edges)):
                    weights[e] = float(conv[e])
            res["custom"] = [vals[e] if e < len(vals) else 0 for e in range(len(m.edges))]
            res["custom_float"] = [float(conv[e]) for e in range(len(m.edges))]
        else:
            weights = w
        try:
            named = [("starting_vertex", root_arg)]
            if not omit:
                named += [("avoid_boundary", ab_arg), ("weights", weights)]
            t = build(T.EdgeMinimalSpanningTree, named)
            if keep is not None:
                keep.append(t)
            t = t()
            t = again(t)
            res["err"] = None
            res.update(tree_obs(t, ro, unstable))
        except CaseTimeout:
            raise
        except Exception as ex:  # noqa  - whatever its class: whether a refusal is legitimate is decided from the input
            res["err"] = type(ex).__name__
            res["err_msg"] = str(ex)[:200]
        # float lengths as the implementation computes them (for the oracle's own minimum)
        from mouette.attributes import edge_length
        L = edge_length(m, persistent=False)
        res["len_float"] = [float(L[e]) for e in range(len(m.edges))]
    else:
        raise ValueError(op)
    res["unstable"] = unstable
    return res


EXCL_ATTR = {"EdgeSpanningTree": "_avoidedges", "EdgeMinimalSpanningTree": "_avoidedges",
             "FaceSpanningTree": "forbidden_edges", "CellSpanningTree": "forbidden_faces",
             "FaceSpanningForest": "forbidden_edges"}


def excl_of(obj):
    a = EXCL_ATTR.get(type(obj).__name__)
    return None if a is None else getattr(obj, a, None)


def obj_snapshot(obj):
    if hasattr(obj, "trees"):
        return {"roots": ints(obj.roots), "trees": [snapshot(t, TREE_READS, sorted(TREE_READS)) for t in obj.trees]}
    return snapshot(obj, TREE_READS, sorted(TREE_READS))


def canon_snap(sn):
    if "trees" in sn:
        return {"roots": sorted(sn["roots"]), "trees": sorted((canon_snap(t) for t in sn["trees"]), key=repr)}
    return {k: canon(k, v) for k, v in sn.items()}


def run_session(case):
    """several tree / forest objects in ONE interpreter session, on shared and on different mesh objects, built with and
    without their optional arguments; between constructions the caller adds ids to the public exclusion set of earlier
    objects.  Every object is reported as an ordinary case (checked against the exclusions IT was given), and at the end
    every object is looked at again: later constructions / mutations must not have changed its tables, and its exclusion
    set must hold what it was given plus what was explicitly added to it"""
    meshes = [(build_mesh(sp), build_mesh(sp)) for sp in case["meshes"]]
    objs, results, snaps, expected, subs, first_result = [], [], [], [], [], []
    for step in case["steps"]:
        if step["do"] == "build":
            sub = dict(step["case"])
            sub["mesh"] = case["meshes"][sub["mesh_id"]]
            keep = []
            try:
                res = run_case(sub, meshes=meshes[sub["mesh_id"]], keep=keep)
            except CaseTimeout:
                raise
            except Exception as ex:  # noqa
                import traceback
                res = {"op": sub.get("op"), "kind": sub.get("kind"), "crash": "%s: %s" % (type(ex).__name__, ex),
                       "tb": traceback.format_exc()[-600:]}
            obj = keep[0] if keep else None
            objs.append(obj)
            subs.append(sub)
            first_result.append(len(results))
            results.append(res)
            ok = obj is not None and res.get("err") is None and "crash" not in res
            snaps.append(obj_snapshot(obj) if ok else None)
            res_index = len(results) - 1
            ex0 = excl_of(obj) if obj is not None else None
            given = sub.get("excl")
            want = None
            if obj is not None and type(obj).__name__ in EXCL_ATTR:
                if given is not None and not sub.get("omit_optional") and not (sub["op"] == "kruskal"):
                    want = set(given)
                elif type(obj).__name__ in ("FaceSpanningTree", "CellSpanningTree"):
                    want = set()
            expected.append(want)
            if ok and (None if ex0 is None else set(ex0)) != want:
                # (how an object stores its exclusions is not fixed by the property: information only)
                res.setdefault("notes", []).append(
                    "exclusion set right after construction is %s, the object was given %s" % (None if ex0 is None else sorted(ex0), None if want is None else sorted(want)))
        elif step["do"] == "move":
            # the mesh is edited (vertices moved) between two objects: later objects see the new geometry only
            import mouette as M
            mm = meshes[step["mesh_id"]][0]
            for i, v in enumerate(step["V"]):
                mm.vertices[i] = M.Vec(float(v[0]), float(v[1]), float(v[2]))
        elif step["do"] == "mutate":
            k = step["obj"]
            tgt = excl_of(objs[k]) if k < len(objs) and objs[k] is not None else None
            if tgt is not None:
                try:
                    tgt.update(step["ids"])
                    expected[k] = set(expected[k] or set()) | set(step["ids"])
                except Exception:  # noqa  (an immutable container: nothing to add to)
                    pass
        else:
            # reconfigure an existing tree through its public attributes (root, exclusion set) and compute() again:
            # the object must then be the tree of the NEW configuration (tables and traversals alike)
            k = step["obj"]
            obj = objs[k] if k < len(objs) else None
            sub = subs[k] if k < len(objs) else None
            if obj is None or snaps[k] is None:
                results.append({"skipped": True})
                continue
            m, m_obs = meshes[sub["mesh_id"]]
            if sub["op"] != "forest":
                n_el = len(obj.parent)
                if step.get("fail_first"):
                    # a run that legitimately raises (the root is not an element), then the object is used again
                    obj.root = n_el + 2
                    try:
                        obj.compute()
                    except Exception:  # noqa
                        pass
                obj.root = as_repr(step["root"] % n_el, step.get("root_repr"))
            tgt = excl_of(obj)          # the caller's live set (the constructor stores the object it was given)
            if tgt is not None:
                try:
                    tgt.update(step["ids"])
                    expected[k] = set(expected[k] or set()) | set(step["ids"])
                except Exception:  # noqa
                    tgt = None
            # run it again through either public spelling: obj() must run compute() again, like obj.compute()
            if step.get("spelling", "call") == "call":
                ret = obj()
                if ret is not obj:
                    results[first_result[k]].setdefault("notes", []).append("obj() does not return the object")
            else:
                obj.compute()
            res = dict(results[first_result[k]])
            unstable = []
            if sub["op"] in ("tree", "forest") and tgt is not None:
                ex_now = set(tgt)
                raw, _ = raw_slots(m_obs, case["meshes"][sub["mesh_id"]], sub["kind"],
                                   ex_now if (sub["op"] == "tree" or sub["kind"] == "face") else None, True)
                res["raw"] = raw
            if sub["op"] == "forest":
                res.update(forest_obs(obj, step.get("read_order", 0), unstable))
                res["update"] = {"obj": k}
            else:
                res.update(tree_obs(obj, step.get("read_order", 0), unstable))
                res["update"] = {"obj": k, "root": int(obj.root)}
            if tgt is not None:
                res["update"]["excl"] = sorted(int(x) for x in tgt)
            if sub["op"] == "kruskal":
                from mouette.attributes import edge_length
                L = edge_length(m, persistent=False)
                res["len_float"] = [float(L[e]) for e in range(len(m.edges))]
            res["unstable"] = unstable
            snaps[k] = obj_snapshot(obj)
            results.append(res)
    for k, obj in enumerate(objs):
        if snaps[k] is None:
            continue
        now = obj_snapshot(obj)
        if canon_snap(now) != canon_snap(snaps[k]):
            results[first_result[k]].setdefault("unstable", []).append("object %d of the session: its tables changed after later constructions / mutations of other objects" % k)
        ex1 = excl_of(obj)
        if (None if ex1 is None else set(ex1)) != expected[k]:
            results[first_result[k]].setdefault("notes", []).append(
                "object %d of the session: its exclusion set is %s, expected %s (given + explicitly added)"
                % (k, None if ex1 is None else sorted(ex1)[:12], None if expected[k] is None else sorted(expected[k])[:12]))
    return {"op": "session", "kind": "session", "results": results}


def main():
    payload = json.load(sys.stdin)
    import mouette  # noqa  (imported before any alarm is armed: the import can be slow on a loaded machine)
    from mouette.processing import trees  # noqa
    signal.signal(signal.SIGALRM, _alarm)
    out = []
    for case in payload["cases"]:
        signal.alarm(int(payload.get("case_timeout", 60)))
        try:
            out.append(run_session(case) if case.get("op") == "session" else run_case(case))
        except CaseTimeout:
            out.append({"op": case.get("op"), "kind": case.get("kind"), "crash": "timeout (non-termination?)"})
        except Exception as ex:  # noqa
            import traceback
            out.append({"op": case.get("op"), "kind": case.get("kind"),
                        "crash": "%s: %s" % (type(ex).__name__, ex), "tb": traceback.format_exc()[-600:]})
        finally:
            signal.alarm(0)
    print("@@JSON " + json.dumps({"results": out}))


if __name__ == "__main__":
    main()
