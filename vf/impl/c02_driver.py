"""Builds meshes with /repo's mouette from raw data given in several container forms (or through a file) and reports
canonical observations of the finished object (C02).

stdin : {"cases": [case, ...]}
  case = {"verts": [[x,y(,z)],...]  integers in QUARTER units (coordinate = value/4; width 1, 2 or 3),
          "vints": bool (give the coordinates as Python/numpy ints when they are whole numbers),
          "edges": [[a,b],...], "faces": [[...],...], "cells": [[...],...],
          "eattrs": [{"name": str, "dense": bool, "default": int|null, "type": "int"|"bool",
                      "set": [[idx,val],...]  (sparse: assignment order)  |  "vals": [v,...] (dense, one per edge)}],
          "cfg": [complete_faces_from_cells, complete_edges_from_faces], "dim": null|0..3,
          "routes": [route, ...], "rewraps": k, "edits": [[edit,...] per rewrap], "script": [[op, args...], ...]}
  route = "list" | "tuple" | "numpy" | "append"          rows of RawMeshData given in that container form
        | "from_arrays"                                   mouette.mesh.from_arrays
        | "file2d_obj" | "file2d_off"                     a hand-written file (vertex lines with as many columns as the
                                                          points have, `l`/`f` lines), loaded with mouette.mesh.load
        | "save_obj" | "save_off" | "save_mesh" | "save_geogram_ascii"
                                                          the mesh built through lists, saved by mouette, loaded again
stdout: '@@JSON ' + {"cases": [ {route: {"stages": [obs0, obs1, ...], "script": [answers], ("input": raw_obs)}
                                        | {"skip": reason} | {"crash": ...}} ]}
  obs = {"err": ExceptionClassName} |
        {"class", "verts" (quarter units), "vec_ok", "float_ok", "edges", "faces", "cells", "fc": [elem, adj], "cc", "cf",
         "eattrs": [{"name","kind","default","keys","vals"}], "types": {"edges"|"faces"|"cells": [row type names]}}
  For a file route "input" is what the importer produced (the RawMeshData before prepare, corner containers included):
  it is the raw input of that route.  stage 0 is the first construction, stage i>0 the i-th
  `RawMeshData(mesh)` -> edits -> instantiate again.
"""
import json
import os
import sys
import tempfile


def as_int(x):
    import numpy as np
    if isinstance(x, (bool, np.bool_)):
        return int(bool(x))
    if isinstance(x, (int, np.integer)):
        return int(x)
    if isinstance(x, (float, np.floating)) and float(x) == int(x):
        return int(x)
    raise ValueError("not an integer: %r" % (x,))


def row(r):
    return [as_int(v) for v in r]


def q4(x):
    """coordinate -> quarter units (exact)"""
    y = float(x) * 4
    if y != int(y):
        raise ValueError("coordinate %r is not a multiple of 1/4" % (x,))
    return int(y)


def tname(r):
    import numpy as np
    inner = sorted({type(v).__name__ for v in r}) if isinstance(r, (list, tuple, np.ndarray)) else []
    return type(r).__name__ + "[" + ",".join(inner) + "]"


def observe_attrs(cont, ne):
    from mouette.mesh.mesh_attributes import ArrayAttribute
    at = []
    for name in cont.attributes:
        a = cont.get_attribute(name)
        dense = isinstance(a, ArrayAttribute)
        d = {"name": name, "kind": "dense" if dense else "sparse", "default": as_int(a.default_value)}
        if a.elemsize != 1:
            raise ValueError("attribute %s has elem_size %d" % (name, a.elemsize))
        if dense:
            d["keys"] = None
            d["n"] = int(a.n_elem)
        else:
            d["keys"] = sorted(as_int(k) for k in a._data.keys())
        d["vals"] = [as_int(a[i]) for i in range(ne)]
        at.append(d)
    return at


def observe(m):
    import numpy as np
    import mouette as M
    o = {"class": type(m).__name__}
    o["verts"] = [[q4(x) for x in v] for v in m.vertices]
    o["vec_ok"] = all(isinstance(v, M.Vec) for v in m.vertices)
    o["float_ok"] = all(np.asarray(v).dtype == np.float64 for v in m.vertices)
    has = lambda n: hasattr(m, n)
    o["edges"] = [row(e) for e in m.edges] if has("edges") else None
    o["faces"] = [row(f) for f in m.faces] if has("faces") else None
    o["cells"] = [row(c) for c in m.cells] if has("cells") else None
    o["types"] = {k: sorted({tname(r) for r in getattr(m, k)}) for k in ("edges", "faces", "cells") if has(k)}
    for k, n in (("fc", "face_corners"), ("cc", "cell_corners"), ("cf", "cell_faces")):
        if has(n):
            c = getattr(m, n)
            o[k] = [row(c._elem), row(c._adj)]
        else:
            o[k] = None
    o["eattrs"] = observe_attrs(m.edges, len(m.edges)) if has("edges") else []
    return o


def observe_raw(r):
    """the RawMeshData an importer produced, as the raw input of the route"""
    o = {"verts": [[q4(x) for x in v] for v in r.vertices],
         "edges": [row(e) for e in r.edges], "faces": [row(f) for f in r.faces], "cells": [row(c) for c in r.cells],
         "fc": [row(r.face_corners._elem), row(r.face_corners._adj)],
         "cc": [row(r.cell_corners._elem), row(r.cell_corners._adj)],
         "cf": [row(r.cell_faces._elem), row(r.cell_faces._adj)]}
    if any(len(e) != 2 for e in o["edges"]):
        raise ValueError("edge of arity != 2")
    o["eattrs"] = []
    for a in observe_attrs(r.edges, len(r.edges)):
        if a["kind"] == "dense":
            o["eattrs"].append({"name": a["name"], "dense": True, "default": a["default"], "type": "int", "vals": a["vals"]})
        else:
            o["eattrs"].append({"name": a["name"], "dense": False, "default": a["default"], "type": "int",
                                "set": [[k, a["vals"][k]] for k in a["keys"] if k < len(a["vals"])]})
    return o


IDTYPE = "int64"   # numpy index type of the current case (int64 / int32 / uint8 / pyint = numpy scalars inside a list)


def conv_rows(rows, route):
    import numpy as np
    if route in ("list", "append"):
        return [list(r) for r in rows]
    if route == "tuple":
        return [tuple(r) for r in rows]
    if route == "numpy":
        if IDTYPE == "pyint":   # a plain list whose items are numpy scalars of several integer types
            kinds = [np.int64, np.int32, np.uint16, np.int16]
            return [[kinds[(i + j) % 4](x) if -30000 < x < 30000 and (x >= 0 or (i + j) % 4 != 2) else np.int64(x)
                     for j, x in enumerate(r)] for i, r in enumerate(rows)]
        dt = {"int64": np.int64, "int32": np.int32, "uint8": np.uint8}[IDTYPE]
        if dt is np.uint8 and any(not (0 <= x < 256) for r in rows for x in r):
            dt = np.int64
        return [np.array(r, dtype=dt) for r in rows]
    raise ValueError(route)


def conv_vertex(v, route, vints):
    import numpy as np
    if vints and all(x % 4 == 0 for x in v):
        c = [x // 4 for x in v]
        return np.array(c, dtype=np.int64) if route == "numpy" else tuple(c) if route == "tuple" else c
    c = [x / 4.0 for x in v]
    return np.array(c, dtype=float) if route == "numpy" else tuple(c) if route == "tuple" else c


def peek(raw):
    """read the public properties of the raw data (must not influence what is built later)"""
    return [raw.dimensionality, len(raw.id_vertices), len(raw.id_edges), len(raw.id_faces), len(raw.id_cells),
            len(raw.id_facecorners), len(raw.id_cellcorners), raw.vertices.empty(), raw.edges.size, len(raw.faces)]


def new_raw(callform):
    from mouette.mesh.mesh_data import RawMeshData
    return [RawMeshData, lambda: RawMeshData(None), lambda: RawMeshData(mesh=None)][callform % 3]()


def build_raw(case, route, keep=None):
    """fills a fresh RawMeshData group by group (vertices, edges + attributes, faces, cells), reading its public properties
    after `case["peek"]` groups; `keep` receives the very objects handed to the containers"""
    r = new_raw(case.get("callform", 0))
    pk = case.get("peek")
    vs = [conv_vertex(v, route, case.get("vints")) for v in case["verts"]]
    E, F, C = (conv_rows(case[k], route) for k in ("edges", "faces", "cells"))
    if keep is not None:
        keep.update(vs=vs, E=E, F=F, C=C)
    if pk == 0:
        peek(r)
    if route == "append":
        for v in vs:
            r.vertices.append(v)
    else:
        r.vertices += vs
    if pk == 1:
        peek(r)
    if route == "append":
        for e in E:
            r.edges.append(e)
    else:
        r.edges += E
    for a in case.get("eattrs", []):
        ty = {"int": int, "bool": bool}[a["type"]]
        cv = (lambda x: bool(x)) if ty is bool else (lambda x: int(x))
        dv = None if a["default"] is None else cv(a["default"])
        if a["dense"]:
            at = r.edges.create_attribute(a["name"], ty, dense=True, default_value=dv)
            for i, v in enumerate(a["vals"]):
                at[i] = cv(v)
        else:
            at = r.edges.create_attribute(a["name"], ty, default_value=dv)
            for i, v in a["set"]:
                at[i] = cv(v)
    if pk == 2:
        peek(r)
    if route == "append":
        for f in F:
            r.faces.append(f)
    else:
        r.faces += F
    if pk == 3:
        peek(r)
    if route == "append":
        for c in C:
            r.cells.append(c)
    else:
        r.cells += C
    if pk == 4:
        peek(r)
    return r


def instantiate(raw, dim, case):
    """the build, in one of the accepted call forms"""
    import numpy as np
    import mouette as M
    from mouette.mesh.mesh import _instanciate_raw_mesh_data
    for _ in range(int(case.get("prep_calls", 0))):
        raw.prepare()
    if dim is not None and case.get("dimrepr"):
        dim = np.int64(dim)
    cf = case.get("callform", 0) % 4
    if cf == 1:
        return _instanciate_raw_mesh_data(mesh_data=raw, dim=dim)
    if cf == 2 and dim is None:
        return _instanciate_raw_mesh_data(raw)
    if cf == 3:
        raw.prepare()
        d = max(-1 if dim is None else int(dim), raw.dimensionality)
        if 0 <= d <= 3:
            return [M.mesh.PointCloud, M.mesh.PolyLine, M.mesh.SurfaceMesh, M.mesh.VolumeMesh][d](raw)
    return _instanciate_raw_mesh_data(raw, dim)


def disturb(keep):
    """mutate, in place, every object that was handed to the containers (the built mesh must not notice)"""
    import numpy as np
    for v in keep.get("vs", []):
        if isinstance(v, (list, np.ndarray)) and len(v):
            v[0] = v[0] + 1
    for k in ("E", "F", "C"):
        for r in keep.get(k, []):
            if isinstance(r, (list, np.ndarray)) and len(r):
                r[0] = r[0] + 1
    for k in ("V", "Ea", "Fa", "Ca"):
        a = keep.get(k)
        if a is not None and a.size:
            a.flat[0] = a.flat[0] + 1


def spoil(m):
    """mutate a twin mesh in place as hard as the public containers allow"""
    import mouette as M
    if len(m.vertices):
        m.vertices[0] += 1.0
    m.vertices.append(M.Vec(9., 9., 9.))
    for k in ("edges", "faces", "cells"):
        if hasattr(m, k):
            getattr(m, k).append((0, 0, 0, 0) if k == "cells" else (0, 0) if k == "edges" else (0, 0, 0))
    for k in ("face_corners", "cell_corners", "cell_faces"):
        if hasattr(m, k):
            getattr(m, k).append(5, 5)
    if hasattr(m, "edges") and m.edges.has_attribute("hard_edges"):
        m.edges.get_attribute("hard_edges")[0] = True


def fmt(x):
    return repr(x / 4.0)


def write_file2d(case, ext, path):
    """a file written by hand: vertex lines with as many columns as the points have"""
    with open(path, "w") as f:
        if ext == "obj":
            for v in case["verts"]:
                f.write("v " + " ".join(fmt(x) for x in v) + "\n")
            for a, b in case["edges"]:
                f.write("l %d %d\n" % (a + 1, b + 1))
            for F in case["faces"]:
                f.write("f " + " ".join(str(i + 1) for i in F) + "\n")
        else:
            f.write("OFF\n%d %d %d\n" % (len(case["verts"]), len(case["faces"]) + len(case["edges"]), 0))
            for v in case["verts"]:
                f.write(" ".join(fmt(x) for x in v) + "\n")
            for F in case["faces"]:
                f.write("%d " % len(F) + " ".join(str(i) for i in F) + "\n")
            for a, b in case["edges"]:
                f.write("2 %d %d\n" % (a, b))


def apply_edit(raw, e, route):
    """one edit of a re-wrapped mesh: ["clear_fc"|"clear_cc"|"clear_cf"|"clear_edges"|"clear_faces"|"clear_cells"] |
    ["add_vertex", [x,y,z] (quarter units)] | ["add_edge"|"add_face"|"add_cell", row] |
    ["set_face"|"set_cell", i, row] (index i mod len) | ["pop_face"|"pop_cell"]"""
    k = e[0]
    if k == "peek":
        peek(raw)
        return
    cont = {"fc": "face_corners", "cc": "cell_corners", "cf": "cell_faces", "edges": "edges", "faces": "faces",
            "cells": "cells", "edge": "edges", "face": "faces", "cell": "cells"}
    if k.startswith("clear_"):
        getattr(raw, cont[k[6:]]).clear()
    elif k == "add_vertex":
        raw.vertices.append([x / 4.0 for x in e[1]])
    elif k.startswith("add_"):
        getattr(raw, cont[k[4:]]).append(conv_rows([e[1]], route)[0])
    elif k.startswith("set_"):
        c = getattr(raw, cont[k[4:]])
        if len(c):
            c[e[1] % len(c)] = conv_rows([e[2]], route)[0]
    elif k.startswith("pop_"):
        c = getattr(raw, cont[k[4:]])
        if len(c):
            c._data.pop()
    else:
        raise ValueError(e)


# ---------------------------------------------------------------------- later behaviour: typed answers
def canon(r, depth=0):
    """A typed canonical form: container kinds (list / tuple / ndarray / set) and numpy scalars are kept visible, because
    later behaviour (==, hashing, serialisation) depends on them."""
    import numpy as np
    import mouette as M
    if r is None:
        return None
    if isinstance(r, (bool,)):
        return {"bool": r}
    if isinstance(r, np.bool_):
        return {"npbool": bool(r)}
    if isinstance(r, int):
        return r
    if isinstance(r, np.integer):
        return {"npint": int(r)}
    if isinstance(r, (float, np.floating)):
        return {"float": round(float(r), 9)}
    if isinstance(r, str):
        return {"str": r}
    if depth > 3:
        return {"deep": type(r).__name__}
    if isinstance(r, M.Vec):
        return {"Vec": [canon(x, depth + 1) for x in r]}
    if isinstance(r, np.ndarray):
        return {"A": [canon(x, depth + 1) for x in r.tolist()] if r.ndim == 1 else r.tolist()}
    if isinstance(r, (set, frozenset)):
        return {"S": sorted((canon(x, depth + 1) for x in r), key=repr)}
    if isinstance(r, tuple):
        return {"T": [canon(x, depth + 1) for x in r]}
    if isinstance(r, (list, range)):
        return {"L": [canon(x, depth + 1) for x in r]}
    return {"other": type(r).__name__}


ARGK = {"cell_to_face": "c", "cell_to_edge": "c", "cell_to_vertex": "c", "vertex_to_cell": "v", "face_to_cells": "f",
        "edge_to_cell": "e", "in_cell_index": "cv", "in_cell_face_index": "cf", "cell_to_cell": "c", "face_to_vertices": "f",
        "face_to_edges": "f", "face_to_faces": "f", "vertex_to_faces": "v", "vertex_to_vertices": "v",
        "vertex_to_edges": "v", "is_vertex_on_border": "v", "in_face_index": "fv", "edge_to_vertices": "e",
        "row_face": "f", "row_cell": "c", "row_edge": "e", "attr_edges": "e", "attr_faces": "f", "attr_vertices": "v"}
SORTED = {"vertex_to_cell", "face_to_cells", "edge_to_cell", "vertex_to_faces", "vertex_to_vertices", "vertex_to_edges",
          "face_to_faces", "cell_to_cell", "cell_to_edge"}


def resolve(m, name, args):
    """index arguments are reduced modulo the size of the container they index (None: container absent/empty)"""
    kinds = ARGK.get(name)
    if kinds is None:
        return list(args)
    size = {"v": len(m.vertices), "e": len(m.edges) if hasattr(m, "edges") else 0,
            "f": len(m.faces) if hasattr(m, "faces") else 0, "c": len(m.cells) if hasattr(m, "cells") else 0}
    out = []
    for k, a in zip(kinds, args):
        if size[k] == 0:
            return None
        out.append(a % size[k])
    if name.startswith("attr_"):
        return out + list(args[len(kinds):])
    return out


for _n in ("boundary_edges", "interior_edges", "boundary_vertices", "interior_vertices", "boundary_faces", "interior_faces",
           "is_triangular", "is_quad", "is_tetrahedral", "copy", "merge"):
    ARGK[_n] = ""


FILE_OPS = {"copy", "merge", "attr_vertices", "save", "row_edge", "row_face", "row_cell"}


def counts(m):
    return [type(m).__name__, len(m.vertices)] + [len(getattr(m, k)) if hasattr(m, k) else None for k in ("edges", "faces", "cells")]


def first_rows(m):
    return [canon(getattr(m, k)[0]) if hasattr(m, k) and len(getattr(m, k)) else None for k in ("edges", "faces", "cells")]


def run_op(m, name, args):
    import mouette as M
    cn = getattr(m, "connectivity", None)
    if name in ("boundary_edges", "interior_edges", "boundary_vertices", "interior_vertices", "boundary_faces", "interior_faces"):
        return canon(list(getattr(m, name)))
    if name in ("is_edge_on_border", "is_vertex_on_border", "is_face_on_border", "is_triangular", "is_quad", "is_tetrahedral"):
        return canon(getattr(m, name)(*args))
    if name == "row_face":       # the row the public container hands back, and python behaviour that depends on its type
        return canon(m.faces[args[0]])
    if name == "row_cell":
        return canon(m.cells[args[0]])
    if name == "row_edge":
        r = m.edges[args[0]]
        return [canon(r), json.dumps(list(r)) if all(isinstance(x, int) for x in r) else "not-json"]
    if name == "copy":
        m2 = M.mesh.copy(m)
        return [counts(m2), first_rows(m2)]
    if name == "merge":
        m2 = M.mesh.merge([m, m])
        return [counts(m2), first_rows(m2)]
    if name in ("attr_edges", "attr_faces", "attr_vertices"):
        cont = getattr(m, name[5:])
        a = cont.create_attribute("c02_probe_%s" % name, int, dense=bool(args[1] % 2))
        a[args[0]] = 7
        return [canon(a[args[0]]), canon(a[(args[0] + 1) % len(cont)])]
    if name == "save":
        ext = ["mesh", "obj", "geogram_ascii"][args[0] % 3]
        fd, path = tempfile.mkstemp(suffix="." + ext)
        os.close(fd)
        try:
            M.mesh.save(m, path)
            m2 = M.mesh.load(path)
            return [ext, counts(m2), first_rows(m2)]
        finally:
            try:
                os.remove(path)
            except OSError:
                pass
    r = getattr(cn, name)(*args)
    if name in SORTED and r is not None:
        return {"sorted": sorted(canon(x) if not isinstance(x, int) else x for x in r), "kind": type(r).__name__,
                "elts": sorted({type(x).__name__ for x in r})}
    return canon(r)


def run_script(m, script):
    obs = []
    for q in script:
        name, args = q[0], q[1:]
        args = resolve(m, name, args)
        if args is None:
            obs.append(["skip"])
            continue
        try:
            obs.append(["ok", run_op(m, name, args)])
        except RecursionError:
            obs.append(["err", "RecursionError"])
        except Exception as ex:
            obs.append(["err", type(ex).__name__, str(ex)[:80]])
    return obs


def from_arrays_call(case, keep=None):
    import numpy as np
    import mouette as M
    w = len(case["verts"][0]) if case["verts"] else 3
    dt = np.int64 if case.get("vints") and all(x % 4 == 0 for v in case["verts"] for x in v) else float
    V = (np.array(case["verts"], dtype=float) / 4.0).astype(dt).reshape(len(case["verts"]), w)
    idt = {"int64": np.int64, "int32": np.int32, "uint8": np.uint8, "pyint": np.int64}[IDTYPE]
    if idt is np.uint8 and any(not (0 <= x < 256) for k in ("edges", "faces", "cells") for r in case[k] for x in r):
        idt = np.int64
    arr = {k: (np.array(case[n], dtype=idt) if case[n] else None) for k, n in (("E", "edges"), ("F", "faces"), ("C", "cells"))}
    if keep is not None:
        keep.update(V=V, Ea=arr["E"], Fa=arr["F"], Ca=arr["C"])
    cf = case.get("callform", 0) % 3
    if cf == 0:      # absent arrays omitted
        return M.mesh.from_arrays(V, **{k: a for k, a in arr.items() if a is not None})
    if cf == 1:      # every optional argument passed explicitly (None when absent), by keyword
        return M.mesh.from_arrays(V=V, E=arr["E"], F=arr["F"], C=arr["C"], raw=False)
    return M.mesh.from_arrays(V, arr["E"], arr["F"], arr["C"])   # positionally


def run_route(case, route):
    global IDTYPE
    import numpy as np
    import mouette as M
    from mouette.mesh.mesh_data import RawMeshData
    from mouette.mesh.mesh import _instanciate_raw_mesh_data
    rep = [bool, int, np.bool_][case.get("cfgrepr", 0) % 3]   # the switches are read at run time, in any truthy form
    M.config.complete_faces_from_cells = rep(case["cfg"][0])
    M.config.complete_edges_from_faces = rep(case["cfg"][1])
    M.config.sort_neighborhoods = True
    IDTYPE = case.get("idtype", "int64")
    stages = []
    m = None
    raw = None
    res = {}
    rows_route = route if route in ("list", "tuple", "numpy", "append") else "list"
    dim = None if route == "from_arrays" else case.get("dim")
    keep = {}

    def build_first():
        if route == "from_arrays":
            return None, from_arrays_call(case, keep)
        r0 = build_raw(case, route, keep)
        return r0, None

    if route.startswith("file2d_") or route.startswith("save_"):
        ext = route.split("_", 1)[1]
        fd, path = tempfile.mkstemp(suffix="." + ext)
        os.close(fd)
        try:
            try:
                if route.startswith("file2d_"):
                    write_file2d(case, ext, path)
                else:
                    src = _instanciate_raw_mesh_data(build_raw(case, "list"), case.get("dim"))
                    M.mesh.save(src, path)
                raw = M.mesh.load(path, raw=True)
                res["input"] = observe_raw(raw)
            except Exception as ex:   # writing / parsing files is not what C02 is about
                return {"skip": "%s: %s" % (type(ex).__name__, str(ex)[:100])}
        finally:
            try:
                os.remove(path)
            except OSError:
                pass
        try:
            m = instantiate(raw, dim, case)
            stages.append(observe(m))
        except Exception as ex:
            m = None
            stages.append({"err": type(ex).__name__, "msg": str(ex)[:120]})
    else:
        try:
            raw, m = build_first()
            if m is None and case.get("callform", 0) % 5 == 4:
                # the class is instantiated directly on raw data that was NOT prepared before (documented use of raw
                # containers): the class is the one the standard route gives for equal data
                cls = type(_instanciate_raw_mesh_data(raw, dim))
                raw = build_raw(case, route, keep)
                m = cls(raw)
            if m is None:
                m = instantiate(raw, dim, case)
            o = observe(m)
            if case.get("twin"):
                # (a) the caller's objects are mutated after the build; (b) a second mesh is built from equal arguments and
                #     spoiled in place: the first mesh must read exactly as before
                disturb(keep)
                o["alias_ok"] = json.dumps(observe(m), sort_keys=True) == json.dumps(o, sort_keys=True)
                raw2, m2 = build_first()
                if m2 is None:
                    m2 = instantiate(raw2, dim, case)
                o2 = observe(m2)
                spoil(m2)
                o["twin_same"] = json.dumps(o2, sort_keys=True) == json.dumps({k: v for k, v in o.items() if k != "alias_ok"}, sort_keys=True)
                o["spoil_ok"] = json.dumps(observe(m), sort_keys=True) == json.dumps(o2, sort_keys=True)   # (information only)
            stages.append(o)
        except Exception as ex:
            m = None
            e = {"err": type(ex).__name__, "msg": str(ex)[:120]}   # class and message: information only
            if route == "from_arrays" and keep:
                # a refusal must leave the caller's arrays as they were
                fresh = {}
                try:
                    from_arrays_call(dict(case, edges=[], faces=[], cells=[]), fresh)
                    ref = {"V": fresh.get("V")}
                    e["inputs_ok"] = bool(ref["V"] is None or (keep["V"].shape == ref["V"].shape and (keep["V"] == ref["V"]).all())) \
                        and all(keep.get(k) is None or (keep[k] == np.array(case[n], dtype=keep[k].dtype)).all()
                                for k, n in (("Ea", "edges"), ("Fa", "faces"), ("Ca", "cells")))
                except Exception:
                    pass
            stages.append(e)
    edits = case.get("edits") or []
    for k in range(int(case.get("rewraps", 0))):
        if m is None and raw is None:
            break        # nothing to build again from (from_arrays raised)
        try:
            if m is not None:
                raw = RawMeshData(m)
            # else: the construction raised (a cell's face was missing): the SAME raw data object is edited and built again
            m = None
            for e in (edits[k] if k < len(edits) else []):
                apply_edit(raw, e, rows_route)
            m = instantiate(raw, dim, case)
            stages.append(observe(m))
        except Exception as ex:
            m = None
            stages.append({"err": type(ex).__name__, "msg": str(ex)[:120]})
    if m is None:
        return dict(res, stages=stages, script=[])
    script = case.get("script", [])
    if "input" in res:   # a file may give another class than the raw data (cells lost in .obj, ...): container-level ops only
        script = [q for q in script if q[0] in FILE_OPS]
    return dict(res, stages=stages, script=run_script(m, script))


def main():
    payload = json.load(sys.stdin)
    out = []
    for case in payload["cases"]:
        res = {}
        for route in case["routes"]:
            try:
                res[route] = run_route(case, route)
            except Exception as ex:
                res[route] = {"crash": "%s: %s" % (type(ex).__name__, ex)}
        out.append(res)
    print("@@JSON " + json.dumps({"cases": out}))


if __name__ == "__main__":
    main()
