"""Builds meshes with /repo's mouette from raw data given in several container forms and reports canonical
observations of the finished object (C02).

stdin : {"cases": [case, ...]}
  case = {"verts": [[x,y(,z)],...]  (integers), "edges": [[a,b],...], "faces": [[...],...], "cells": [[...],...],
          "eattrs": [{"name": str, "dense": bool, "default": int|null, "type": "int"|"bool",
                      "set": [[idx,val],...]  (sparse: assignment order)  |  "vals": [v,...] (dense, one per edge)}],
          "cfg": [complete_faces_from_cells, complete_edges_from_faces], "dim": null|0..3,
          "routes": ["list"|"tuple"|"numpy"|"append"|"from_arrays", ...], "rewraps": k,
          "edits": [[edit,...] per rewrap]  (applied to RawMeshData(mesh) before it is built again; see apply_edit),
          "script": [[query, args...], ...]}
stdout: '@@JSON ' + {"cases": [ {route: {"stages": [obs0, obs1, ...], "script": [answers]} | {"crash": ...}} ]}
  obs = {"err": ExceptionClassName} |
        {"class": name, "verts": [[..]], "edges": [[a,b]], "faces", "cells", "fc": [elem, adj], "cc": [elem, adj],
         "cf": [elem, adj], "eattrs": [{"name","kind","default","keys","vals"}], "shape_ok": bool}
  stage 0 is the first construction, stage i>0 the i-th `RawMeshData(mesh)` -> instantiate again.
Index rows are reported as integer lists whatever container the implementation holds them in; `shape_ok` says
that every edge is a 2-tuple (the immutable form the code promises).
"""
import json
import sys


def as_int(x):
    import numpy as np
    if isinstance(x, (bool, np.bool_)):
        return int(bool(x))
    if isinstance(x, (int, np.integer)):
        return int(x)
    if isinstance(x, (float, np.floating)) and float(x) == int(x):
        return int(x)
    raise ValueError("not an integer: %r" % (x,))


def row(r):
    return [as_int(v) for v in r]


def observe(m):
    import mouette as M
    from mouette.mesh.mesh_attributes import ArrayAttribute
    o = {"class": type(m).__name__}
    o["verts"] = [row(v) for v in m.vertices]
    o["vec_ok"] = all(isinstance(v, M.Vec) for v in m.vertices)
    has = lambda n: hasattr(m, n)
    o["edges"] = [row(e) for e in m.edges] if has("edges") else None
    o["shape_ok"] = all(isinstance(e, tuple) and len(e) == 2 for e in m.edges) if has("edges") else True
    o["faces"] = [row(f) for f in m.faces] if has("faces") else None
    o["cells"] = [row(c) for c in m.cells] if has("cells") else None
    for k, n in (("fc", "face_corners"), ("cc", "cell_corners"), ("cf", "cell_faces")):
        if has(n):
            c = getattr(m, n)
            o[k] = [row(c._elem), row(c._adj)]
        else:
            o[k] = None
    at = []
    if has("edges"):
        ne = len(m.edges)
        for name in m.edges.attributes:
            a = m.edges.get_attribute(name)
            dense = isinstance(a, ArrayAttribute)
            d = {"name": name, "kind": "dense" if dense else "sparse", "default": as_int(a.default_value)}
            if dense:
                d["keys"] = None
                d["n"] = int(a.n_elem)
            else:
                d["keys"] = sorted(as_int(k) for k in a._data.keys())
            d["vals"] = [as_int(a[i]) for i in range(ne)]
            at.append(d)
    o["eattrs"] = at
    return o


def conv_rows(rows, route):
    import numpy as np
    if route in ("list", "append"):
        return [list(r) for r in rows]
    if route == "tuple":
        return [tuple(r) for r in rows]
    if route == "numpy":
        return [np.array(r, dtype=np.int64) for r in rows]
    raise ValueError(route)


def build_raw(case, route):
    import numpy as np
    import mouette as M
    from mouette.mesh.mesh_data import RawMeshData
    r = RawMeshData()
    if route == "numpy":
        vs = [np.array(v, dtype=float) for v in case["verts"]]
    elif route == "tuple":
        vs = [tuple(float(x) for x in v) for v in case["verts"]]
    else:
        vs = [[float(x) for x in v] for v in case["verts"]]
    E, F, C = (conv_rows(case[k], route) for k in ("edges", "faces", "cells"))
    if route == "append":
        for v in vs:
            r.vertices.append(v)
        for e in E:
            r.edges.append(e)
        for f in F:
            r.faces.append(f)
        for c in C:
            r.cells.append(c)
    else:
        r.vertices += vs
        r.edges += E
        r.faces += F
        r.cells += C
    for a in case.get("eattrs", []):
        ty = {"int": int, "bool": bool}[a["type"]]
        cv = (lambda x: bool(x)) if ty is bool else (lambda x: int(x))
        dv = None if a["default"] is None else cv(a["default"])
        if a["dense"]:
            at = r.edges.create_attribute(a["name"], ty, dense=True, default_value=dv)
            for i, v in enumerate(a["vals"]):
                at[i] = cv(v)
        else:
            at = r.edges.create_attribute(a["name"], ty, default_value=dv)
            for i, v in a["set"]:
                at[i] = cv(v)
    return r


def apply_edit(raw, e, route):
    """one edit of a re-wrapped mesh: ["clear_fc"|"clear_cc"|"clear_cf"|"clear_edges"|"clear_faces"|"clear_cells"] |
    ["add_vertex", [x,y,z]] | ["add_edge"|"add_face"|"add_cell", row] | ["set_face"|"set_cell", i, row] (index i mod len) |
    ["pop_face"|"pop_cell"]"""
    k = e[0]
    cont = {"fc": "face_corners", "cc": "cell_corners", "cf": "cell_faces", "edges": "edges", "faces": "faces",
            "cells": "cells", "edge": "edges", "face": "faces", "cell": "cells"}
    if k.startswith("clear_"):
        getattr(raw, cont[k[6:]]).clear()
    elif k == "add_vertex":
        raw.vertices.append([float(x) for x in e[1]])
    elif k.startswith("add_"):
        getattr(raw, cont[k[4:]]).append(conv_rows([e[1]], route)[0])
    elif k.startswith("set_"):
        c = getattr(raw, cont[k[4:]])
        if len(c):
            c[e[1] % len(c)] = conv_rows([e[2]], route)[0]
    elif k.startswith("pop_"):
        c = getattr(raw, cont[k[4:]])
        if len(c):
            c._data.pop()
    else:
        raise ValueError(e)


def canon(r):
    import numpy as np
    if r is None:
        return ["none"]
    if isinstance(r, (bool, np.bool_)):
        return ["bool", bool(r)]
    if isinstance(r, (int, np.integer)):
        return ["int", int(r)]
    if isinstance(r, np.ndarray):
        r = r.tolist()
    if isinstance(r, (set, frozenset)):
        r = sorted(r, key=repr)
    if isinstance(r, (list, tuple, range)):
        out = []
        for x in r:
            if x is None:
                out.append(None)
            elif isinstance(x, (int, np.integer)) and not isinstance(x, (bool, np.bool_)):
                out.append(int(x))
            elif isinstance(x, (list, tuple, np.ndarray)):
                out.append(canon(x)[1] if canon(x)[0] == "list" else repr(x))
            else:
                return ["other", repr(r)[:200]]
        return ["list", out]
    return ["other", repr(r)[:200]]


SET_LIKE = {"vertex_to_cell", "face_to_cells", "edge_to_cell", "cell_to_face_hex", "vertex_to_faces_unsorted"}


ARGK = {"cell_to_face": "c", "cell_to_edge": "c", "vertex_to_cell": "v", "face_to_cells": "f", "edge_to_cell": "e",
        "in_cell_index": "cv", "in_cell_face_index": "cf", "cell_to_cell": "c", "face_to_vertices": "f",
        "face_to_edges": "f", "face_to_faces": "f", "vertex_to_faces": "v", "vertex_to_vertices": "v",
        "vertex_to_edges": "v", "is_vertex_on_border": "v", "in_face_index": "fv", "edge_to_vertices": "e"}


def resolve(m, name, args):
    """index arguments are reduced modulo the size of the container they index (None: container absent/empty)"""
    kinds = ARGK.get(name)
    if kinds is None:
        return list(args)
    size = {"v": len(m.vertices), "e": len(m.edges) if hasattr(m, "edges") else 0,
            "f": len(m.faces) if hasattr(m, "faces") else 0, "c": len(m.cells) if hasattr(m, "cells") else 0}
    out = []
    for k, a in zip(kinds, args):
        if size[k] == 0:
            return None
        out.append(a % size[k])
    return out + list(args[len(kinds):])


def run_script(m, script):
    obs = []
    cn = getattr(m, "connectivity", None)
    for q in script:
        name, args = q[0], q[1:]
        if name == "sorted":
            ra = resolve(m, args[0], args[1:])
            args = None if ra is None else [args[0]] + ra
        else:
            args = resolve(m, name, args)
        if args is None:
            obs.append(["skip"])
            continue
        try:
            if name in ("boundary_edges", "interior_edges", "boundary_vertices", "interior_vertices",
                        "boundary_faces", "interior_faces"):
                r = list(getattr(m, name))
            elif name in ("is_edge_on_border", "is_vertex_on_border", "is_face_on_border", "is_triangular",
                          "is_quad", "is_tetrahedral", "ith_vertex_of_face"):
                r = getattr(m, name)(*args)
            elif name == "sorted":  # ["sorted", query, args...]: answer compared as a set
                r = getattr(cn, args[0])(*args[1:])
                r = sorted(int(x) for x in r)
            else:
                r = getattr(cn, name)(*args)
                if isinstance(r, list):
                    r = list(r)
            obs.append(canon(r))
        except RecursionError:
            obs.append(["err", "RecursionError"])
        except Exception as ex:
            obs.append(["err", type(ex).__name__])
    return obs


def run_route(case, route):
    import numpy as np
    import mouette as M
    from mouette.mesh.mesh_data import RawMeshData
    from mouette.mesh.mesh import _instanciate_raw_mesh_data
    M.config.complete_faces_from_cells = bool(case["cfg"][0])
    M.config.complete_edges_from_faces = bool(case["cfg"][1])
    M.config.sort_neighborhoods = True
    stages = []
    m = None
    try:
        if route == "from_arrays":
            V = np.array(case["verts"], dtype=float).reshape(len(case["verts"]), len(case["verts"][0]) if case["verts"] else 3)
            kw = {}
            if case["edges"]:
                kw["E"] = np.array(case["edges"], dtype=np.int64)
            if case["faces"]:
                kw["F"] = np.array(case["faces"], dtype=np.int64)
            if case["cells"]:
                kw["C"] = np.array(case["cells"], dtype=np.int64)
            m = M.mesh.from_arrays(V, **kw)
        else:
            raw = build_raw(case, route)
            m = _instanciate_raw_mesh_data(raw, case.get("dim"))
        stages.append(observe(m))
    except Exception as ex:
        stages.append({"err": type(ex).__name__, "msg": str(ex)[:120]})
        return {"stages": stages, "script": []}
    edits = case.get("edits") or []
    for k in range(int(case.get("rewraps", 0))):
        try:
            raw = RawMeshData(m)
            for e in (edits[k] if k < len(edits) else []):
                apply_edit(raw, e, "list" if route == "from_arrays" else route)
            m = _instanciate_raw_mesh_data(raw, None if route == "from_arrays" else case.get("dim"))
            stages.append(observe(m))
        except Exception as ex:
            stages.append({"err": type(ex).__name__, "msg": str(ex)[:120]})
            return {"stages": stages, "script": []}
    return {"stages": stages, "script": run_script(m, case.get("script", []))}


def main():
    payload = json.load(sys.stdin)
    out = []
    for case in payload["cases"]:
        res = {}
        for route in case["routes"]:
            try:
                res[route] = run_route(case, route)
            except Exception as ex:
                res[route] = {"crash": "%s: %s" % (type(ex).__name__, ex)}
        out.append(res)
    print("@@JSON " + json.dumps({"cases": out}))


if __name__ == "__main__":
    main()
