"""Runs mouette's TutteEmbedding on /repo's working tree and reports canonical observations.

stdin : {"cases": [ {"verts": [[x,y,z],..], "faces": [[a,b,c],..], "mode": "circle"|"square"|"custom",
                     "cotan": bool, "cycle": [v,...] (generator's own border cycle, custom mode only),
                     "call": {"mode","cotan","verbose": "pos"|"kw"|"omit", "corners": "kw"|"omit", "cb","uv_attr": "omit"|"none"}
                             (optional: how the constructor's optional arguments are written, see call_form),
                     "poly": [[x,y],..] (custom mode: target polygon, poly[k] is meant for cycle[k]),
                     "seq": [{"mode","cotan","pre": null|"cotangent"|"angles"}, ..] (optional: run these embeddings one
                             after the other on ONE mesh object; obs = {"status":"seq","steps":[obs,..]}) }, ...]}
stdout: '@@JSON ' + {"obs": [ obs, ... ]}

obs = {"status": "ok" | "rejected" (the constructor or run() raised; "exception" = class: message, informative only)
                 | "error:<text>" (the driver itself failed),
       "nv","ne","nf"            : sizes mouette reports (len(mesh.vertices/edges/faces)),
       "free","bnd"              : the index lists the implementation partitions with (public attributes /
                                   extract_border_cycle, exactly as tutte.run chooses them),
       "custom_rows"             : the rows handed to custom_boundary (custom mode),
       "uv_vertex"               : per-vertex output (save_on_corners=False), one [u,v] per vertex,
       "uv_corner"               : per-corner output (save_on_corners=True), one [u,v] per corner,
       "flat_vertex","flat_corner": xy of flat_mesh for both storages,
       "cot"                     : the per-corner cotangents the Laplacian used (cotan mode)}
Both storages are produced by two independent runs on two fresh meshes built from the same data.
Only public API / public attributes are read.  Floats travel as JSON doubles (repr round trip).
"""
import json
import sys
import traceback


def build(case):
    import mouette as M
    import numpy as np
    idx = {"np64": np.int64, "np32": np.int32}.get((case.get("call") or {}).get("idx"), int)
    d = M.mesh.RawMeshData()
    d.vertices += [M.Vec(float(x), float(y), float(z)) for x, y, z in case["verts"]]
    d.faces += [tuple(idx(a) for a in f) for f in case["faces"]]
    return M.mesh.SurfaceMesh(d)


def flag(form, b):
    """a boolean argument in the representation the call form asks for: bool / the int 1 or 0 / numpy.bool_"""
    import numpy as np
    r = form.get("flags", "bool")
    return int(b) if r == "int" else np.bool_(b) if r == "np" else bool(b)


def call_form(form, mode, cotan, corners):
    """How the constructor's optional arguments are written.  Signature: TutteEmbedding(mesh, boundary_mode="circle",
    use_cotan=False, verbose=False, **kwargs[save_on_corners=True, custom_boundary=None, uv_attr=None]).
    form[k] in: "pos" (positional), "kw" (keyword), "omit" (left out - only honoured when the wanted value IS the
    default), "none" (custom_boundary / uv_attr passed explicitly with their default None)."""
    args, kw = [], {}
    fm, fc, fv = form.get("mode", "kw"), form.get("cotan", "kw"), form.get("verbose", "kw")
    if fm == "omit" and mode != "circle":
        fm = "kw"
    if fc == "omit" and cotan:
        fc = "kw"
    if fc == "pos" and fm != "pos":
        fc = "kw"
    if fv == "pos" and fc != "pos":
        fv = "kw"
    if fm == "pos":
        args.append(mode)
    elif fm == "kw":
        kw["boundary_mode"] = mode
    if fc == "pos":
        args.append(flag(form, cotan))
    elif fc == "kw":
        kw["use_cotan"] = flag(form, cotan)
    if fv == "pos":
        args.append(False)
    elif fv == "kw":
        kw["verbose"] = False
    if not (form.get("corners", "kw") == "omit" and corners):
        kw["save_on_corners"] = flag(form, corners)
    if form.get("cb") == "none":
        kw["custom_boundary"] = None
    if form.get("uv_attr") == "none":
        kw["uv_attr"] = None
    return args, kw


def one_run(case, corners, mesh=None):
    import numpy as np
    from mouette.processing.parametrization import TutteEmbedding
    from mouette.processing.border import extract_border_cycle
    out = {}
    if mesh is None:
        mesh = build(case)
    out["nv"], out["ne"], out["nf"] = len(mesh.vertices), len(mesh.edges), len(mesh.faces)
    kw = {}
    if case["mode"] == "custom":
        bv = list(mesh.boundary_vertices)
        where = {v: k for k, v in enumerate(case["cycle"])}
        rows = [[float(case["poly"][where[v]][0]), float(case["poly"][where[v]][1])] for v in bv]
        dt = np.float32 if (case.get("call") or {}).get("cb_dtype") == "f32" else float
        kw["custom_boundary"] = np.array(rows, dtype=dt).reshape((len(rows), 2))
        out["custom_rows"] = rows
        mode = "circle"
    else:
        mode = case["mode"]
    args, kw2 = call_form(case.get("call") or {}, mode, bool(case["cotan"]), corners)
    kw2.update(kw)
    out["call"] = "TutteEmbedding(mesh%s%s)" % ("".join(", %r" % a for a in args),
                                                 "".join(", %s=%s" % (k, "<array>" if k == "custom_boundary" and v is not None else repr(v))
                                                         for k, v in kw2.items()))
    invoke = (case.get("call") or {}).get("invoke", "run")
    peek = bool((case.get("call") or {}).get("peek"))

    def read_public(w):
        # every public attribute / property of the worker (enumerated from the object) is READ; values are not judged
        for name in dir(w):
            if not name.startswith("_"):
                try:
                    val = getattr(w, name)
                    if not callable(val):
                        repr(type(val))
                except Exception:
                    pass
    try:
        t = TutteEmbedding(mesh, *args, **kw2)
        if peek:
            read_public(t)           # before run(): flat_mesh, uvs, ... are read while nothing is computed yet
        if invoke == "call":
            t()                      # what the call returns is not constrained
        elif invoke == "twice":
            t.run()
            t.run()
        elif invoke == "flat-rerun":
            t.run()
            read_public(t)           # between two runs
            t.run()
        else:
            t.run()
    except Exception as ex:  # the gate raises a bare Exception
        msg = str(ex)
        # ANY exception raised by the constructor / run() is a refusal; whether it is legitimate is decided from the
        # input by the oracle (class and message are recorded for information only)
        out["status"] = "rejected"
        out["exception"] = "%s: %s" % (type(ex).__name__, msg[:200])
        return out
    out["status"] = "ok"
    out["_worker"] = t
    out["free"] = [int(v) for v in mesh.interior_vertices]
    if case["mode"] == "custom":
        out["bnd"] = [int(v) for v in mesh.boundary_vertices]
    else:
        out["bnd"] = [int(v) for v in extract_border_cycle(mesh)[0]]
    n_el = len(mesh.face_corners) if corners else len(mesh.vertices)
    out["uv"] = [[float(t.uvs[k][0]), float(t.uvs[k][1])] for k in range(n_el)]
    fm = t.flat_mesh
    out["flat"] = [[float(fm.vertices[v][0]), float(fm.vertices[v][1]), float(fm.vertices[v][2])] for v in range(len(fm.vertices))]
    if case["cotan"]:
        cot = mesh.face_corners.get_attribute("cotan")
        out["cot"] = [float(cot[c]) for c in range(len(mesh.face_corners))]
    if "custom_boundary" in kw and kw["custom_boundary"] is not None:
        out["custom_after"] = [[float(x) for x in r] for r in kw["custom_boundary"]]
    out["verts_after"] = [[float(mesh.vertices[v][k]) for k in range(3)] for v in range(len(mesh.vertices))]
    out["corner_vertex"] = [int(v) for v in mesh.face_corners]
    out["faces_seen"] = [[int(a) for a in f] for f in mesh.faces]
    return out


def run_sequence(case):
    """ONE mesh object, several embeddings in a row (each step: per-vertex then per-corner storage), optionally with
    attributes computed persistently on the mesh beforehand.  Every step is reported like a single case."""
    import mouette as M
    try:
        mesh = build(case)
    except Exception as ex:
        return {"status": "seq", "steps": [{"status": "error:driver %s: %s" % (type(ex).__name__, str(ex)[:300])}]}
    steps = []
    for st in case["seq"]:
        view = dict(case, mode=st["mode"], cotan=st["cotan"], call=st.get("call"))
        try:
            for v, xyz in st.get("move") or []:      # the caller moves vertices of the mesh between two embeddings
                mesh.vertices[int(v)] = M.Vec(float(xyz[0]), float(xyz[1]), float(xyz[2]))
                view["verts"] = [list(p) for p in view["verts"]]
                view["verts"][int(v)] = [float(x) for x in xyz]
                case = dict(case, verts=view["verts"])
            if st.get("pre") == "cotangent":
                M.attributes.cotangent(mesh)
            elif st.get("pre") == "angles":
                M.attributes.corner_angles(mesh)
            elif st.get("pre") == "uv_garbage":   # pre-existing attributes with the embedding's name, arbitrary values
                for cont in (mesh.vertices, mesh.face_corners):
                    a = cont.create_attribute("uv_coords", float, 2, dense=True)
                    for k in range(len(cont)):
                        a[k] = M.Vec(7.5, -3.25)
            elif st.get("pre") == "bad-mode":     # a constructor call that legitimately raises, then the mesh is used again
                from mouette.processing.parametrization import TutteEmbedding
                try:
                    TutteEmbedding(mesh, "triangle")
                except Exception:
                    pass             # (whether an unknown mode name is refused, and how, is not constrained)
            steps.append(run_case(view, mesh))
        except Exception as ex:
            steps.append({"status": "error:driver %s: %s" % (type(ex).__name__, str(ex)[:300])})
    # a finished embedding keeps ITS result: re-read the outputs of every earlier step after the later ones ran
    for k, stp in enumerate(steps):
        ws = stp.pop("_workers", None)
        if not ws or k == len(steps) - 1 or stp.get("status") != "ok":
            continue
        try:
            tv, tc = ws
            lv = [[float(tv.uvs[i][0]), float(tv.uvs[i][1])] for i in range(len(stp["uv_vertex"]))]
            lc = [[float(tc.uvs[i][0]), float(tc.uvs[i][1])] for i in range(len(stp["uv_corner"]))]
            if lv != stp["uv_vertex"] or lc != stp["uv_corner"]:
                stp["late"] = {"uv_vertex": lv, "uv_corner": lc}
        except Exception as ex:
            stp["late"] = {"error": "%s: %s" % (type(ex).__name__, str(ex)[:200])}
    return {"status": "seq", "steps": steps}


def run_case(case, mesh=None):
    if mesh is None and "seq" in case:
        return run_sequence(case)
    try:
        a = one_run(case, False, mesh)
        b = one_run(case, True, mesh)
    except Exception as ex:
        return {"status": "error:driver %s: %s" % (type(ex).__name__, str(ex)[:300]), "trace": traceback.format_exc()[-600:]}
    if a["status"] != b["status"]:
        return {"status": "rejected", "exception": "only one storage answered: per-vertex %s %s, per-corner %s %s"
                          % (a["status"], a.get("exception", ""), b["status"], b.get("exception", "")),
                "nv": a.get("nv"), "ne": a.get("ne"), "nf": a.get("nf")}
    o = {"status": a["status"], "nv": a["nv"], "ne": a["ne"], "nf": a["nf"]}
    if a["status"] != "ok":
        o["exception"] = a.get("exception")
        return o
    if a["free"] != b["free"] or a["bnd"] != b["bnd"]:
        return {"status": "error:storages partition differently", "nv": a["nv"], "ne": a["ne"], "nf": a["nf"]}
    o.update(free=a["free"], bnd=a["bnd"], uv_vertex=a["uv"], uv_corner=b["uv"], flat_vertex=a["flat"],
             flat_corner=b["flat"], corner_vertex=a["corner_vertex"], faces_seen=a["faces_seen"],
             verts_after=b["verts_after"], call=a.get("call"))
    if mesh is not None:
        o["_workers"] = (a.get("_worker"), b.get("_worker"))
    if "custom_rows" in a:
        o["custom_rows"] = a["custom_rows"]
        o["custom_after"] = b.get("custom_after")
    if "cot" in a:
        o["cot"] = a["cot"]
        o["cot_corner_run"] = b["cot"]
    return o


def main():
    payload = json.load(sys.stdin)
    import warnings
    warnings.filterwarnings("ignore")
    obs = [run_case(c) for c in payload["cases"]]
    for o in obs:
        for st in [o] + list(o.get("steps", [])):
            st.pop("_workers", None)
            st.pop("_worker", None)
    print("@@JSON " + json.dumps({"obs": obs}))


if __name__ == "__main__":
    main()
