"""Runs volume-connectivity query scripts on /repo's implementation and reports canonical observations (C03).

stdin : {"cases": [ {"V": [[x,y,z]..], "C": [[a,b,c,d]..], "F0": declared faces, "E0": declared edges, "kind": "list|tuple|numpy|from_arrays", "sort": bool,
                     "script": [[op, args...], ...]} ... ]}
stdout: '@@JSON ' + {"obs": [ {"faces":..., "edges":..., "answers": [...], ...} ... ]}

Script ops (public API only):
  face_to_cells f | n_F2C f | cell_to_face c | cell_to_cell c | other_face_side c f | common_face c1 c2 |
  vertex_to_cell v | in_cell_index c v | in_cell_face_index c f | edge e order("cf"|"fc") | cell_to_edge c |
  face_id a b c | edge_id u v | is_face_on_border f | is_face_on_border_v a b c | is_vertex_on_border v |
  is_edge_on_border e | is_edge_on_border_v u v | boundary_faces | interior_faces | boundary_edges |
  interior_edges | boundary_vertices | interior_vertices | enable_bc | extract
An answer is ["none"] | ["nat", n] | ["bool", b] | ["list", [...]] | ["pair", [...], [...]] | ["err", "Type: msg"] |
["bc", {...}] | ["ex", {...}] | ["other", repr].
"""
import json
import sys


def to_int(x):
    import numpy as np
    if isinstance(x, (bool, np.bool_)):
        raise TypeError("bool where an index was expected")
    if isinstance(x, (int, np.integer)):
        return int(x)
    raise TypeError("not an integer: %r" % (x,))


def ilist(l):
    return [to_int(x) for x in l]


def canon(r):
    import numpy as np
    if r is None:
        return ["none"]
    if isinstance(r, (bool, np.bool_)):
        return ["bool", bool(r)]
    if isinstance(r, (int, np.integer)):
        return ["nat", int(r)]
    if isinstance(r, (list, tuple, range)) or (isinstance(r, np.ndarray) and r.ndim == 1):
        try:
            return ["list", ilist(r)]
        except TypeError:
            return ["other", repr(r)]
    return ["other", repr(r)]


def build(case):
    import numpy as np
    import mouette as M
    from mouette.mesh.mesh_data import RawMeshData
    M.config.sort_neighborhoods = bool(case["sort"])
    kind = case["kind"]
    F0, E0 = case.get("F0") or [], case.get("E0") or []
    sc = 2.0 ** int(case.get("scale_exp") or 0)          # exact in binary64: orientation is scale-free
    vrep = case.get("vrep") or "float"
    if vrep == "float" or sc != 1.0:
        VV = [[float(x) * sc for x in p] for p in case["V"]]
        vdt = float
    elif vrep == "int":
        VV = [[int(x) for x in p] for p in case["V"]]                 # python ints
        vdt = int
    else:
        vdt = {"uint8": np.uint8, "uint16": np.uint16, "int8": np.int8, "int32": np.int32, "float32": np.float32}[vrep]
        VV = [np.array(p, dtype=vdt) for p in case["V"]]            # numpy rows of that dtype
    if kind == "from_arrays":
        return M.mesh.from_arrays(np.array(VV, dtype=vdt),
                                  E=np.array(E0, dtype=int) if E0 else None,
                                  F=np.array(F0, dtype=int) if F0 else None,
                                  C=np.array(case["C"], dtype=int))
    d = RawMeshData()
    d.vertices += VV
    for e in E0:
        d.edges.append(list(e) if kind == "list" else (tuple(e) if kind == "tuple" else np.array(e, dtype=int)))
    for f in F0:
        d.faces.append(list(f) if kind == "list" else (tuple(f) if kind == "tuple" else np.array(f, dtype=int)))
    for c in case["C"]:
        if kind == "list":
            d.cells.append(list(c))
        elif kind == "tuple":
            d.cells.append(tuple(c))
        elif kind == "numpy":
            d.cells.append(np.array(c, dtype=int))
        else:
            raise ValueError(kind)
    return M.mesh.VolumeMesh(d)


def dict_pairs(d, by):
    """a dict int->int as a list of pairs sorted by key (by=0) or by value (by=1); None entries kept as -1"""
    items = []
    for k, v in d.items():
        items.append([-1 if k is None else to_int(k), -1 if v is None else to_int(v)])
    items.sort(key=lambda kv: (kv[by], kv[1 - by]))
    return items


def obs_surface(s):
    return {"faces": [ilist(f) for f in s.faces], "edges": [ilist(e) for e in s.edges],
            "verts": [[float(x) for x in p] for p in s.vertices]}


def run_case(case):
    import mouette as M
    out = {"answers": []}
    try:
        m = build(case)
    except Exception as ex:  # noqa
        out["build_error"] = "%s: %s" % (type(ex).__name__, ex)
        return out
    out["class"] = type(m).__name__
    out["faces"] = [ilist(f) for f in m.faces]
    out["edges"] = [ilist(e) for e in m.edges]
    out["nverts"] = len(m.vertices)
    co = m.connectivity
    import numpy as np
    rep = {"int": int, "np.int64": np.int64, "np.int32": np.int32,
           "np.uint8": (lambda x: np.uint8(x) if 0 <= x < 256 else int(x))}.get(case.get("argrep") or "int", int)
    old_flag = M.config.display_duplicate_attribute_warning
    if case.get("collide"):
        # user attributes that happen to carry the names the border caches use, with arbitrary values
        M.config.display_duplicate_attribute_warning = True
        a_v = m.vertices.create_attribute("border", bool)
        for v in range(len(m.vertices)):
            a_v[v] = True
        a_e = m.edges.create_attribute("border", bool)
        for e in range(len(m.edges)):
            a_e[e] = True
    try:
        _run_script(M, m, co, case, out, rep)
    finally:
        M.config.display_duplicate_attribute_warning = old_flag
    return out


def spoil_surface(s, dicts):
    """mutate a returned boundary surface and its index dicts in place"""
    try:
        for d in dicts:
            d.clear()
        if len(s.faces) > 0:
            s.faces[0] = (0, 0, 0)
        for i in range(len(s.vertices)):
            s.vertices[i] += 1000.0
    except Exception:
        pass


def _run_script(M, m, co, case, out, rep):
    for op in case["script"]:
        name, a = op[0], op[1:]
        bad = name.startswith("bad:")
        if bad:
            name = name[4:]
        a = [rep(x) if isinstance(x, int) and not isinstance(x, bool) else x for x in a]
        try:
            if name in ("edge", "edge_v"):
                if name == "edge_v":
                    e, order = co.edge_id(a[0], a[1]), a[2]
                else:
                    e, order = a
                if order == "cf":
                    cs = co.edge_to_cell(e)
                    fs = co.edge_to_face(e)
                else:
                    fs = co.edge_to_face(e)
                    cs = co.edge_to_cell(e)
                r = ["pair", ilist(cs), ilist(fs)]
            elif name == "is_face_on_border_v":
                r = canon(m.is_face_on_border(*a))
            elif name == "is_edge_on_border_v":
                r = canon(m.is_edge_on_border(*a))
            elif name in ("is_face_on_border", "is_vertex_on_border", "is_edge_on_border"):
                r = canon(getattr(m, name)(*a))
            elif name in ("boundary_faces", "interior_faces", "boundary_edges", "interior_edges",
                          "boundary_vertices", "interior_vertices"):
                r = canon(getattr(m, name))
            elif name == "swap_clear":
                # the cell list is edited in place, then the connectivity is reset through its public clear()
                i, j = int(a[0]), int(a[1])
                ci, cj = m.cells[i], m.cells[j]
                m.cells[i] = cj
                m.cells[j] = ci
                co.clear()
                r = ["none"]
            elif name in ("face_id_t", "face_id_l"):
                r = canon(co.face_id(tuple(a) if name == "face_id_t" else list(a)))
            elif name == "enable_bc":
                m.enable_boundary_connectivity()
                bc0, s0 = m.boundary_connectivity, m.boundary_mesh
                spoil_surface(s0, [bc0.m2b_vertex, bc0.b2m_vertex, bc0.m2b_face, bc0.b2m_face, bc0.m2b_edge, bc0.b2m_edge])
                m.enable_boundary_connectivity()          # a second build must not see the spoiled first one
                bc = m.boundary_connectivity
                s = m.boundary_mesh
                d = obs_surface(s)
                d["distinct"] = (s is not s0) and (bc is not bc0) and (bc.m2b_vertex is not bc0.m2b_vertex)
                acc = {"f2v": [], "v2f": []}
                for F in range(len(m.faces)):
                    acc["f2v"].append(ilist(bc.face_to_vertices(F)))
                for Vv in range(len(m.vertices)):
                    rr = bc.vertex_to_faces(Vv)
                    acc["v2f"].append(None if rr is None else ilist(rr))
                d["acc"] = acc
                d.update({"m2b_v": dict_pairs(bc.m2b_vertex, 1), "b2m_v": dict_pairs(bc.b2m_vertex, 0),
                          "m2b_f": dict_pairs(bc.m2b_face, 1), "b2m_f": dict_pairs(bc.b2m_face, 0),
                          "m2b_e": dict_pairs(bc.m2b_edge, 0), "b2m_e": dict_pairs(bc.b2m_edge, 1),
                          "same_mesh": bc.mesh is s})
                r = ["bc", d]
            elif name == "extract":
                s0, m2b0, b2m0 = M.processing.border.extract_boundary_of_volume(m)
                spoil_surface(s0, [m2b0, b2m0])
                s, m2b, b2m = M.processing.border.extract_boundary_of_volume(m)   # equal arguments, fresh result
                d = obs_surface(s)
                d["distinct"] = (s is not s0) and (m2b is not m2b0) and (b2m is not b2m0)
                d.update({"m2b_v": dict_pairs(m2b, 1), "b2m_v": dict_pairs(b2m, 0), "class": type(s).__name__})
                r = ["ex", d]
            else:
                r = canon(getattr(co, name)(*a))
        except Exception as ex:  # noqa
            r = ["err", "%s: %s" % (type(ex).__name__, ex)]
        out["answers"].append(r)


def main():
    import warnings
    warnings.simplefilter("ignore")
    payload = json.load(sys.stdin)
    import mouette.processing.border  # noqa: F401
    res = {"obs": [run_case(c) for c in payload["cases"]]}
    print("@@JSON " + json.dumps(res))


if __name__ == "__main__":
    main()
