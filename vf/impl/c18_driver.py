"""C18 implementation driver: runs mouette's surface frame fields on JSON cases (stdin) and prints '@@JSON ' + observations.

A case: {"elem": "faces"|"vertices", "order": k, "features": bool, "n_smooth": n, "cotan": bool, "smooth_normals": bool,
         "V": [[x,y,z],..] (floats), "F": [[a,b,c],..], "seed": int}
Everything observed is public API / public attributes; scipy's spsolve is wrapped (in this process only) to record the
first linear system handed to it and its answer.
"""
import cmath
import json
import math
import sys
import traceback

import numpy as np


def build_mesh(V, F):
    import mouette as M
    d = M.mesh.RawMeshData()
    d.vertices += [M.Vec(float(v[0]), float(v[1]), float(v[2])) for v in V]
    d.faces += [tuple(int(x) for x in f) for f in F]
    return M.mesh.SurfaceMesh(d)


def cpair(z):
    z = complex(z)
    return [float(z.real), float(z.imag)]


def mat_entries(M_):
    import scipy.sparse as sp
    C = sp.coo_matrix(M_)
    C.sum_duplicates()
    out = []
    for i, j, v in zip(C.row.tolist(), C.col.tolist(), C.data.tolist()):
        out.append([int(i), int(j)] + cpair(v))
    out.sort()
    return out


class SolveRecorder:
    def __init__(self):
        import scipy.sparse.linalg as sla
        self.sla = sla
        self.orig = sla.spsolve
        self.count = 0
        self.reset()

    def reset(self):
        """called when an optimize() starts: the harmonic-extension solve judged is the one of the LAST optimize"""
        self.first = None
        self.last = None        # the last smoothing system (matrix, right-hand side, answer)
        self.seen_first = False
        self.later_sv = None    # smallest sigma_min/sigma_max over the matrices of the later (smoothing) solves

    def __enter__(self):
        rec = self

        def wrapped(A, b, *a, **k):
            x = rec.orig(A, b, *a, **k)
            rec.count += 1
            if rec.first is None:
                rec.first = (A.copy(), np.array(b, dtype=complex).copy(), np.array(x, dtype=complex).reshape(-1).copy())
            if rec.first is not None and rec.count > 0 and (A is not rec.first[0]) and A.shape[0] and A.shape[0] <= 600 and rec.seen_first:
                rec.last = (A.copy(), np.array(b, dtype=complex).copy(), np.array(x, dtype=complex).reshape(-1).copy())
            rec.seen_first = True
            if rec.first is not None and rec.last is not None and A.shape[0] and A.shape[0] <= 600:
                try:
                    sv = np.linalg.svd(A.toarray(), compute_uv=False)
                    ratio = float(sv[-1] / sv[0]) if sv[0] > 0 else 0.0
                except Exception:  # noqa
                    ratio = None
                if ratio is not None:
                    rec.later_sv = ratio if rec.later_sv is None else min(rec.later_sv, ratio)
            return x
        self.sla.spsolve = wrapped
        return self

    def __exit__(self, *a):
        self.sla.spsolve = self.orig


def attr_values(container, name, n, cast=float):
    if not container.has_attribute(name):
        return [cast(0)] * n
    a = container.get_attribute(name)
    return [cast(a[i]) for i in range(n)]


CONTAINERS = ("vertices", "edges", "faces", "face_corners")
# geometry caches the library leaves on the mesh (re-used by later calls without invalidation): what the stale-cache probe clears
GEOMETRY_CACHES = {"face_corners": ("cotan", "angles"), "faces": ("area", "normals"), "vertices": ("normals",)}


def attr_names(m):
    return {k: sorted(str(x) for x in getattr(m, k).attributes) for k in CONTAINERS}


def run_case(c, mesh=None):
    """one field computation + flag_singularities; `mesh`: the mesh object of a sequence (earlier fields were computed and
    flagged on it), else a fresh one is built"""
    import mouette as M
    from mouette import framefield as ff
    from mouette import operators
    from mouette.processing import connection as conn_mod
    out = {}
    np.random.seed(int(c.get("seed", 0)) % (2 ** 31))
    m = build_mesh(c["V"], c["F"]) if mesh is None else mesh
    elem, order = c["elem"], int(c["order"])
    cotan = bool(c.get("cotan", True))
    kw = dict(order=order, features=bool(c["features"]), n_smooth=int(c["n_smooth"]), verbose=False, use_cotan=cotan)
    if elem == "vertices":
        kw["cad_correction"] = False
        kw["smooth_normals"] = bool(c.get("smooth_normals", True))
    if c.get("smooth_attach_weight") is not None:
        kw["smooth_attach_weight"] = float(c["smooth_attach_weight"])
    # ---- garbage already sitting under the names of the outputs / work attributes (a mesh that was used before)
    if c.get("preseed"):
        rs = np.random.RandomState(int(c.get("seed", 0)) % (2 ** 31))
        for cont, name, typ, n_el in ((m.vertices, "singuls", float, len(m.vertices)), (m.faces, "singuls", int, len(m.faces)),
                                      (m.edges, "angles", float, len(m.edges)), (m.faces, "fixed", bool, len(m.faces)),
                                      (m.vertices, "feature", bool, len(m.vertices)), (m.edges, "feature", bool, len(m.edges)),
                                      (m.vertices, "corners", int, len(m.vertices))):
            if not cont.has_attribute(name):
                a = cont.create_attribute(name, typ)
                for i in range(n_el):
                    if rs.rand() < 0.5:
                        a[i] = typ(rs.randint(1, 4)) if typ is not bool else True
    before = attr_names(m)
    # ---- call form: every keyword spelled out / defaults omitted / leading arguments positional / flags as 0-1 integers
    form = c.get("callform", "explicit")
    DEFAULTS = {"order": 4, "features": True, "n_smooth": 3, "use_cotan": True, "smooth_normals": True, "verbose": False}
    if form == "omit_defaults":
        kw = {k: v for k, v in kw.items() if k not in DEFAULTS or DEFAULTS[k] != v or isinstance(v, bool) != isinstance(DEFAULTS[k], bool)}
        fld = ff.SurfaceFrameField(m, elem, **kw)
    elif form == "positional":
        rest = {k: v for k, v in kw.items() if k not in ("order", "features", "verbose", "n_smooth")}
        fld = ff.SurfaceFrameField(m, elem, kw["order"], kw["features"], kw["verbose"], kw["n_smooth"], **rest)
    elif form == "int_flags":
        kw2 = dict(kw)
        for k in ("features", "use_cotan", "smooth_normals"):
            if k in kw2:
                kw2[k] = 1 if kw2[k] else 0
        fld = ff.SurfaceFrameField(m, elem, **kw2)
    else:
        fld = ff.SurfaceFrameField(m, elem, **kw)
    out["callform"] = form
    out["edges"] = [[int(a), int(b)] for a, b in m.edges]
    out["n_boundary_edges"] = len(m.boundary_edges)
    # ---- the protocol: which public stage methods the caller uses, in which order
    proto = c.get("protocol", "init_opt")
    snap = {"n_init": 0, "n_opt": 0}
    orig_init, orig_opt = fld.initialize, fld.optimize
    rec = SolveRecorder()

    def w_init(*a, **k):
        r = orig_init(*a, **k)
        snap["n_init"] += 1
        snap["var0"] = np.array(fld.var, dtype=complex).copy()
        return r

    def w_opt(*a, **k):
        rec.reset()
        r = orig_opt(*a, **k)
        snap["n_opt"] += 1        # counted when the stage really ran (an optimize() refused by _check_init is not one)
        return r
    fld.initialize, fld.optimize = w_init, w_opt
    final_ns = int(c["n_smooth"])
    if proto == "init_opt_ns_opt":
        fld.n_smooth = 0 if final_ns > 0 else 2     # the first optimisation runs with another number of smoothing steps
    calls = {"init_opt": ["initialize", "optimize"], "run": ["run"], "call": ["__call__"], "init_run": ["initialize", "run"],
             "init_call": ["initialize", "__call__"], "init_opt_run": ["initialize", "optimize", "run"], "run_run": ["run", "run"],
             "opt_opt": ["initialize", "optimize", "optimize"], "init_opt_ns_opt": ["initialize", "optimize", "n_smooth", "optimize"],
             # an optimisation attempted too early raises (documented); the object is then used normally
             "early_opt_run": ["!optimize", "!flag_singularities", "run"],
             "init_init_opt": ["initialize", "initialize", "optimize"]}[proto]
    with rec:
        try:
            for name in calls:
                if name.startswith("!"):
                    try:
                        getattr(fld, name[1:])()
                        out["early_call_accepted"] = name[1:]
                    except Exception:  # noqa - expected: "FrameField was not initialized properly"
                        pass
                elif name == "n_smooth":
                    fld.n_smooth = final_ns
                elif name == "__call__":
                    fld()
                else:
                    getattr(fld, name)()
        except Exception as ex:  # noqa - the operator, constraints .. observed so far are returned with the error
            out["crash"] = {"error": "%s: %s" % (type(ex).__name__, ex), "trace": traceback.format_exc()[-1500:]}
    out["protocol"] = proto
    out["stage_calls"] = [snap["n_init"], snap["n_opt"]]
    if "var0" not in snap:
        raise RuntimeError("the protocol %s never initialised the field" % proto)
    fe = [int(e) for e in fld.feat.feature_edges]
    out["feat"] = fe
    out["feat_vertices"] = sorted(int(v) for v in fld.feat.feature_vertices)
    out["var0"] = [cpair(z) for z in snap["var0"]]
    nF, nV = len(m.faces), len(m.vertices)
    if elem == "faces":
        out["bases"] = [[[float(x) for x in fld.conn._baseX[i]], [float(x) for x in fld.conn._baseY[i]]] for i in range(nF)]
        out["transport"] = [[int(k[0]), int(k[1]), math.cos(t), math.sin(t)] for k, t in fld.conn._transport.items()]
        lap = operators.laplacian_triangles(m, cotan=cotan, connection=fld.conn, order=order)
        if cotan:
            out["D"] = [float(x) for x in operators.cotan_edge_diagonal(m).diagonal()]
        lap_scalar = operators.laplacian_triangles(m, cotan=cotan)
        if c.get("planar"):
            lf = operators.laplacian_triangles(m, cotan=cotan, connection=conn_mod.FlatConnectionFaces(m), order=order)
            out["flat_diff"] = float(abs(lf - lap_scalar.astype(complex)).max()) if lf.nnz + lap_scalar.nnz else 0.0
    else:
        out["bases"] = [[[float(x) for x in fld.conn._baseX[i]], [float(x) for x in fld.conn._baseY[i]]] for i in range(nV)]
        out["transport"] = [[int(k[0]), int(k[1]), math.cos(t), math.sin(t)] for k, t in fld.conn._transport.items()]
        lap = operators.laplacian(m, cotan=cotan, connection=fld.conn, order=order)
        if cotan:
            cot = m.face_corners.get_attribute("cotan")
            out["cots"] = [[float(cot[3 * i + k]) for k in range(3)] for i in range(nF)]
        lap_scalar = operators.laplacian(m, cotan=cotan)
        out["mass"] = [float(x) for x in operators.area_weight_matrix(m).diagonal()]
        if c.get("planar"):
            lf = operators.laplacian(m, cotan=cotan, connection=conn_mod.FlatConnectionVertices(m), order=order)
            out["flat_diff"] = float(abs(lf - lap_scalar.astype(complex)).max()) if lf.nnz + lap_scalar.nnz else 0.0
    out["lap"] = mat_entries(lap)
    out["lap_shape"] = [int(lap.shape[0]), int(lap.shape[1])]
    if "crash" in out:
        return out
    if rec.later_sv is not None and len(fe) > 0:
        out["smooth_sv"] = rec.later_sv
    if rec.last is not None and len(fe) > 0:
        A_, b_, x_ = rec.last
        out["smooth_last"] = {"A": mat_entries(A_), "b": [cpair(z) for z in b_], "x": [cpair(z) for z in x_]}
    if rec.first is not None and len(fe) > 0:  # the bordered branch: first call = the harmonic-extension solve
        A, b, x = rec.first
        out["solve"] = {"A": mat_entries(A), "shape": [int(A.shape[0]), int(A.shape[1])],
                        "b": [cpair(z) for z in b], "x": [cpair(z) for z in x]}
    out["n_spsolve"] = rec.count
    out["final"] = [cpair(z) for z in fld.var]
    if elem == "faces":
        if m.faces.has_attribute("fixed"):
            fx = m.faces.get_attribute("fixed")
            out["fixed"] = [i for i in range(nF) if fx[i]]
        else:
            out["fixed"] = []
        out["free"] = [i for i in range(nF) if i not in set(out["fixed"])]
    else:
        fv = set(out["feat_vertices"])
        out["fixed"] = [i for i in range(nV) if i in fv]
        out["free"] = [i for i in range(nV) if i not in fv]
    # singularities
    out["prev_singuls"] = (attr_values(m.vertices, "singuls", nV) if elem == "faces" else attr_values(m.faces, "singuls", nF))
    fld.flag_singularities()
    if c.get("flag_twice"):
        first = attr_values(m.vertices, "singuls", nV) if elem == "faces" else attr_values(m.faces, "singuls", nF)
        fld.flag_singularities()
        second = attr_values(m.vertices, "singuls", nV) if elem == "faces" else attr_values(m.faces, "singuls", nF)
        out["flag_twice_same"] = bool(first == second)
        out["prev_singuls"] = first
    if elem == "vertices":
        from mouette import attributes
        cv = attributes.parallel_transport_curvature(m, fld.conn, persistent=False)
        out["curv"] = [float(cv[f]) for f in range(nF)]
        ang = m.edges.get_attribute("angles")
        out["rot"] = [float(ang[e]) for e in range(len(m.edges))]
    if elem == "faces":
        out["defect"] = [float(fld.defect[v]) for v in range(nV)]
        ang = m.edges.get_attribute("angles")
        out["rot"] = [float(ang[e]) for e in range(len(m.edges))]
        s = m.vertices.get_attribute("singuls")
        out["singuls"] = [float(s[v]) for v in range(nV)]
        out["interior_vertices"] = [int(v) for v in m.interior_vertices]
    else:
        s = m.faces.get_attribute("singuls")
        out["singuls"] = [int(s[f]) for f in range(nF)]
    after = attr_names(m)
    out["new_attrs"] = {k: [x for x in after[k] if x not in before[k]] for k in CONTAINERS}
    out["vnormals"] = None
    if elem == "vertices":
        out["vnormals"] = [[float(x) for x in fld.vnormals[i]] for i in range(nV)]
    return out


def main():
    payload = json.load(sys.stdin)
    res = []
    for c in payload["cases"]:
        if "seq" in c:
            # a sequence of field computations on ONE mesh object (same V, F), flagging after each
            import mouette as M
            from mouette import config as mcfg
            steps, mesh, curV = [], None, None
            saved = mcfg.display_duplicate_attribute_warning
            mcfg.display_duplicate_attribute_warning = bool(c.get("dup_warning", False))
            try:
                for st in c["seq"]:
                    try:
                        moved = False
                        if mesh is None:
                            mesh = build_mesh(st["V"], st["F"])
                        elif st["V"] != curV:
                            for v, p_ in enumerate(st["V"]):     # the caller moves the vertices of the mesh object in place
                                mesh.vertices[v] = M.Vec(float(p_[0]), float(p_[1]), float(p_[2]))
                            moved = True
                        curV = st["V"]
                        obs = run_case(st, mesh)
                        if moved and "crash" not in obs:
                            # probe: the same computation again on this object after clearing the geometry caches
                            for k, names in GEOMETRY_CACHES.items():
                                for nm in names:
                                    if getattr(mesh, k).has_attribute(nm):
                                        getattr(mesh, k).delete_attribute(nm)
                            o2 = run_case(st, mesh)
                            obs["cleared"] = {"final": o2.get("final"), "singuls": o2.get("singuls")}
                            obs["cleared_obs"] = o2
                        obs["moved"] = moved
                        steps.append({"ok": True, "obs": obs})
                    except Exception as ex:  # noqa
                        steps.append({"ok": False, "error": "%s: %s" % (type(ex).__name__, ex), "trace": traceback.format_exc()[-1500:]})
            finally:
                mcfg.display_duplicate_attribute_warning = saved
            res.append({"ok": True, "steps": steps})
            continue
        try:
            from mouette import config as mcfg
            saved = mcfg.display_duplicate_attribute_warning
            mcfg.display_duplicate_attribute_warning = bool(c.get("dup_warning", False))
            try:
                res.append({"ok": True, "obs": run_case(c)})
            finally:
                mcfg.display_duplicate_attribute_warning = saved
        except Exception as ex:  # noqa
            res.append({"ok": False, "error": "%s: %s" % (type(ex).__name__, ex), "trace": traceback.format_exc()[-1500:]})
    print("@@JSON " + json.dumps({"results": res}))


if __name__ == "__main__":
    main()
