"""C01 - independent oracle: every adjacency answer recomputed from the face list by brute force.

`check_case(case, res)` returns None or (index_of_query, message).  Nothing here is shared with the Coq model;
it restates the property sentence on concrete outputs and is only used to SEARCH for a failing input.
"""


class Brute:
    def __init__(self, nv, faces, edges):
        self.nv, self.faces, self.edges = nv, [list(F) for F in faces], [tuple(e) for e in edges]
        self.off = []
        o = 0
        for F in self.faces:
            self.off.append(o)
            o += len(F)
        self.nc = o

    # ---- direct inspection primitives (all linear scans on purpose)
    def corner_fi(self, c):
        for f, F in enumerate(self.faces):
            if self.off[f] <= c < self.off[f] + len(F):
                return f, c - self.off[f]
        return None

    def corner_vertex(self, c):
        f, i = self.corner_fi(c)
        return self.faces[f][i]

    def he(self, u, v):
        """(face, i, j) of the face in which v follows u, or None"""
        found = []
        for f, F in enumerate(self.faces):
            n = len(F)
            for i in range(n):
                if F[i] == u and F[(i + 1) % n] == v:
                    found.append((f, i, (i + 1) % n))
        assert len(found) <= 1, "input is not oriented manifold"
        return found[0] if found else None

    def he_corner(self, u, v):
        h = self.he(u, v)
        return None if h is None else self.off[h[0]] + h[1]

    def nxt(self, c):
        fi = self.corner_fi(c)
        if fi is None:
            return None
        f, i = fi
        return self.off[f] + (i + 1) % len(self.faces[f])

    def prv(self, c):
        fi = self.corner_fi(c)
        if fi is None:
            return None
        f, i = fi
        return self.off[f] + (i - 1) % len(self.faces[f])

    def c_he(self, c):
        fi = self.corner_fi(c)
        if fi is None:
            return None
        f, i = fi
        F = self.faces[f]
        return (F[i], F[(i + 1) % len(F)])

    def opp(self, c):
        k = self.c_he(c)
        if k is None:
            return None
        return self.he_corner(k[1], k[0])

    def eid(self, u, v):
        k = tuple(sorted((u, v)))
        ids = [i for i, e in enumerate(self.edges) if tuple(e) == k]
        return ids[-1] if ids else None

    def corners_at(self, A):
        return [c for c in range(self.nc) if self.corner_vertex(c) == A]

    def neighbours(self, A):
        s = []
        for (a, b) in self.edges:
            if a == A and b not in s:
                s.append(b)
            if b == A and a not in s:
                s.append(a)
        return s

    def edge_on_border(self, u, v):
        if self.eid(u, v) is None:
            return False
        return self.he(u, v) is None or self.he(v, u) is None

    def vertex_on_border(self, A):
        return any(self.edge_on_border(a, b) for (a, b) in self.edges if A in (a, b))

    def ring_ok(self, A, l):
        """l lists the corners at A once each, consecutive ones related by l[i] = opp(prev(l[i+1])); for an interior
        vertex also cyclically; for a border vertex l starts at the corner whose incoming edge is a border edge"""
        S = self.corners_at(A)
        if sorted(l) != sorted(S):
            return "not the set of corners at the vertex (%s vs %s)" % (l, S)
        if not l:
            return None
        for i in range(len(l) - 1):
            if self.opp(self.prv(l[i + 1])) != l[i]:
                return "corners %d,%d are not consecutive around the vertex" % (l[i], l[i + 1])
        if self.vertex_on_border(A):
            if self.opp(self.prv(l[0])) is not None:
                return "fan of a border vertex does not start at the border"
            if self.opp(l[-1]) is not None:
                return "fan of a border vertex does not end at the border"
        else:
            if self.opp(self.prv(l[0])) != l[-1]:
                return "ring of an interior vertex does not close"
        return None

    def canonical_ring(self, A):
        S = self.corners_at(A)
        if not S:
            return []
        c = S[0]
        # go clockwise to the start of the fan (or once around)
        for _ in range(len(S)):
            p = self.opp(self.prv(c))
            if p is None or p == S[0]:
                break
            c = p
        start = c if self.opp(self.prv(c)) is None else S[0]
        l = [start]
        while len(l) < len(S):
            o = self.opp(l[-1])
            if o is None:
                break
            l.append(self.nxt(o))
        return l


def rotations(l):
    return [l[i:] + l[:i] for i in range(max(1, len(l)))]


def wf_edges(B):
    und = set()
    for F in B.faces:
        for i in range(len(F)):
            und.add(tuple(sorted((F[i], F[(i + 1) % len(F)]))))
    # every row of the edge container is the (smallest, largest) row of a side of a face, every side has a row.
    # (A side the caller declared twice keeps two rows: construction's known behaviour, C02 edge-list/duplicate-declared.)
    for i, e in enumerate(B.edges):
        if tuple(sorted(e)) != tuple(e):
            return "edge row %d is %s, the face list gives the row %s (smallest vertex first)" % (i, tuple(e), tuple(sorted(e)))
        if not all(isinstance(x, int) and 0 <= x < B.nv for x in e) or e[0] == e[1]:
            return "edge row %d is %s: not an edge between two vertices of the mesh" % (i, tuple(e))
    if set(B.edges) != und:
        return "the rows of the edge container %s are not the sides of the faces %s" % (sorted(set(B.edges) - und), sorted(und - set(B.edges)))
    return None


def is_free(B, q):
    """True when the query names no element of the mesh: the property text says nothing about such a call
    (a refusal with any exception is then as good as the conventional None / False answer)."""
    name, a = q[0], q[1:]
    nf, ne, nc, nv = len(B.faces), len(B.edges), B.nc, B.nv
    he = lambda u, v: B.he(u, v) is not None
    if name in ("vertex_to_faces", "vertex_to_corners", "vertex_to_vertices", "vertex_to_edges", "is_vertex_on_border"):
        return not 0 <= a[0] < nv
    if name in ("previous_corner", "next_corner", "opposite_corner", "corner_to_half_edge", "corner_to_face"):
        return not 0 <= a[0] < nc
    if name in ("face_to_vertices", "face_to_edges", "face_to_first_corner", "face_to_corners", "face_to_faces"):
        return not 0 <= a[0] < nf
    if name == "edge_to_vertices":
        return not 0 <= a[0] < ne
    if name == "other_edge_end":
        return not 0 <= a[0] < ne or a[1] not in B.edges[a[0]]
    if name in ("half_edge_to_corner", "direct_face", "direct_face_inds", "edge_to_faces", "edge_id", "is_edge_on_border"):
        return not he(a[0], a[1]) and not he(a[1], a[0])
    if name in ("opposite_face", "opposite_face_inds"):
        h1, h2 = B.he(a[0], a[1]), B.he(a[1], a[0])
        return a[2] not in [h[0] for h in (h1, h2) if h is not None]
    if name == "common_edge":
        if not (0 <= a[0] < nf and 0 <= a[1] < nf):
            return True
        Fl = B.faces[a[0]]
        return not any((B.he(Fl[(i + 1) % len(Fl)], Fl[i]) or [None])[0] == a[1] for i in range(len(Fl)))
    if name in ("vertex_to_corner_in_face", "in_face_index"):
        V, F = (a[0], a[1]) if name == "vertex_to_corner_in_face" else (a[1], a[0])
        return not 0 <= F < nf or V not in B.faces[F]
    if name == "face_id":
        return not any(sorted(Fl) == sorted(a) for Fl in B.faces)
    return False


def expected(B, sort, q):
    """('exact', answer) | ('set', list) | ('rot', list) | ('pred', fn) for query q"""
    name, a = q[0], q[1:]
    L = lambda l: ["list", list(l)]
    I = lambda z: ["none"] if z is None else ["int", z]
    faces = B.faces
    if name in ("clear", "clear_boundary_data"):
        return "exact", ["none"]
    # arguments naming no element, for the accessors that index a container directly: the container's own exception
    nf, ne = len(faces), len(B.edges)
    absent = {"face_to_first_corner": (nf, "KeyError"), "face_to_corners": (nf, "IndexError"), "face_to_vertices": (nf, "IndexError"),
              "face_to_edges": (nf, "IndexError"), "vertex_to_vertices": (B.nv, "KeyError"), "vertex_to_faces": (B.nv, "TypeError"),
              "corner_to_face": (B.nc, "IndexError"), "edge_to_vertices": (ne, "IndexError"), "other_edge_end": (ne, "IndexError")}
    if name in absent and a and a[0] >= absent[name][0]:
        return "any", None      # an id naming no element: the property does not speak about it
    if name == "vertex_to_corners":
        A = a[0]
        if not (0 <= A < B.nv):
            return "exact", ["none"]
        if not sort:
            return "set", B.corners_at(A)
        # rotational order fixes no direction: the ring may be listed either way round
        return "pred", lambda o: ("not a list" if (o[0] != "list" or None in o[1])
                                  else (B.ring_ok(A, o[1]) and B.ring_ok(A, o[1][::-1])))
    if name in ("vertex_to_faces", "vertex_to_vertices", "vertex_to_edges"):
        A = a[0]
        ring = B.canonical_ring(A)
        r = B.ring_ok(A, ring)
        assert r is None, "oracle's own ring is wrong: %s" % r
        border = B.vertex_on_border(A)
        if name == "vertex_to_faces":
            base, pre = [B.corner_fi(c)[0] for c in ring], []
        else:
            tv = [B.c_he(c)[1] for c in ring]
            pre = []
            if border and ring:
                f, i = B.corner_fi(ring[0])
                pre = [faces[f][(i - 1) % len(faces[f])]]
            if name == "vertex_to_vertices":
                base = tv
            else:
                base = [B.eid(A, u) for u in tv]
                pre = [B.eid(A, u) for u in pre]
        if not sort:
            if name == "vertex_to_vertices":
                return "set", B.neighbours(A)
            if name == "vertex_to_edges":
                return "set", [B.eid(A, u) for u in B.neighbours(A)]
            return "set", base
        if border:
            return "openring", pre + base
        return "ring", base
    if name == "vertex_to_corner_in_face":
        V, F = a
        for i, v in enumerate(faces[F]):
            if v == V:
                return "exact", I(B.off[F] + i)
        return "exact", I(None)
    if name == "previous_corner":
        return "exact", I(B.prv(a[0]))
    if name == "next_corner":
        return "exact", I(B.nxt(a[0]))
    if name == "opposite_corner":
        return "exact", I(B.opp(a[0]))
    if name == "corner_to_half_edge":
        k = B.c_he(a[0])
        return "exact", (["none"] if k is None else L(k))
    if name == "corner_to_face":
        return "exact", I(B.corner_fi(a[0])[0])
    if name == "half_edge_to_corner":
        return "exact", I(B.he_corner(*a))
    if name == "direct_face":
        h = B.he(*a)
        return "exact", I(None if h is None else h[0])
    if name == "direct_face_inds":
        h = B.he(*a)
        return "exact", L([None, None, None] if h is None else h)
    if name == "edge_to_faces":
        h1, h2 = B.he(a[0], a[1]), B.he(a[1], a[0])
        return "exact", L([None if h1 is None else h1[0], None if h2 is None else h2[0]])
    if name in ("opposite_face", "opposite_face_inds"):
        u, v, F = a
        h1, h2 = B.he(u, v), B.he(v, u)
        f1 = None if h1 is None else h1[0]
        f2 = None if h2 is None else h2[0]
        # local indices are reported as (index of u, index of v) in the returned face
        t1 = [None] * 3 if h1 is None else [h1[0], h1[1], h1[2]]
        t2 = [None] * 3 if h2 is None else [h2[0], h2[2], h2[1]]
        if f1 == F:
            r, t = f2, t2
        elif f2 == F:
            r, t = f1, t1
        else:
            r, t = None, [None] * 3
        return "exact", (I(r) if name == "opposite_face" else L(t))
    if name == "common_edge":
        f, g = a
        Fl = faces[f]
        shared = []
        for i in range(len(Fl)):
            A_, B_ = Fl[i], Fl[(i + 1) % len(Fl)]
            h = B.he(B_, A_)
            if h is not None and h[0] == g:
                shared.append(sorted((A_, B_)))
        if not shared:
            return "exact", L([None, None])
        # "the" edge between two faces: any shared side, its two vertices in any order
        return "pred", lambda o: (None if (o[0] == "list" and sorted(x for x in o[1] if x is not None) in shared and len(o[1]) == 2)
                                  else "not one of the shared sides %s" % shared)
    if name == "face_to_vertices":
        return "rot", list(faces[a[0]])          # the starting vertex of a face row is free
    if name == "in_face_index":
        F, V = a
        return "exact", I(faces[F].index(V) if V in faces[F] else None)
    if name == "face_to_edges":
        Fl = faces[a[0]]
        return "rot", [B.eid(Fl[i], Fl[(i + 1) % len(Fl)]) for i in range(len(Fl))]
    if name == "face_to_first_corner":
        return "exact", I(B.off[a[0]])
    if name == "face_to_corners":
        return "rot", [B.off[a[0]] + i for i in range(len(faces[a[0]]))]
    if name == "face_to_faces":
        Fl = faces[a[0]]
        out = []
        for i in range(len(Fl)):
            h = B.he(Fl[(i + 1) % len(Fl)], Fl[i])
            if h is not None:
                out.append(h[0])
        return "multiset", out                   # faces around a face: no order is fixed
    if name == "face_id":
        k = sorted(a)
        ids = [f for f, Fl in enumerate(faces) if sorted(Fl) == k]
        return "exact", I(ids[-1] if ids else None)
    if name == "edge_id":
        return "exact", I(B.eid(*a))
    if name == "other_edge_end":
        E, V = a
        x, y = sorted(B.edges[E])
        return "exact", I(y if V == x else (x if V == y else None))
    if name == "edge_to_vertices":
        return "exact", L(sorted(B.edges[a[0]]))     # the (smallest, largest) row of that side
    if name == "boundary_edges":      # a classification: a set
        return "set", [i for i, (u, v) in enumerate(B.edges) if B.edge_on_border(u, v)]
    if name == "interior_edges":
        return "set", [i for i, (u, v) in enumerate(B.edges) if not B.edge_on_border(u, v)]
    if name == "boundary_vertices":
        return "set", [v for v in range(B.nv) if B.vertex_on_border(v)]
    if name == "interior_vertices":
        return "set", [v for v in range(B.nv) if not B.vertex_on_border(v)]
    if name == "is_edge_on_border":
        return "exact", ["bool", B.edge_on_border(*a)]
    if name == "is_vertex_on_border":
        return "exact", ["bool", B.vertex_on_border(a[0])]
    raise KeyError(name)


def check_case(case, res):
    if "crash" in res:
        return (-1, "building the mesh crashed: " + res["crash"])
    # the finished object (whatever route built it) is inspected through ITS face list
    given = [list(F) for F in case["faces"]]
    same_routes = ("list", "tuple", "numpy", "from_arrays", "obj", "geogram", "rewrap", "copy", "copy_conn", "edges_explicit")
    if res.get("route", "list") in same_routes and res["faces"] != given:
        return (-1, "the mesh built through route %s does not store the face list it was given" % res.get("route"))
    case = dict(case, nv=res.get("nv", case["nv"]), faces=res["faces"], script=res.get("script", case.get("script")))
    B = Brute(case["nv"], case["faces"], res["edges"])
    m = wf_edges(B)
    if m:
        return (-1, m)
    if res["corner_elem"] != [v for F in case["faces"] for v in F] or \
            res["corner_adj"] != [f for f, F in enumerate(case["faces"]) for _ in F]:
        q0 = (" (first query %s answered %s)" % (case["script"][0], res["obs"][0])) if case.get("script") and res.get("obs") else ""
        return (-1, "face_corners is not the concatenation of the faces: the mesh has %d face corners, its face list has %d%s"
                % (len(res["corner_elem"]), sum(len(F) for F in case["faces"]), q0))
    for k, (q, o) in enumerate(zip(case["script"], res["obs"])):
        free = is_free(B, q)
        if free and o[0] == "err":
            continue                # a refusal of a call that names no element, whatever its exception class
        mode, want = expected(B, case["sort"], q)
        if mode == "any":
            continue
        if o[0] == "err":
            ok = False              # the property says this call must be answered: any exception is a violation
        elif mode == "exact":
            ok = (o == want)
        elif mode == "multiset":
            ok = o[0] == "list" and None not in o[1] and sorted(o[1]) == sorted(want)
        elif mode == "ring":
            ok = o[0] == "list" and (o[1] in rotations(want) or o[1] in rotations(want[::-1]))
        elif mode == "openring":
            ok = o[0] == "list" and (o[1] == want or o[1] == want[::-1])
        elif mode == "set":
            ok = o[0] == "list" and None not in o[1] and sorted(o[1]) == sorted(want) and len(set(o[1])) == len(o[1])
        elif mode == "rot":
            ok = o[0] == "list" and o[1] in rotations(want)
        else:
            msg = want(o)
            ok = msg is None
            want = "a rotationally ordered ring (%s)" % msg
        if not ok:
            return (k, "query %d %s answered %s; direct inspection of the face list gives %s%s"
                    % (k, q, o, want, {"set": " (as a set)", "rot": " (up to rotation)"}.get(mode, "")))
    # a second mesh of the session (two triangles) must answer the same before, during and after the script
    if res.get("decoy"):
        want = [["int", 0], ["list", [0, 3]], ["list", [0, 1, 3, 4]], ["int", 3], ["list", []]]
        for j, d in enumerate(res["decoy"]):
            d = [["list", sorted(x[1])] if x[0] == "list" and None not in x[1] else x for x in d]
            if d != want:
                return (-3, "another mesh of the same session answered %s at observation %d, direct inspection of its face list gives %s"
                        % (d, j, want))
    # alignment of the four rings of a vertex (one common rotation, not one per accessor)
    for ring in res.get("rings", []):
        if ring[0] == "err":
            return (-2, "reading the four rings of a vertex after the script raised %s" % ring[1])
        V, cs, vv, fs, es = ring
        if not all(x[0] == "list" and None not in x[1] for x in (cs, vv, fs, es)):
            return (-2, "rings of vertex %d are not lists of ids: %s" % (V, ring[1:]))
        cs, vv, fs, es = cs[1], vv[1], fs[1], es[1]
        if case["sort"] and cs and B.ring_ok(V, cs) is not None:
            continue        # listed the other way round (checked by the queries themselves): alignment is not fixed by the text
        if fs != [B.corner_fi(c)[0] for c in cs]:
            return (-2, "vertex %d: vertex_to_faces %s is not the faces of vertex_to_corners %s in the same order" % (V, fs, cs))
        if es != [B.eid(V, u) for u in vv]:
            return (-2, "vertex %d: vertex_to_edges %s is not the edges towards vertex_to_vertices %s in the same order" % (V, es, vv))
        if case["sort"]:
            tg = [B.c_he(c)[1] for c in cs]
            if (vv[-len(tg):] if tg else []) != tg or len(vv) - len(tg) not in (0, 1):
                return (-2, "vertex %d: vertex_to_vertices %s is not aligned with the half-edge targets %s of vertex_to_corners %s"
                        % (V, vv, tg, cs))
    return None
