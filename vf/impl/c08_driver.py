"""Runs mouette's discrete differential operators on small meshes and reports canonical observations.

stdin : {"cases": [ {"kind": "surface"|"volume"|"polyline", "V": [[x,y,z],..], "F": [[a,b,c],..], "C": [[a,b,c,d],..],
                     "E": [[a,b],..] (polylines only), "ops": [opname,..], "custom_w": [w_e,..]} , ..]}
stdout: '@@JSON ' + {"cases": [ {"edges": [[a,b],..], "outs": {opname: {"shape":[r,c], "ent":[[i,j,v],..]} | {"error": s}},
                                 "bases": {"conn": [[X,Y],..], "flat": [[X,Y],..]}} ]}
Entries are the summed coefficients of the returned scipy.sparse matrix, sorted by (row, col), exact zeros dropped;
complex matrices give [i, j, re, im].  Without "seq" every operator call gets a FRESH mesh object.
With "seq": [opname,..] (and optional "pre": [attribute names]) the calls are made in that order on ONE mesh object after the
named mouette.attributes were computed persistently; the answer is "steps": [result + {"op", "mutated": [container/attribute
whose stored data the call changed]}].
"""
import json
import sys
import warnings

import numpy as np

warnings.simplefilter("ignore")


def build(case):
    import mouette as M
    d = M.mesh.RawMeshData()
    sc = 2.0 ** int(case.get("scale", 0))      # exact dyadic rescaling of the lattice coordinates
    d.vertices += [M.Vec(float(x) * sc, float(y) * sc, float(z) * sc) for x, y, z in case["V"]]
    kind = case["kind"]
    if kind == "surface":
        if case.get("E"):   # explicit edge list (as a file with an edge section gives), possibly with edges of no face
            d.edges += [tuple(int(x) for x in e) for e in case["E"]]
        d.faces += [tuple(int(x) for x in f) for f in case["F"]]
        d.prepare()
        return M.mesh.SurfaceMesh(d)
    if kind == "volume":
        d.cells += [tuple(int(x) for x in c) for c in case["C"]]
        d.prepare()
        return M.mesh.VolumeMesh(d)
    if kind == "polyline":
        d.edges += [tuple(int(x) for x in e) for e in case["E"]]
        d.prepare()
        return M.mesh.PolyLine(d)
    raise ValueError(kind)


def entries(mat):
    import scipy.sparse as sp
    if not sp.issparse(mat):
        raise TypeError("operator returned %s, not a scipy sparse matrix" % type(mat).__name__)
    raw_nnz = int(mat.nnz)            # stored coefficients as returned (duplicates of a coo matrix and explicit zeros included)
    co = sp.coo_matrix(mat)
    raw_zeros = int(np.sum(co.data == 0))
    pos = list(zip(co.row.tolist(), co.col.tolist()))
    dups = len(pos) - len(set(pos))   # stored coefficients sharing a position (several entries for one incidence)
    co.sum_duplicates()
    cplx = np.iscomplexobj(co.data)
    out = []
    for i, j, v in sorted(zip(co.row.tolist(), co.col.tolist(), co.data.tolist())):
        if cplx:
            if v.real == 0 and v.imag == 0:
                continue
            out.append([int(i), int(j), fl(v.real), fl(v.imag)])
        else:
            if v == 0:
                continue
            out.append([int(i), int(j), fl(v)])
    if MUTATE_RESULTS[0]:
        try:
            if isinstance(getattr(mat, "data", None), np.ndarray) and mat.data.dtype != object:
                mat.data[...] = 7777.0
            elif mat.shape[0] and mat.shape[1]:
                mat[0, 0] = 7777.0
        except Exception:  # noqa
            pass
    return {"shape": [int(mat.shape[0]), int(mat.shape[1])], "ent": out, "complex": bool(cplx), "nnz": raw_nnz,
            "stored_zeros": raw_zeros, "dups": dups,
            "format": type(mat).__name__}


def fl(x):
    x = float(x)
    if x != x:
        return "nan"
    if x in (float("inf"), float("-inf")):
        return "inf" if x > 0 else "-inf"
    return x


def flag(s):
    return s == "1"


# defaults of the optional parameters as the library documents them (the translator pins the same values in Gen.v)
DEFAULTS = {"cotan": True, "inverse_ced": True, "inverse": False, "sqrt": False, "oriented": False, "as_complex": True}
MUTATE_RESULTS = [False]


def rep(v, form):
    """a boolean flag in one of its legal representations"""
    return [bool(v), int(v), np.bool_(v), bool(v)][form % 4]


def call(fn, fixed, opts, form, fmt=False):
    """call fn(*fixed, <opts>) in one of the call forms: flags as bool / int / numpy.bool_, options by keyword, positionally,
    or omitted when they carry their default; `fmt`: mass matrices also accept a scipy format name"""
    style = (form // 4) % 3
    vals = [(k, rep(v, form + i), dk) for i, (k, v, dk) in enumerate(opts)]
    kw = {}
    if fmt:
        f_ = [None, "csr", "coo", "dia", "csc", None][(form // 12) % 6]
        if f_ is not None:
            kw["format"] = f_
    if style == 1:
        return fn(*fixed, *[v for _, v, _ in vals], **kw)
    if style == 2:
        for k, v, dk in vals:
            if bool(v) != DEFAULTS[dk]:
                kw[k] = v
        return fn(*fixed, **kw)
    for k, v, _ in vals:
        kw[k] = v
    return fn(*fixed, **kw)


def free_form(name, form):
    """the call uses a representation the property text does not speak about (flag as int / numpy.bool_, numpy weight or key
    types, an explicit scipy format name): a refusal is then as acceptable as a correct answer"""
    base = name.partition(":")[0]
    if base in ("glap", "v2f", "vollap", "tetlap", "gag", "bad"):
        return False
    if base == "adj":
        return name == "adj:custom" and form % 4 != 0
    if form % 4 in (1, 2):
        return True
    if base in ("massv", "massf", "massvv", "massvc") and (form // 12) % 6 in (1, 2, 3, 4):
        return True
    if base in ("massv", "massvv", "massvc") and (form + 1) % 4 in (1, 2):
        return True
    return False


def run_op(case, name, mesh=None, form=0):
    import mouette as M
    from mouette import operators as O
    from mouette.processing.connection import SurfaceConnectionFaces, FlatConnectionFaces
    if mesh is None:
        mesh = build(case)
    base, _, arg = name.partition(":")
    if base == "bad":     # calls that must be refused (and leave the mesh as it was)
        try:
            if arg == "weights":
                O.adjacency_matrix(mesh, weights="Length")
            elif arg == "meshtype":
                (O.volume_laplacian if case["kind"] != "volume" else O.laplacian)(mesh)
            else:
                return {"error": "unknown refused-call kind " + arg}
        except Exception as ex:  # noqa   (the class is recorded for information only)
            return {"raised": type(ex).__name__}
        return {"raised": None}
    if base == "lap":
        return entries(call(O.laplacian, [mesh], [("cotan", flag(arg), "cotan")], form))
    if base == "glap":
        return entries(O.graph_laplacian(mesh))
    if base == "ced":
        return entries(call(O.cotan_edge_diagonal, [mesh], [("inverse", flag(arg), "inverse_ced")], form))
    if base == "laptri":
        return entries(call(O.laplacian_triangles, [mesh], [("cotan", flag(arg), "cotan")], form))
    if base == "lapedges":
        return entries(call(O.laplacian_edges, [mesh], [("cotan", flag(arg), "cotan")], form))
    if base in ("gradc", "gradr"):
        conn = SurfaceConnectionFaces(mesh) if arg == "conn" else FlatConnectionFaces(mesh)
        r = entries(call(O.gradient, [mesh, conn], [("as_complex", base == "gradc", "as_complex")], form))
        r["bases"] = [[[float(t) for t in conn.base(i)[0]], [float(t) for t in conn.base(i)[1]]] for i in range(len(mesh.faces))]
        return r
    if base == "gag":   # Re(G^* A G) with scipy's products, on the same mesh object
        conn = SurfaceConnectionFaces(mesh) if arg == "conn" else FlatConnectionFaces(mesh)
        G = O.gradient(mesh, conn)
        A = O.area_weight_matrix_faces(mesh)
        return entries((G.conj().transpose() @ A @ G).real)
    if base == "massv":
        i, s = arg.split(",")
        return entries(call(O.area_weight_matrix, [mesh], [("inverse", flag(i), "inverse"), ("sqrt", flag(s), "sqrt")], form, fmt=True))
    if base == "massf":
        return entries(call(O.area_weight_matrix_faces, [mesh], [("inverse", flag(arg), "inverse")], form, fmt=True))
    if base == "masse":
        return entries(call(O.area_weight_matrix_edges, [mesh], [("inverse", flag(arg), "inverse")], form))
    if base == "adj":
        if arg == "custom":
            cast = [float, np.float64, np.float32, float][form % 4]      # the weights are multiples of 1/4: exact in every type
            items = [((int(e) if form % 2 == 0 else np.int64(e)), cast(x)) for e, x in enumerate(case["custom_w"])]
            ne = len(mesh.edges)
            order = (form // 12) % 4        # insertion order of the dict is free: the weight of edge e is weights[e]
            if order == 1:
                items = items[::-1]
            elif order == 2:
                items = sorted(items, key=lambda kv: (float(kv[1]), -int(kv[0])))
            elif order == 3:
                items = items[ne:] + items[:ne][::2] + items[:ne][1::2]      # keys of no edge first, then evens, then odds
            w = dict(items)
            return entries(O.adjacency_matrix(mesh, w) if (form // 4) % 3 == 1 else O.adjacency_matrix(mesh, weights=w))
        if arg == "one" and (form // 4) % 3 == 2:
            return entries(O.adjacency_matrix(mesh))
        return entries(O.adjacency_matrix(mesh, arg) if (form // 4) % 3 == 1 else O.adjacency_matrix(mesh, weights=arg))
    if base == "v2e":
        return entries(call(O.vertex_to_edge_operator, [mesh], [("oriented", flag(arg), "oriented")], form))
    if base == "v2f":
        return entries(O.vertex_to_face_operator(mesh))
    if base == "vollap":
        return entries(O.volume_laplacian(mesh))
    if base == "tetlap":
        return entries(O.laplacian_tetrahedra(mesh))
    if base == "massvv":
        i, s = arg.split(",")
        return entries(call(O.volume_weight_matrix, [mesh], [("inverse", flag(i), "inverse"), ("sqrt", flag(s), "sqrt")], form, fmt=True))
    if base == "massvc":
        i, s = arg.split(",")
        return entries(call(O.volume_weight_matrix_cells, [mesh], [("inverse", flag(i), "inverse"), ("sqrt", flag(s), "sqrt")], form, fmt=True))
    raise ValueError("unknown operator " + name)


CONTAINERS = ("vertices", "edges", "faces", "face_corners", "cells", "cell_corners", "cell_faces")


def snapshot(mesh):
    """everything stored on the mesh object: element data and every attribute of every container, as comparable blobs"""
    snap = {}
    for cname in CONTAINERS:
        c = getattr(mesh, cname, None)
        if c is None:
            continue
        try:
            items = [c[i] for i in range(len(c))]
            if cname == "vertices":
                snap[cname + "/#data"] = np.asarray(items, dtype=float).tobytes()
            else:
                snap[cname + "/#data"] = repr([tuple(int(t) for t in np.atleast_1d(x)) for x in items])
        except Exception as ex:  # noqa
            snap[cname + "/#data"] = "unreadable: %r" % ex
        for name in list(c.attributes):
            a = c.get_attribute(name)
            d = getattr(a, "_data", None)
            if isinstance(d, np.ndarray):
                snap["%s/%s" % (cname, name)] = d.copy()
            elif isinstance(d, dict):
                snap["%s/%s" % (cname, name)] = repr(sorted((repr(k), np.asarray(v).tolist()) for k, v in d.items()))
            else:
                snap["%s/%s" % (cname, name)] = repr(d)
    return snap


def same_blob(a, b):
    """stored data unchanged: numeric arrays up to the house tolerance 1e-9 (1 + |x|) (an equivalent recomputation of a cached
    attribute is free), everything else exactly"""
    if isinstance(a, np.ndarray):
        if not isinstance(b, np.ndarray) or a.shape != b.shape:
            return False
        if a.dtype.kind in "fc" and b.dtype.kind in "fc":
            with np.errstate(all="ignore"):
                ok = (np.abs(a - b) <= 1e-9 * (1 + np.abs(a))) | ((a == b)) | (np.isnan(a) & np.isnan(b))
            return bool(np.all(ok))
        return bool(np.array_equal(a, b))
    return a == b


def run_pre(mesh, name):
    """persistent attributes computed by the user before the operators are called"""
    import mouette as M
    A = M.attributes
    if name == "face_area":
        A.face_area(mesh, persistent=True)
    elif name == "cotangent":
        A.cotangent(mesh, persistent=True)
    elif name == "corner_angles":
        A.corner_angles(mesh, persistent=True)
    elif name == "face_normals":
        A.face_normals(mesh, persistent=True)
    elif name == "vertex_normals":
        A.vertex_normals(mesh, persistent=True)
    elif name == "edge_length":
        A.edge_length(mesh, persistent=True)
    elif name == "cell_volume":
        A.cell_volume(mesh, persistent=True)
    else:
        raise ValueError("unknown pre-step " + name)


def run_sequence(case, res):
    """call sequence on ONE mesh object; after every call report what it returned and which stored arrays it changed"""
    mesh = build(case)
    res["pre"] = []
    for name in case.get("pre", []):
        try:
            with np.errstate(all="ignore"):
                run_pre(mesh, name)
            res["pre"].append([name, "ok"])
        except Exception as ex:  # noqa
            res["pre"].append([name, "%s: %s" % (type(ex).__name__, ex)])
    steps = []
    forms = case.get("forms") or [0] * len(case["seq"])
    MUTATE_RESULTS[0] = True      # every returned matrix is clobbered after it was read: results must not be shared objects
    for name, form in zip(case["seq"], forms):
        before = snapshot(mesh)
        try:
            with np.errstate(all="ignore"):
                r = run_op(case, name, mesh, form)
        except Exception as ex:  # noqa
            r = {"error": "%s: %s" % (type(ex).__name__, ex)}
        after = snapshot(mesh)
        r["op"] = name
        r["free_form"] = free_form(name, form)
        r["mutated"] = sorted(k for k in before if not same_blob(before[k], after.get(k)))
        steps.append(r)
    res["steps"] = steps


def run_case(case):
    import mouette as M
    saved = M.config.sort_neighborhoods
    try:
        if "sort_neighborhoods" in case:
            M.config.sort_neighborhoods = bool(case["sort_neighborhoods"])
        return run_case_(case)
    finally:
        M.config.sort_neighborhoods = saved


def run_case_(case):
    res = {"outs": {}}
    try:
        mesh = build(case)
        res["edges"] = [[int(a), int(b)] for a, b in mesh.edges]
        if case["kind"] == "surface":
            res["faces"] = [[int(x) for x in f] for f in mesh.faces]
        if case["kind"] == "volume":
            res["cells"] = [[int(x) for x in c] for c in mesh.cells]
    except Exception as ex:  # noqa
        res["error"] = "%s: %s" % (type(ex).__name__, ex)
        return res
    if "seq" in case:
        try:
            run_sequence(case, res)
        except Exception as ex:  # noqa
            res["error"] = "%s: %s" % (type(ex).__name__, ex)
        return res
    MUTATE_RESULTS[0] = False
    forms = case.get("forms") or [0] * len(case["ops"])
    for name, form in zip(case["ops"], forms):
        try:
            with np.errstate(all="ignore"):
                res["outs"][name] = run_op(case, name, None, form)
        except Exception as ex:  # noqa
            res["outs"][name] = {"error": "%s: %s" % (type(ex).__name__, ex)}
        res["outs"][name]["free_form"] = free_form(name, form)
    return res


def main():
    payload = json.load(sys.stdin)
    out = {"cases": [run_case(c) for c in payload["cases"]]}
    print("@@JSON " + json.dumps(out))


if __name__ == "__main__":
    main()
