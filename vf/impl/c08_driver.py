"""Runs mouette's discrete differential operators on small meshes and reports canonical observations.

stdin : {"cases": [ {"kind": "surface"|"volume"|"polyline", "V": [[x,y,z],..], "F": [[a,b,c],..], "C": [[a,b,c,d],..],
                     "E": [[a,b],..] (polylines only), "ops": [opname,..], "custom_w": [w_e,..]} , ..]}
stdout: '@@JSON ' + {"cases": [ {"edges": [[a,b],..], "outs": {opname: {"shape":[r,c], "ent":[[i,j,v],..]} | {"error": s}},
                                 "bases": {"conn": [[X,Y],..], "flat": [[X,Y],..]}} ]}
Entries are the summed coefficients of the returned scipy.sparse matrix, sorted by (row, col), exact zeros dropped;
complex matrices give [i, j, re, im].  Every operator call gets a FRESH mesh object (the operators cache attributes).
"""
import json
import sys
import warnings

import numpy as np

warnings.simplefilter("ignore")


def build(case):
    import mouette as M
    d = M.mesh.RawMeshData()
    d.vertices += [M.Vec(float(x), float(y), float(z)) for x, y, z in case["V"]]
    kind = case["kind"]
    if kind == "surface":
        d.faces += [tuple(int(x) for x in f) for f in case["F"]]
        d.prepare()
        return M.mesh.SurfaceMesh(d)
    if kind == "volume":
        d.cells += [tuple(int(x) for x in c) for c in case["C"]]
        d.prepare()
        return M.mesh.VolumeMesh(d)
    if kind == "polyline":
        d.edges += [tuple(int(x) for x in e) for e in case["E"]]
        d.prepare()
        return M.mesh.PolyLine(d)
    raise ValueError(kind)


def entries(mat):
    import scipy.sparse as sp
    if not sp.issparse(mat):
        raise TypeError("operator returned %s, not a scipy sparse matrix" % type(mat).__name__)
    co = sp.coo_matrix(mat)
    co.sum_duplicates()
    cplx = np.iscomplexobj(co.data)
    out = []
    for i, j, v in sorted(zip(co.row.tolist(), co.col.tolist(), co.data.tolist())):
        if cplx:
            if v.real == 0 and v.imag == 0:
                continue
            out.append([int(i), int(j), fl(v.real), fl(v.imag)])
        else:
            if v == 0:
                continue
            out.append([int(i), int(j), fl(v)])
    return {"shape": [int(mat.shape[0]), int(mat.shape[1])], "ent": out, "complex": bool(cplx),
            "format": type(mat).__name__}


def fl(x):
    x = float(x)
    if x != x:
        return "nan"
    if x in (float("inf"), float("-inf")):
        return "inf" if x > 0 else "-inf"
    return x


def flag(s):
    return s == "1"


def run_op(case, name):
    import mouette as M
    from mouette import operators as O
    from mouette.processing.connection import SurfaceConnectionFaces, FlatConnectionFaces
    mesh = build(case)
    base, _, arg = name.partition(":")
    if base == "lap":
        return entries(O.laplacian(mesh, cotan=flag(arg)))
    if base == "glap":
        return entries(O.graph_laplacian(mesh))
    if base == "ced":
        return entries(O.cotan_edge_diagonal(mesh, inverse=flag(arg)))
    if base == "laptri":
        return entries(O.laplacian_triangles(mesh, cotan=flag(arg)))
    if base == "lapedges":
        return entries(O.laplacian_edges(mesh, cotan=flag(arg)))
    if base in ("gradc", "gradr"):
        conn = SurfaceConnectionFaces(mesh) if arg == "conn" else FlatConnectionFaces(mesh)
        r = entries(O.gradient(mesh, conn, as_complex=(base == "gradc")))
        r["bases"] = [[[float(t) for t in conn.base(i)[0]], [float(t) for t in conn.base(i)[1]]] for i in range(len(mesh.faces))]
        return r
    if base == "massv":
        i, s = arg.split(",")
        return entries(O.area_weight_matrix(mesh, inverse=flag(i), sqrt=flag(s)))
    if base == "massf":
        return entries(O.area_weight_matrix_faces(mesh, inverse=flag(arg)))
    if base == "masse":
        return entries(O.area_weight_matrix_edges(mesh, inverse=flag(arg)))
    if base == "adj":
        if arg == "custom":
            return entries(O.adjacency_matrix(mesh, weights={e: float(w) for e, w in enumerate(case["custom_w"])}))
        return entries(O.adjacency_matrix(mesh, weights=arg))
    if base == "v2e":
        return entries(O.vertex_to_edge_operator(mesh, oriented=flag(arg)))
    if base == "v2f":
        return entries(O.vertex_to_face_operator(mesh))
    if base == "vollap":
        return entries(O.volume_laplacian(mesh))
    if base == "tetlap":
        return entries(O.laplacian_tetrahedra(mesh))
    if base == "massvv":
        i, s = arg.split(",")
        return entries(O.volume_weight_matrix(mesh, inverse=flag(i), sqrt=flag(s)))
    if base == "massvc":
        i, s = arg.split(",")
        return entries(O.volume_weight_matrix_cells(mesh, inverse=flag(i), sqrt=flag(s)))
    raise ValueError("unknown operator " + name)


def run_case(case):
    res = {"outs": {}}
    try:
        mesh = build(case)
        res["edges"] = [[int(a), int(b)] for a, b in mesh.edges]
        if case["kind"] == "surface":
            res["faces"] = [[int(x) for x in f] for f in mesh.faces]
        if case["kind"] == "volume":
            res["cells"] = [[int(x) for x in c] for c in mesh.cells]
    except Exception as ex:  # noqa
        res["error"] = "%s: %s" % (type(ex).__name__, ex)
        return res
    for name in case["ops"]:
        try:
            with np.errstate(all="ignore"):
                res["outs"][name] = run_op(case, name)
        except Exception as ex:  # noqa
            res["outs"][name] = {"error": "%s: %s" % (type(ex).__name__, ex)}
    return res


def main():
    payload = json.load(sys.stdin)
    out = {"cases": [run_case(c) for c in payload["cases"]]}
    print("@@JSON " + json.dumps(out))


if __name__ == "__main__":
    main()
