"""Independent restatement of C13 on concrete outputs (search for a failing input only; nothing here is trusted
by the proofs).  Works on the dumps of vf/impl/c13_driver.py with exact Fractions.

Each check returns a list of (class_key, message); empty = the case satisfies the property.
class keys:  result/<what>   the refined mesh itself is wrong (counts, validity, topology, geometry, stale answers)
             accept/<Error>  a documented input was rejected
             arg/<what>      the mesh object passed in is neither unchanged nor equal to the result
"""
from fractions import Fraction
import math


def P(v):
    return tuple(Fraction(n, d) for n, d in v)


def pts(d):
    return [P(v) for v in d["V"]]


def sub(a, b):
    return tuple(x - y for x, y in zip(a, b))


def add(a, b):
    return tuple(x + y for x, y in zip(a, b))


def cross(a, b):
    return (a[1] * b[2] - a[2] * b[1], a[2] * b[0] - a[0] * b[2], a[0] * b[1] - a[1] * b[0])


def dot(a, b):
    return sum(x * y for x, y in zip(a, b))


def key(*a):
    return tuple(sorted(a))


TOL = Fraction(1, 10 ** 9)


def close(a, b):
    """house tolerance 1e-9 (1 + |b|) on exact rationals"""
    return abs(a - b) <= TOL * (1 + abs(b))


def pclose(p, q):
    return all(close(x, y) for x, y in zip(p, q))


def same_points(got, want):
    """the two point lists agree as multisets, up to the tolerance"""
    if len(got) != len(want):
        return False
    if sorted(got) == sorted(want):
        return True
    free = list(got)
    for w in want:
        for i, g in enumerate(free):
            if pclose(g, w):
                del free[i]
                break
        else:
            return False
    return True


# ---------------------------------------------------------------------- surface topology by half-edge counting
def surface_report(nV, F):
    """validity + invariants of a face list: returns (problems, info)"""
    prob = []
    he = {}
    for i, f in enumerate(F):
        n = len(f)
        if n < 3:
            prob.append("face %d has %d vertices" % (i, n))
            continue
        if len(set(f)) != n:
            prob.append("face %d repeats a vertex: %s" % (i, f))
        for k in range(n):
            a, b = f[k], f[(k + 1) % n]
            if not (0 <= a < nV):
                prob.append("face %d refers to vertex %d (only %d vertices)" % (i, a, nV))
            if (a, b) in he:
                prob.append("directed edge %s used by faces %d and %d (not an oriented manifold)" % ((a, b), he[(a, b)], i))
            he[(a, b)] = i
    und = {}
    for (a, b) in he:
        und.setdefault(key(a, b), []).append((a, b))
    border = [(a, b) for (a, b) in he if (b, a) not in he]
    # vertex manifoldness: the faces around a vertex form one fan (chain or cycle)
    out = {}
    inc = {}
    for (a, b), f in he.items():
        out.setdefault(a, []).append(b)
        inc.setdefault(b, []).append(a)
    bout = {}
    for (a, b) in border:
        bout.setdefault(a, []).append(b)
    for v, l in bout.items():
        if len(l) > 1:
            prob.append("vertex %d has %d outgoing border edges (not a manifold vertex)" % (v, len(l)))
    # rotate around each vertex: next spoke after a->b in face f is a->prev(f, a)
    prev_in_face = {}
    for i, f in enumerate(F):
        n = len(f)
        for k in range(n):
            prev_in_face[(i, f[k])] = f[(k - 1) % n]
    for v, spokes in out.items():
        start = bout[v][0] if v in bout else spokes[0]
        seen = 0
        cur = start
        while True:
            f = he.get((v, cur))
            if f is None:
                break
            seen += 1
            cur = prev_in_face[(f, v)]
            if cur == start or seen > len(spokes) + 1:
                break
        if seen != len(spokes):
            prob.append("the faces at vertex %d do not form a single fan (not a manifold vertex)" % v)
    # border loops
    nxt = {a: b for (a, b) in border}
    loops = 0
    seenb = set()
    for a in list(nxt):
        if a in seenb:
            continue
        loops += 1
        c = a
        guard = 0
        while c not in seenb and c in nxt and guard <= len(nxt):
            seenb.add(c)
            c = nxt[c]
            guard += 1
    # components (over used vertices) by union-find
    par = {}

    def find(x):
        while par.setdefault(x, x) != x:
            par[x] = par[par[x]]
            x = par[x]
        return x
    for f in F:
        for v in f[1:]:
            par[find(f[0])] = find(v)
    used = {v for f in F for v in f}
    comps = len({find(v) for v in used})
    E = len(und)
    info = {"V_used": len(used), "E": E, "F": len(F), "chi": len(used) - E + len(F), "loops": loops, "comps": comps,
            "border_edges": len(border), "edge_keys": set(und)}
    return prob, info


def vector_area(pl):
    s = (Fraction(0),) * 3
    n = len(pl)
    for k in range(n):
        s = add(s, cross(pl[k], pl[(k + 1) % n]))
    return tuple(x / 2 for x in s)


def total_area_float(V, F):
    t = 0.0
    for f in F:
        # triangles of the fan from the first vertex (exact per triangle, summed in floats)
        for k in range(1, len(f) - 1):
            c = cross(sub(V[f[k]], V[f[0]]), sub(V[f[k + 1]], V[f[0]]))
            t += math.sqrt(float(dot(c, c))) / 2
    return t


def total_signed_planar_area(V, F):
    """exact, for meshes in the plane z = 0 with counter-clockwise faces; also reports a clockwise face"""
    t = Fraction(0)
    neg = None
    for i, f in enumerate(F):
        a = vector_area([V[v] for v in f])[2]
        if a <= 0:
            neg = i
        t += a
    return t, neg


# ---------------------------------------------------------------------- documented element counts
def predict_surface_counts(nV, E, F_ar, ops):
    """documented deltas, tracked on the list of face arities (independent of any vertex numbering)"""
    ar = list(F_ar)

    def tri_face(i):
        nonlocal nV, E
        n = ar[i]
        if n < 4:
            return
        if n == 4:
            ar[i] = 3
            ar.append(3)
            E += 1
        else:
            fan(i)

    def fan(i):
        nonlocal nV, E
        n = ar[i]
        nV += 1
        E += n
        ar[i] = 3
        ar.extend([3] * (n - 1))

    def triangulate():
        for i in range(len(ar)):
            if ar[i] != 3:
                tri_face(i)
    for op in ops:
        nm = op[0]
        if nm == "triface":
            tri_face(op[1])
        elif nm == "fan":
            fan(op[1])
        elif nm == "triangulate":
            triangulate()
        elif nm == "loop":
            triangulate()
            for _ in range(max(0, op[1])):
                nF = len(ar)
                nV, E = nV + E, 2 * E + 3 * nF
                ar[:] = [3] * (4 * nF)
        elif nm == "quads3":
            triangulate()
            nF = len(ar)
            nV, E = nV + E + nF, 2 * E + 3 * nF
            ar[:] = [4] * (3 * nF)
        elif nm == "tri6":
            for _ in range(max(0, op[1])):
                triangulate()
                nF = len(ar)
                nV, E = nV + E + nF, 2 * E + 3 * nF
                ar[:] = [4] * (3 * nF)
                triangulate()
    return nV, E, sorted(ar)


# ---------------------------------------------------------------------- centres
def midpoint_multiset(V, edges):
    return sorted(tuple((a + b) / 2 for a, b in zip(V[x], V[y])) for x, y in edges)


def bary(V, f):
    n = len(f)
    return tuple(sum(V[v][k] for v in f) / n for k in range(3))


def new_vertex_plausible(V, i):
    """V[i] is (within the tolerance) the midpoint of two earlier vertices, or the barycentre of 3..7 earlier ones.
    Returns True also when the mesh is too large to decide here (not judged)."""
    p = V[i]
    early = V[:i]
    idx = set(early)
    for a in early:
        b = tuple(2 * x - y for x, y in zip(p, a))
        if b in idx:
            return True
    if i > 90:
        return True              # undecided
    for a in early:
        for b in early:
            if pclose(tuple((x + y) / 2 for x, y in zip(a, b)), p):
                return True
    import itertools
    for k in (3, 4, 5, 6, 7):
        if k > i:
            break
        if math.comb(i, k) > 20000:
            return True          # undecided
        for c in itertools.combinations(range(i), k):
            if pclose(tuple(sum(V[v][d] for v in c) / k for d in range(3)), p):
                return True
    return False


def non_simple_surface(F):
    """None, or (class, why) when the face list belongs to one of the two recorded input classes on which the editors
    return a non-manifold mesh (both are known findings with their own key):
      "same-vertex-triangles": two triangles on the same three vertices (loop_subdivision / subdivide_triangles_6 identify
                               the interior edges of the two refinements);
      "joined-cut": a quad (A,B,C,D) whose diagonal B-D - the one triangulate_face cuts along - is already an edge, or is
                    the cut of another quad."""
    tri = {}
    for i, f in enumerate(F):
        if len(f) == 3:
            k = key(*f)
            if k in tri:
                return ("same-vertex-triangles", "triangles %d and %d have the same three vertices %s" % (tri[k], i, k))
            tri[k] = i
    edges = {}
    for i, f in enumerate(F):
        n = len(f)
        for k in range(n):
            edges.setdefault(key(f[k], f[(k + 1) % n]), []).append(i)
    cuts = {}
    for i, f in enumerate(F):
        if len(f) == 4:
            d = key(f[1], f[3])
            if d in edges:
                return ("joined-cut", "the diagonal %s along which quad %d is cut is already an edge" % (d, i))
            if d in cuts:
                return ("joined-cut", "quads %d and %d are cut along the same diagonal %s" % (cuts[d], i, d))
            cuts[d] = i
    return None


# ---------------------------------------------------------------------- the checks
def same_dump(a, b, keys):
    return all(a.get(k) == b.get(k) for k in keys)


def check_arg(case, o, keys, out):
    """the mesh object passed in is unchanged or equal to the result"""
    inp, res, arg = o["input"], o["res"], o["arg"]
    if o.get("same_obj"):
        if not o["arg_conn_ok"]:
            out.append(("result/stale-connectivity", "the returned object (the argument itself) answers connectivity queries from outdated tables"))
        return
    unchanged = same_dump(arg, inp, keys) and o["arg_conn_ok"]
    equal = same_dump(arg, res, keys) and o["arg_conn_ok"]
    if not (unchanged or equal):
        why = []
        for k in keys:
            if arg.get(k) != inp.get(k) and arg.get(k) != res.get(k):
                why.append("%s has %d entries (input %d, result %d)" % (k, len(arg.get(k, [])), len(inp.get(k, [])), len(res.get(k, []))))
        if not o["arg_conn_ok"]:
            why.append("its connectivity answers do not describe its own element lists")
        if not why:
            why.append("some containers equal the input and others the result")
        out.append(("arg/half-updated", "the mesh passed in is neither unchanged nor equal to the result: " + "; ".join(why)))


def check_surface(case, o, single_centres=True):
    out = []
    if o["status"] == "err":
        if case.get("expect_error"):
            return out
        out.append(("accept/" + o["err"].split(":")[0], "documented input rejected with " + o["err"]))
        return out
    if case.get("expect_error"):
        return out               # an element id that does not exist was answered: the text does not require a refusal - not judged
    inp, res = o["input"], o["res"]
    V0, V1 = pts(inp), pts(res)
    F0, F1 = inp["F"], res["F"]
    if res["type"] != "SurfaceMesh":
        out.append(("result/type", "result is a " + res["type"]))
    p0, i0 = surface_report(len(V0), F0)
    if p0:
        return [("harness/bad-input", "generator produced an invalid surface: " + p0[0])]
    p1, i1 = surface_report(len(V1), F1)
    for m in p1[:3]:
        out.append(("result/invalid", m))
    # counts
    ops = case.get("ops") or []
    eV, eE, eAr = predict_surface_counts(len(V0), len(inp["E"]), [len(f) for f in F0], ops)
    got = (len(V1), len(res["E"]), sorted(len(f) for f in F1))
    if got != (eV, eE, eAr):
        out.append(("result/counts", "element counts (V,E,face arities): got %s, documented %s" %
                    ((got[0], got[1], summarize(got[2])), (eV, eE, summarize(eAr)))))
    # edges list = edges of the faces, each once, smallest index first
    ek = [key(*e) for e in res["E"]]
    if len(set(ek)) != len(ek) or any(a == b for a, b in ek) or set(ek) != i1["edge_keys"]:
        out.append(("result/edges", "the edge list is not exactly the set of face edges (each once)"))
    if sorted(map(tuple, res["corn"])) != sorted((v, i) for i, f in enumerate(F1) for v in f):
        out.append(("result/corners", "face corners are not the (vertex, face) incidences of the faces"))
    if not p1:
        unused = len(V1) - i1["V_used"]
        if unused != len(V0) - i0["V_used"]:
            out.append(("result/dangling", "%d vertices of the result belong to no face" % unused))
        for k, what in (("chi", "Euler characteristic"), ("loops", "number of border loops"), ("comps", "number of components")):
            if i0[k] != i1[k]:
                out.append(("result/topology", "%s changed from %s to %s" % (what, i0[k], i1[k])))
    # geometry
    if V1[:len(V0)] != V0:
        out.append(("result/moved", "an original vertex moved or was renumbered"))
    if case.get("planar"):
        a0, n0 = total_signed_planar_area(V0, F0)
        a1, n1 = total_signed_planar_area(V1, F1)
        if not close(a1, a0):
            out.append(("result/area", "total area changed from %s to %s" % (a0, a1)))
        if n0 is None and n1 is not None:
            out.append(("result/orientation", "face %d of the result is clockwise or degenerate" % n1))
    elif all(len(f) == 3 for f in F0):
        a0, a1 = total_area_float(V0, F0), total_area_float(V1, F1)
        if abs(a0 - a1) > 1e-9 * (1 + abs(a0)):
            out.append(("result/area", "total area changed from %r to %r" % (a0, a1)))
    # centres
    newv = range(len(V0), len(V1))
    if len(ops) == 1 and all(len(f) == 3 for f in F0):
        nm = ops[0][0]
        E0 = [tuple(e) for e in inp["E"]]
        want = None
        if nm == "loop" and ops[0][1] == 1:
            want = midpoint_multiset(V0, E0)
        elif nm == "quads3" or (nm == "tri6" and ops[0][1] == 1):
            want = sorted(midpoint_multiset(V0, E0) + [bary(V0, f) for f in F0])
        elif nm == "fan":
            want = [bary(V0, F0[ops[0][1]])]
        if want is not None and not same_points(V1[len(V0):], want):
            out.append(("result/centres", "the new vertices are not the centres of the refined edges/faces"))
    elif len(ops) == 1 and ops[0][0] in ("fan", "triface") and len(F0[ops[0][1]]) >= 5:
        if not same_points(V1[len(V0):], [bary(V0, F0[ops[0][1]])]):
            out.append(("result/centres", "the new vertex is not the barycentre of the fanned face"))
    else:
        for i in newv:
            if not new_vertex_plausible(V1, i):
                out.append(("result/centres", "new vertex %d is neither a midpoint nor a barycentre of earlier vertices" % i))
                break
    if not o["res_conn_ok"]:
        out.append(("result/stale-connectivity", "connectivity answers of the result do not describe the refined mesh" + (" (accessors differing from a mesh rebuilt from the element lists: %s)" % ", ".join(o["res_conn_diff"]) if o.get("res_conn_diff") else "")))
    check_arg(case, o, ["V", "E", "F", "corn"], out)
    return out


def summarize(ar):
    d = {}
    for a in ar:
        d[a] = d.get(a, 0) + 1
    return sorted(d.items())


def check_split_double(case, o):
    out = []
    if o["status"] == "err":
        out.append(("accept/" + o["err"].split(":")[0], "documented input rejected with " + o["err"]))
        return out
    inp, res = o["input"], o["res"]
    V0, V1 = pts(inp), pts(res)
    F0, F1 = inp["F"], res["F"]
    p0, i0 = surface_report(len(V0), F0)
    if p0:
        return [("harness/bad-input", "generator produced an invalid surface: " + p0[0])]
    # documented: every triangle with a vertex of degree 2 is split in three around its barycentre
    deg = [0] * len(V0)
    for a, b in inp["E"]:
        deg[a] += 1
        deg[b] += 1
    pb = [i for i, f in enumerate(F0) if any(deg[v] == 2 for v in f)]
    p1, i1 = surface_report(len(V1), F1)
    for m in p1[:3]:
        out.append(("result/invalid", m))
    if (len(V1), len(F1), len(res["E"])) != (len(V0) + len(pb), len(F0) + sum(len(F0[i]) - 1 for i in pb),
                                               len(inp["E"]) + sum(len(F0[i]) for i in pb)):
        out.append(("result/counts", "counts (V,F,E) %s do not match %d split faces" % ((len(V1), len(F1), len(res["E"])), len(pb))))
    if not same_points(V1[len(V0):], [bary(V0, F0[i]) for i in pb]):
        out.append(("result/centres", "the new vertices are not the barycentres of the split triangles"))
    if V1[:len(V0)] != V0:
        out.append(("result/moved", "an original vertex moved"))
    if not p1:
        for k, what in (("chi", "Euler characteristic"), ("loops", "number of border loops"), ("comps", "number of components")):
            if i0[k] != i1[k]:
                out.append(("result/topology", "%s changed from %s to %s" % (what, i0[k], i1[k])))
        deg1 = [0] * len(V1)
        for a, b in res["E"]:
            deg1[a] += 1
            deg1[b] += 1
        if any(all(len(f) == 3 for f in [g]) and any(deg1[v] == 2 for v in g) and False for g in F1):
            pass
    ek = [key(*e) for e in res["E"]]
    if len(set(ek)) != len(ek) or set(ek) != i1["edge_keys"]:
        out.append(("result/edges", "the edge list is not exactly the set of face edges"))
    if case.get("planar"):
        a0, _ = total_signed_planar_area(V0, F0)
        a1, n1 = total_signed_planar_area(V1, F1)
        if not close(a1, a0) or n1 is not None:
            out.append(("result/area", "total area changed from %s to %s" % (a0, a1)))
    if not o["res_conn_ok"] or not o.get("res_boundary_ok", True):
        out.append(("result/stale-connectivity", "connectivity / boundary answers of the returned mesh do not describe the refined mesh" + (" (accessors differing from a mesh rebuilt from the element lists: %s)" % ", ".join(o["res_conn_diff"]) if o.get("res_conn_diff") else "")))
    check_arg(case, o, ["V", "E", "F", "corn"], out)
    return out


def check_polyline(case, o):
    out = []
    if o["status"] == "err":
        if case.get("expect_error"):
            return out
        out.append(("accept/" + o["err"].split(":")[0], "documented input rejected with " + o["err"]))
        return out
    if case.get("expect_error"):
        return []                # not judged (see check_surface)
    inp, res = o["input"], o["res"]
    V0, V1 = pts(inp), pts(res)
    E0 = [tuple(e) for e in inp["E"]]
    E1 = [key(*e) if len(e) == 2 else tuple(e) for e in res["E"]]        # which end of an edge is listed first is free
    k = len(case["splits"])
    if (len(V1), len(E1)) != (len(V0) + k, len(E0) + k):
        out.append(("result/counts", "counts (V,E) %s after %d splits of (%d,%d)" % ((len(V1), len(E1)), k, len(V0), len(E0))))
    if any(len(e) != 2 or e[0] == e[1] or not (0 <= e[0] and e[1] < len(V1)) for e in E1) or len(set(E1)) != len(E1):
        out.append(("result/invalid", "edge list is not a list of distinct pairs of valid vertices: %s" % (E1[:6],)))
        return out
    if V1[:len(V0)] != V0:
        out.append(("result/moved", "an original vertex moved"))

    def comps(nv, E):
        par = list(range(nv))

        def f(x):
            while par[x] != x:
                par[x] = par[par[x]]
                x = par[x]
            return x
        for a, b in E:
            par[f(a)] = f(b)
        return len({f(v) for v in range(nv)})
    if comps(len(V0), E0) != comps(len(V1), E1):
        out.append(("result/topology", "number of components changed"))
    deg = [0] * len(V1)
    for a, b in E1:
        deg[a] += 1
        deg[b] += 1
    deg0 = [0] * len(V0)
    for a, b in E0:
        deg0[a] += 1
        deg0[b] += 1
    if deg[:len(V0)] != deg0 or any(d != 2 for d in deg[len(V0):]):
        out.append(("result/topology", "vertex degrees changed (old %s -> %s)" % (deg0, deg)))
    # each new vertex is the midpoint of the two vertices it is linked to at creation: check collinearity-free form:
    # total length is unchanged (exact squared lengths of halves) and new vertices are midpoints of earlier pairs
    for i in range(len(V0), len(V1)):
        if not new_vertex_plausible(V1, i):
            out.append(("result/centres", "new vertex %d is not the midpoint of two earlier vertices" % i))
            break
    if k == 1:
        a, b = E0[case["splits"][0]]
        if not pclose(V1[-1], tuple((x + y) / 2 for x, y in zip(V0[a], V0[b]))):
            out.append(("result/centres", "the new vertex is not the midpoint of the split edge"))
        if sorted(E1) != sorted([e for j, e in enumerate(E0) if j != case["splits"][0]] + [key(a, len(V0)), key(b, len(V0))]):
            out.append(("result/edges", "the split edge was not replaced by its two halves"))
    l0 = sum(math.sqrt(float(dot(sub(V0[a], V0[b]), sub(V0[a], V0[b])))) for a, b in E0)
    l1 = sum(math.sqrt(float(dot(sub(V1[a], V1[b]), sub(V1[a], V1[b])))) for a, b in E1)
    if abs(l0 - l1) > 1e-9 * (1 + l0):
        out.append(("result/length", "total length changed from %r to %r" % (l0, l1)))
    if not o["res_conn_ok"]:
        out.append(("result/stale-connectivity", "connectivity answers of the returned polyline do not describe the refined polyline" + (" (accessors differing from a mesh rebuilt from the element lists: %s)" % ", ".join(o["res_conn_diff"]) if o.get("res_conn_diff") else "")))
    check_arg(case, o, ["V", "E"], out)
    return out


def signed_vol6(V, c):
    a, b, cc, d = (V[v] for v in c)
    return dot(sub(b, a), cross(sub(cc, a), sub(d, a)))


def volume_report(nV, C):
    prob = []
    faces = {}
    for i, c in enumerate(C):
        if len(c) != 4 or len(set(c)) != 4:
            prob.append("cell %d is not a tetrahedron on 4 distinct vertices: %s" % (i, c))
            continue
        if any(not (0 <= v < nV) for v in c):
            prob.append("cell %d refers to a missing vertex" % i)
        for k in range(4):
            faces.setdefault(key(*(c[:k] + c[k + 1:])), []).append(i)
    for f, l in faces.items():
        if len(l) > 2:
            prob.append("face %s belongs to %d cells" % (f, len(l)))
    edges = set()
    for c in C:
        for i in range(len(c)):
            for j in range(i + 1, len(c)):
                edges.add(key(c[i], c[j]))
    par = {}

    def find(x):
        while par.setdefault(x, x) != x:
            par[x] = par[par[x]]
            x = par[x]
        return x
    for c in C:
        for v in c[1:]:
            par[find(c[0])] = find(v)
    used = {v for c in C for v in c}
    bnd = [f for f, l in faces.items() if len(l) == 1]
    info = {"V_used": len(used), "E": len(edges), "F": len(faces), "C": len(C),
            "chi": len(used) - len(edges) + len(faces) - len(C), "comps": len({find(v) for v in used}),
            "bnd": len(bnd), "faces": set(faces), "edges": edges}
    # the boundary is a closed surface: every boundary edge lies on exactly two boundary faces
    be = {}
    for f in bnd:
        for i in range(3):
            for j in range(i + 1, 3):
                be[key(f[i], f[j])] = be.get(key(f[i], f[j]), 0) + 1
    if any(n != 2 for n in be.values()):
        prob.append("the boundary faces do not form a closed surface")
    info["bnd_chi"] = len({v for f in bnd for v in f}) - len(be) + len(bnd)
    return prob, info


def check_volume(case, o):
    out = []
    if o["status"] == "err":
        if case.get("expect_error"):
            return out
        out.append(("accept/" + o["err"].split(":")[0], "documented input rejected with " + o["err"]))
        return out
    if case.get("expect_error"):
        return []                # not judged (see check_surface)
    inp, res = o["input"], o["res"]
    V0, V1 = pts(inp), pts(res)
    C0, C1 = inp["C"], res["C"]
    p0, i0 = volume_report(len(V0), C0)
    if p0:
        return [("harness/bad-input", "generator produced an invalid tetrahedral mesh: " + p0[0])]
    if res["type"] != "VolumeMesh":
        out.append(("result/type", "result is a " + res["type"]))
    p1, i1 = volume_report(len(V1), C1)
    for m in p1[:3]:
        out.append(("result/invalid", m))
    ops = case["ops"]
    if len(V1) != len(V0) + len(ops):
        out.append(("result/counts", "%d vertices after %d splits of a mesh with %d" % (len(V1), len(ops), len(V0))))
    if all(op[0] == "cellfan" for op in ops) and len(C1) != len(C0) + 3 * len(ops):
        out.append(("result/counts", "%d cells after %d cell fans of a mesh with %d" % (len(C1), len(ops), len(C0))))
    if not p1:
        for k, what in (("chi", "Euler characteristic"), ("comps", "number of components"), ("bnd_chi", "Euler characteristic of the boundary")):
            if i0[k] != i1[k]:
                out.append(("result/topology", "%s changed from %s to %s" % (what, i0[k], i1[k])))
        if len(V1) - i1["V_used"] != len(V0) - i0["V_used"]:
            out.append(("result/dangling", "a vertex of the result belongs to no cell"))
    if {key(*f) for f in res["F"]} != i1["faces"] or len(res["F"]) != len(i1["faces"]):
        out.append(("result/faces", "the face list is not exactly the set of cell faces (%d listed, %d faces of cells)" % (len(res["F"]), len(i1["faces"]))))
    if {key(*e) for e in res["E"]} != i1["edges"] or len(res["E"]) != len(i1["edges"]):
        out.append(("result/edges", "the edge list is not exactly the set of cell edges"))
    if V1[:len(V0)] != V0:
        out.append(("result/moved", "an original vertex moved"))
    if not any(len(c) != 4 for c in C1):
        v0 = sum(signed_vol6(V0, c) for c in C0)
        v1 = sum(signed_vol6(V1, c) for c in C1)
        a0 = sum(abs(signed_vol6(V0, c)) for c in C0)
        a1 = sum(abs(signed_vol6(V1, c)) for c in C1)
        if not close(v1, v0) or not close(a1, a0):
            out.append(("result/volume", "total volume changed: signed %s -> %s, absolute %s -> %s (x6)" % (v0, v1, a0, a1)))
        if any(signed_vol6(V1, c) == 0 for c in C1):
            out.append(("result/volume", "a flat cell was created"))
    # listed faces on the boundary keep the side they show to their (single) cell
    def boundary_sides(V, C, F):
        owner = {}
        for ci, c in enumerate(C):
            if len(c) == 4:
                for k in range(4):
                    owner.setdefault(key(*(c[:k] + c[k + 1:])), []).append(ci)
        sides = set()
        for f in F:
            own = owner.get(key(*f), [])
            if len(f) == 3 and len(own) == 1:
                c = C[own[0]]
                opp = [v for v in c if v not in f]
                if len(opp) == 1:
                    s1 = signed_vol6(V, [f[0], f[1], f[2], opp[0]])
                    s2 = signed_vol6(V, c)
                    if s1 != 0 and s2 != 0:
                        sides.add((s1 > 0) == (s2 > 0))
        return sides
    if not p1 and not any(len(c) != 4 for c in C1):
        b0, b1 = boundary_sides(V0, C0, inp["F"]), boundary_sides(V1, C1, res["F"])
        if len(b0) == 1 and b1 != b0:
            out.append(("result/orientation", "a boundary face of the result is oriented against the convention of the input"))
    if len(ops) == 1:
        if ops[0][0] == "cellfan":
            c = C0[ops[0][1]]
            want = tuple(sum(V0[v][k] for v in c) / 4 for k in range(3))
        else:
            f = inp["F"][ops[0][1]]
            want = tuple(sum(V0[v][k] for v in f) / 3 for k in range(3))
        if not same_points(V1[len(V0):], [want]):
            out.append(("result/centres", "the new vertex is not the barycentre of the split %s" % ("cell" if ops[0][0] == "cellfan" else "face")))
    if sorted(map(tuple, res["corn"])) != sorted((v, i) for i, f in enumerate(res["F"]) for v in f) or \
            sorted(map(tuple, res["ccorn"])) != sorted((v, i) for i, c in enumerate(C1) for v in c):
        out.append(("result/corners", "corner containers are not the (vertex, face) / (vertex, cell) incidences"))
    if not o["res_conn_ok"]:
        out.append(("result/stale-connectivity", "connectivity answers of the result do not describe the refined mesh" + (" (accessors differing from a mesh rebuilt from the element lists: %s)" % ", ".join(o["res_conn_diff"]) if o.get("res_conn_diff") else "")))
    check_arg(case, o, ["V", "E", "F", "C", "corn", "ccorn"], out)
    return out


def check(case, o):
    if o.get("unswept") or (o.get("after") or {}).get("unswept"):
        return [("harness/accessor", "public accessors the sweep does not know how to call: %s" % (o.get("unswept") or o["after"].get("unswept")))]
    if o.get("status") == "driver-error":
        return [("harness/driver", "the driver could not build the input: " + o.get("err", "?"))]
    k = case["kind"]
    if k == "surf":
        return check_surface(case, o)
    if k == "sd":
        return check_split_double(case, o)
    if k == "poly":
        return check_polyline(case, o)
    if k == "vol":
        return check_volume(case, o)
    return [("harness/kind", "unknown case kind")]
