"""Runs mouette's samplers and Bezier code on /repo's working tree and reports canonical observations.

stdin : {"cases": [case, ...]}        stdout: '@@JSON ' + {"obs": [obs, ...]}

Randomness: numpy's global generator is seeded per case and the functions the samplers draw from
(np.random.normal / uniform / random, and the names `random`, `choice` imported into mouette.sampling) are
wrapped so that every draw handed to the implementation is RECORDED (with the arguments of the call); the
recorded numbers are what the Coq model is fed.  Nothing in /repo is modified.
"""
import json
import sys
import warnings

warnings.filterwarnings("ignore")
import numpy as np  # noqa: E402


def fl(x):
    return float(x)


def vec(v):
    return [float(t) for t in np.asarray(v, dtype=float).ravel()]


class Recorder:
    def __init__(self):
        self.calls = []

    def install(self):
        import mouette.sampling as S
        self.S = S
        self.saved = (np.random.normal, np.random.uniform, np.random.random, S.random, S.choice)
        o_normal, o_uniform, o_random, s_random, s_choice = self.saved
        rec = self.calls

        def normal(*a, **k):
            r = o_normal(*a, **k)
            rec.append({"fn": "normal", "args": [repr(x) for x in a], "kw": {q: repr(v) for q, v in k.items()}, "out": vec(r)})
            return r

        def uniform(*a, **k):
            r = o_uniform(*a, **k)
            rec.append({"fn": "uniform", "lo": fl(a[0]), "hi": fl(a[1]), "out": vec(r)})
            return r

        def random(*a, **k):
            r = o_random(*a, **k)
            rec.append({"fn": "random", "shape": list(np.shape(r)), "out": vec(r)})
            return r

        def srandom(*a, **k):
            r = s_random(*a, **k)
            rec.append({"fn": "random", "shape": list(np.shape(r)), "out": vec(r)})
            return r

        def choice(a, size=None, replace=True, p=None):
            pc = None if p is None else np.array(p, dtype=float, copy=True)
            r = s_choice(a, size=size, replace=replace, p=p)
            rec.append({"fn": "choice", "a": int(a), "size": None if size is None else int(size),
                        "p": None if pc is None else vec(pc), "out": [int(x) for x in np.asarray(r).ravel()]})
            return r
        np.random.normal, np.random.uniform, np.random.random = normal, uniform, random
        S.random, S.choice = srandom, choice

    def remove(self):
        np.random.normal, np.random.uniform, np.random.random, self.S.random, self.S.choice = self.saved


def exc_kind(ex):
    n = type(ex).__name__
    msg = str(ex)
    if n == "InvalidRangeArgumentError":
        return "range"
    if n == "IndexError":
        return "index"
    if n == "InvalidArgumentValueError":
        return "badmode"
    if n == "ValueError" and "No PointCloud can be generated" in msg:
        return "dimgt3"
    if n == "Exception" and "is empty" in msg:
        return "emptybox"
    return "other:%s: %s" % (n, msg[:200])


def points_of(r, pc, dim=3):
    """rows of the returned array, or the vertices of the returned PointCloud (first `dim` coordinates)"""
    import mouette as M
    if pc:
        if not hasattr(r, "vertices"):
            raise RuntimeError("return_point_cloud=True returned %s, which has no vertices" % type(r).__name__)
        rows = [vec(v) for v in r.vertices]
        for row in rows:
            if len(row) != 3 or any(t != 0.0 for t in row[dim:]):
                raise RuntimeError("point cloud vertex %r is not the %d-D sample padded with zeros" % (row, dim))
        return [row[:dim] for row in rows]
    a = np.asarray(r, dtype=float)
    if a.ndim != 2:
        raise RuntimeError("returned array has shape %r" % (a.shape,))
    if a.shape[0] and a.shape[1] != dim:
        raise RuntimeError("returned array has shape %r, expected (*, %d)" % (a.shape, dim))
    return [vec(row) for row in a]


def build_polyline(V, E):
    import mouette as M
    raw = M.mesh.RawMeshData()
    raw.vertices += [M.Vec(*p) for p in V]
    raw.edges += [tuple(e) for e in E]
    return M.mesh.PolyLine(raw)


def build_surface(V, F):
    import mouette as M
    raw = M.mesh.RawMeshData()
    raw.vertices += [M.Vec(*p) for p in V]
    raw.faces += [tuple(f) for f in F]
    return M.mesh.SurfaceMesh(raw)


def prepare_scenario(mesh, c, k):
    """c["pre"] = "compute": the attribute functions store their (persistent) result on the mesh;
       c["pre"] = "junk": attributes with the colliding names hold arbitrary values (c["junk"]);
       then the vertices are moved to c["V2"] (if given). Returns what the sampler now SEES."""
    import mouette as M
    if c["pre"] == "compute":
        if k == "surface":
            M.attributes.face_normals(mesh)
            M.attributes.face_area(mesh)
        M.attributes.edge_length(mesh)
    elif c["pre"] == "sample":
        from mouette import sampling
        try:
            if k == "surface":
                sampling.sample_surface(mesh, 2, return_normals=True)
                sampling.sample_surface(mesh, 2, return_point_cloud=True, return_normals=True)
            else:
                sampling.sample_polyline(mesh, 2)
        except Exception:
            pass
    elif c["pre"] == "junk":
        j = c["junk"]
        if k == "surface":
            at = mesh.faces.create_attribute("normals", float, 3, dense=True)
            for i in range(len(mesh.faces)):
                at[i] = M.Vec(*j["normals"][i % len(j["normals"])])
            at = mesh.faces.create_attribute("area", float, dense=True)
            for i in range(len(mesh.faces)):
                at[i] = j["scalars"][i % len(j["scalars"])]
        at = mesh.edges.create_attribute("length", float, dense=True)
        for i in range(len(mesh.edges)):
            at[i] = j["scalars"][i % len(j["scalars"])]
    for i, p in enumerate(c.get("V2") or []):
        mesh.vertices[i] = M.Vec(*p)
    if k == "polyline":
        return {"V": [vec(v) for v in mesh.vertices], "E": [[int(a), int(b)] for a, b in mesh.edges]}
    return {"V": [vec(v) for v in mesh.vertices], "F": [[int(x) for x in f] for f in mesh.faces]}


def rep_num(x, how):
    """the same number in another representation (only when it is exactly representable there)"""
    if how == "int64":
        return np.int64(x)
    if how == "int32":
        return np.int32(x)
    if how == "f64":
        return np.float64(x)
    if how == "f32":
        return np.float32(x) if float(np.float32(x)) == float(x) else x
    if how == "int":
        return int(x) if float(x) == int(x) else x
    if how == "flag_int":
        return 1 if x else 0
    if how == "flag_np":
        return np.bool_(x)
    return x


def R(c, name, x):
    return rep_num(x, (c.get("rep") or {}).get(name))


def container(items, how):
    if how == "tuple":
        return tuple(items)
    if how == "array":
        return np.array(items, dtype=float)
    if how == "gen":
        return (x for x in items)
    return list(items)


def call(fn, c, required, optional):
    """optional = [(name, value, default)] in signature order. c["form"]: "kw" (optional arguments by keyword),
    "pos" (everything positional), "omit" (arguments equal to their default are left out)"""
    form = c.get("form", "kw")
    if form == "pos":
        return fn(*required, *[v for _, v, _ in optional])
    kw = {}
    for name, v, d in optional:
        if form == "omit" and type(v) is type(d) and v == d:
            continue
        kw[name] = v
    return fn(*required, **kw)


def mesh_attr_names(mesh):
    out = {}
    for cont in ("vertices", "edges", "faces", "face_corners"):
        if hasattr(mesh, cont):
            out[cont] = sorted(str(x) for x in getattr(mesh, cont).attributes)
    return out


def zero_result(r):
    """the caller overwrites what it was given (arrays in place, point-cloud vertices in place)"""
    import mouette as M
    try:
        if isinstance(r, tuple):
            for x in r:
                zero_result(x)
        elif isinstance(r, np.ndarray):
            r *= 0
            r += 12345.0
        else:
            for v in r.vertices:
                v *= 0
    except Exception:
        pass


def fnet(P):
    return [[float(x) for x in p] for p in P]


def alias_steps(obj, c):
    """c["alias"] = {"pre": [step, ...], "op": ["add"|"mul", k]}: value-semantics scenario. Each step obtains points
    from the object the way a caller would ({"at": t} / {"at": [u, v]}: evaluate; {"export": n} / {"export": [n1, n2]}:
    as_polyline / as_surface vertices) and modifies the RETURNED arrays in place; the evaluation / export observed
    afterwards must still be the one of the control net the object was built from."""
    al = c.get("alias")
    if not al:
        return
    kind, kk = al["op"]

    def mutate(p):
        try:
            if kind == "add":
                p += kk
            else:
                p *= kk
        except Exception:
            pass
    for st in al["pre"]:
        try:
            if "at" in st:
                a = st["at"]
                mutate(obj.evaluate(*a) if isinstance(a, list) else obj.evaluate(a))
            else:
                e = st["export"]
                m = obj.as_surface(*e) if isinstance(e, list) else obj.as_polyline(n_pts=e)
                for v in m.vertices:
                    mutate(v)
        except Exception:
            pass   # a rejected parameter in a preliminary step is not what this case observes


def run_case(c):
    import mouette as M
    from mouette import sampling
    from mouette.geometry import AABB
    k = c["kind"]
    np.random.seed(c.get("seed", 0))
    rec = Recorder()
    obs = {}
    mesh_info = {}
    try:
        if k in ("polyline", "surface"):
            # mesh construction is outside the recorded/timed part; what the sampler SEES is reported back
            if k == "polyline":
                mesh = build_polyline(c["V"], c["E"])
                mesh_info = {"V": [vec(v) for v in mesh.vertices], "E": [[int(a), int(b)] for a, b in mesh.edges]}
            else:
                mesh = build_surface(c["V"], c["F"])
                mesh_info = {"V": [vec(v) for v in mesh.vertices], "F": [[int(x) for x in f] for f in mesh.faces]}
        if k in ("polyline", "surface") and c.get("pre"):
            # multi-step scenario: geometric attributes exist on the mesh BEFORE its vertices move
            mesh_info = prepare_scenario(mesh, c, k)
        sampler = None
        snap = None
        if k in ("sphere", "ball"):
            center = M.Vec(*c["center"])
            fn = sampling.sample_sphere if k == "sphere" else sampling.sample_ball
            sampler = lambda: call(fn, c, [center, R(c, "radius", c["radius"]), R(c, "n", c["n"])],
                                   [("return_point_cloud", R(c, "pc", c["pc"]), False)])
            snap = lambda: [vec(center)]
        elif k == "box":
            cs = c.get("corners")
            if cs:
                # the caller hands FLOAT ndarrays and goes on using them: a second box built from the same arrays is
                # padded in place, or the buffers are reused; the box requested at construction must not move
                lo, hi = np.array(c["p1"], dtype=float), np.array(c["p2"], dtype=float)
                box = AABB(lo, hi)
                if cs == "pad_other":
                    other = AABB(lo, hi)
                    other.pad(1.5)
                else:
                    lo += 10.0
                    hi += 10.0
            else:
                box = AABB(list(c["p1"]), list(c["p2"]))
            opt = [("mode", c["mode"], "uniform"), ("return_point_cloud", R(c, "pc", c["pc"]), False)]
            sampler = lambda: call(sampling.sample_AABB, c, [box, R(c, "n", c["n"])], opt)
            snap = lambda: [vec(box.mini), vec(box.maxi)]
        elif k == "polyline":
            sampler = lambda: call(sampling.sample_polyline, c, [mesh, R(c, "n", c["n"])],
                                   [("return_point_cloud", R(c, "pc", c["pc"]), False)])
            snap = lambda: [[vec(v) for v in mesh.vertices], [[int(a), int(b)] for a, b in mesh.edges]]
        elif k == "surface":
            sampler = lambda: call(sampling.sample_surface, c, [mesh, R(c, "n", c["n"])],
                                   [("return_point_cloud", R(c, "pc", c["pc"]), False),
                                    ("return_normals", R(c, "normals", c["normals"]), False)])
            snap = lambda: [[vec(v) for v in mesh.vertices], [[int(x) for x in f] for f in mesh.faces]]
        before = snap() if snap else None
        if sampler is not None and c.get("twice"):
            # the same request twice: the first result is overwritten by the caller before the second is observed
            try:
                np.random.seed(c.get("seed", 0))
                zero_result(sampler())
            except Exception:
                pass
            np.random.seed(c.get("seed", 0))
        rec.install()
        try:
            if k in ("sphere", "ball"):
                r = sampler()
                obs["out"] = points_of(r, c["pc"])
            elif k == "box":
                r = sampler()
                obs["out"] = points_of(r, c["pc"], dim=len(c["p1"]))
            elif k == "polyline":
                r = sampler()
                obs["out"] = points_of(r, c["pc"])
            elif k == "surface":
                r = sampler()
                if c["normals"] and not c["pc"]:
                    r, nn = r
                    obs["normals"] = [vec(x) for x in np.asarray(nn, dtype=float).reshape((-1, 3))]
                elif c["normals"]:
                    at = r.vertices.get_attribute("normals")
                    obs["normals"] = [vec(at[i]) for i in range(len(r.vertices))]
                obs["out"] = points_of(r, c["pc"])
            elif k == "curve":
                cu = M.splines.BezierCurve(container(fnet(c["P"]), c.get("net_as")))
                net0 = [vec(p) for p in cu.pts]
                alias_steps(cu, c)
                obs["out"] = vec(cu.evaluate(R(c, "t", c["t"])))
                before, snap = [net0], (lambda: [[vec(p) for p in cu.pts]])
            elif k == "patch":
                pa = M.splines.BezierPatch(container([container(fnet(row), c.get("net_as")) for row in c["rows"]], c.get("net_as")
                                                     if c.get("net_as") != "array" else None))
                net0 = [[vec(p) for p in row] for row in pa.pts]
                alias_steps(pa, c)
                obs["out"] = vec(pa.evaluate(R(c, "t", c["u"]), R(c, "t", c["v"])))
                before, snap = [net0], (lambda: [[[vec(p) for p in row] for row in pa.pts]])
            elif k == "polylinex":
                cu = M.splines.BezierCurve(container(fnet(c["P"]), c.get("net_as")))
                net0 = [vec(p) for p in cu.pts]
                alias_steps(cu, c)
                custom = None if c["custom"] is None else container([float(x) for x in c["custom"]], c.get("custom_as"))
                if c.get("form") == "pos":
                    pl = cu.as_polyline(R(c, "n", c["n_pts"] if c["n_pts"] is not None else 100), custom)
                else:
                    kwargs = {}
                    if c["n_pts"] is not None:
                        kwargs["n_pts"] = R(c, "n", c["n_pts"])
                    if c["custom"] is not None or c.get("form") == "kw":
                        kwargs["custom_pos"] = custom
                    pl = cu.as_polyline(**kwargs)
                before, snap = [net0], (lambda: [[vec(p) for p in cu.pts]])
                obs["verts"] = [vec(v) for v in pl.vertices]
                try:       # name and presence of the parameter attribute are not fixed by the property
                    at = pl.vertices.get_attribute("t")
                    obs["t"] = [fl(at[i]) for i in range(len(pl.vertices))]
                except Exception:
                    obs["t"] = None
                obs["edges"] = [[int(a), int(b)] for a, b in pl.edges]
            elif k == "surfacex":
                pa = M.splines.BezierPatch(container([container(fnet(row), c.get("net_as")) for row in c["rows"]], c.get("net_as")
                                                     if c.get("net_as") != "array" else None))
                net0 = [[vec(p) for p in row] for row in pa.pts]
                alias_steps(pa, c)
                if c["n1"] is None:
                    sm = pa.as_surface()
                elif c.get("form") == "kw":
                    sm = pa.as_surface(n2=R(c, "n", c["n2"]), n1=R(c, "n", c["n1"]))
                else:
                    sm = pa.as_surface(R(c, "n", c["n1"]), R(c, "n", c["n2"]))
                before, snap = [net0], (lambda: [[[vec(p) for p in row] for row in pa.pts]])
                obs["verts"] = [vec(v) for v in sm.vertices]
                try:
                    at = sm.vertices.get_attribute("uv_coords")
                    obs["uv"] = [vec(at[i]) for i in range(len(sm.vertices))]
                except Exception:
                    obs["uv"] = None
                obs["faces"] = [[int(x) for x in f] for f in sm.faces]
            elif k == "gridres":
                # the values the resolution expression of sample_AABB (shape pinned by the translator) takes in
                # binary64, for ALL n in 0..limit: run-length encoded as [hi, r] per dimension
                tables = {}
                for d in c["dims"]:
                    arr = np.power(np.arange(c["limit"] + 1), 1 / d)
                    vals = [round(x) for x in arr]
                    rle = []
                    for n, r in enumerate(vals):
                        if rle and rle[-1][1] == r:
                            rle[-1][0] = n
                        else:
                            rle.append([n, int(r)])
                    tables[str(d)] = rle if d > 1 else {"identity": all(v == n for n, v in enumerate(vals))}
                obs["tables"] = tables
            else:
                raise RuntimeError("unknown case kind " + k)
        finally:
            rec.remove()
        if snap is not None and before is not None:
            after = snap()
            if json.dumps(after, sort_keys=True) != json.dumps(before, sort_keys=True):
                obs["inputs_changed"] = "before: %s  after: %s" % (json.dumps(before)[:300], json.dumps(after)[:300])
    except Exception as ex:  # noqa
        obs = {"exc": exc_kind(ex)}
    obs["draws"] = rec.calls
    obs.update(mesh_info)
    return obs


def main():
    payload = json.load(sys.stdin)
    print("@@JSON " + json.dumps({"obs": [run_case(c) for c in payload["cases"]]}))


if __name__ == "__main__":
    main()
