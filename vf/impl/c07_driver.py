"""Runs mouette's attribute / global-quantity / interpolation functions on small meshes and reports what they returned.

stdin : {"cases": [ {"V": [[x,y,z],..], "F": [[..],..] | null, "C": [[a,b,c,d],..] | null, "script": [call, ...]} , ...]}
        a call is [name, arg...]  (see CALLS below)
stdout: '@@JSON ' + {"cases": [ {"edges": [[a,b],..], "faces": [[..],..], "cells": [[..],..],
                                 "angles": [[theta, cos theta, sin theta], ..] | null,
                                 "out": [ {"ok": value} | {"err": "Type: message"} , ...]} , ...]}
All numbers are binary64 values transported through JSON (Python's repr round-trips them exactly).
"""
import json
import math
import sys
import warnings

warnings.filterwarnings("ignore")

import numpy as np  # noqa: E402


def build(case):
    import mouette as M
    raw = M.mesh.RawMeshData()
    raw.vertices += [np.array(p, dtype=float) for p in case["V"]]
    if case.get("C"):
        raw.cells += [tuple(int(x) for x in c) for c in case["C"]]
        if case.get("F"):
            raw.faces += [tuple(int(x) for x in f) for f in case["F"]]
        return M.mesh.VolumeMesh(raw)
    raw.faces += [tuple(int(x) for x in f) for f in case["F"]]
    return M.mesh.SurfaceMesh(raw)


def fl(x):
    return float(x)


def scal_list(attr, n):
    return [fl(attr[i]) for i in range(n)]


def vec_list(attr, n):
    return [[fl(c) for c in attr[i]] for i in range(n)]


def pn(p):
    """the `persistent` slot of a call: False | True | "a custom attribute name" (persistent, stored under that name)"""
    if isinstance(p, str):
        return {"persistent": True, "name": p}
    return {"persistent": bool(p)}


def mk_attr(container, name, values, dense):
    a = container.create_attribute(name, float, dense=bool(dense))
    for i, v in enumerate(values):
        if v is not None:
            a[i] = float(v)
    return a


def run_call(mesh, call, state):
    from mouette import attributes as A
    nm = call[0]
    nv, ne, nf = len(mesh.vertices), len(mesh.edges), len(mesh.faces)
    ncell = len(mesh.cells) if hasattr(mesh, "cells") else 0
    ncorn = len(mesh.face_corners)
    if nm == "move":
        # the user moves the vertices of the mesh object in place; attributes computed before are now stale
        import mouette as M
        for i, pnew in enumerate(call[1]):
            mesh.vertices[i] = M.Vec(np.array(pnew, dtype=float))
        state["moved"] = [list(map(float, pnew)) for pnew in call[1]]
        if state.get("is_surface"):
            ref = build(dict(state["case"], V=state["moved"]))
            ang = A.corner_angles(ref, persistent=False)
            return {"angles": [[fl(ang[c]), math.cos(fl(ang[c])), math.sin(fl(ang[c]))] for c in range(len(ref.face_corners))]}
        return {"angles": None}
    if nm == "edge_length":
        return scal_list(A.edge_length(mesh, dense=call[2], **pn(call[1])), ne)
    if nm == "edge_middle":
        return vec_list(A.edge_middle_point(mesh, dense=call[2], **pn(call[1])), ne)
    if nm == "face_area":
        return scal_list(A.face_area(mesh, dense=call[2], **pn(call[1])), nf)
    if nm == "face_normals":
        return vec_list(A.face_normals(mesh, dense=call[2], **pn(call[1])), nf)
    if nm == "face_bary":
        return vec_list(A.face_barycenter(mesh, dense=call[2], **pn(call[1])), nf)
    if nm == "circum":
        return vec_list(A.face_circumcenter(mesh, dense=call[2], **pn(call[1])), nf)
    if nm == "angles":
        return scal_list(A.corner_angles(mesh, dense=call[2], **pn(call[1])), ncorn)
    if nm == "cot":
        return scal_list(A.cotangent(mesh, dense=call[2], **pn(call[1])), ncorn)
    if nm == "cw":
        return scal_list(A.cotan_weights(mesh, dense=call[2], **pn(call[1])), ne)
    if nm == "degree":
        d = A.degree(mesh, dense=call[2], **pn(call[1]))
        return [int(d[i]) for i in range(nv)]
    if nm == "defects":
        return scal_list(A.angle_defects(mesh, zero_border=call[1], dense=call[3], **pn(call[2])), nv)
    if nm == "vnormals":
        return vec_list(A.vertex_normals(mesh, interpolation=call[1], dense=call[3], **pn(call[2])), nv)
    if nm == "vnormals_c":
        # [name, weight, custom face normals (one 3-vector per face), persistent, dense]: the caller's own face normals
        state["k"] = state.get("k", 0) + 1
        fn = mesh.faces.create_attribute("c07_fn_%d" % state["k"], float, 3, dense=bool(state["k"] % 2))
        for i, vec in enumerate(call[2]):
            fn[i] = np.array(vec, dtype=float)
        return vec_list(A.vertex_normals(mesh, interpolation=call[1], dense=call[4], custom_fnormals=fn, **pn(call[3])), nv)
    if nm == "cell_volume":
        return scal_list(A.cell_volume(mesh, dense=call[2], **pn(call[1])), ncell)
    if nm == "cell_bary":
        return vec_list(A.cell_barycenter(mesh, dense=call[2], **pn(call[1])), ncell)
    if nm == "euler":
        return int(A.euler_characteristic(mesh))
    if nm == "mean_edge":
        return fl(A.mean_edge_length(mesh, call[1]))
    if nm == "mean_area":
        return fl(A.mean_face_area(mesh, call[1]))
    if nm == "mean_vol":
        return fl(A.mean_cell_volume(mesh, call[1]))
    if nm == "total_area":
        return fl(A.total_area(mesh))
    if nm == "bary":
        return [fl(c) for c in A.barycenter(mesh)]
    # ---- interpolation: [name, weight|None, input values, dense_in, dense_out, preload]
    #      preload: None (fresh output attribute) | list of values already stored in the output attribute
    if nm in ("v2f", "f2v", "sv2c", "sf2c", "c2v", "c2f"):
        w, vals, din, dout, pre = call[1], call[2], call[3], call[4], call[5]
        if len(call) > 6 and call[6]:
            w = call[6]          # the same weight in another accepted spelling ("Uniform", "AREA", ...)
        state["k"] = state.get("k", 0) + 1
        k = state["k"]
        src_c, dst_c, n_out = {
            "v2f": (mesh.vertices, mesh.faces, nf), "f2v": (mesh.faces, mesh.vertices, nv),
            "sv2c": (mesh.vertices, mesh.face_corners, ncorn), "sf2c": (mesh.faces, mesh.face_corners, ncorn),
            "c2v": (mesh.face_corners, mesh.vertices, nv), "c2f": (mesh.face_corners, mesh.faces, nf)}[nm]
        a_in = mk_attr(src_c, "c07_in_%d" % k, vals, din)
        a_out = mk_attr(dst_c, "c07_out_%d" % k, pre or [], dout)
        if nm == "v2f":
            r = A.interpolate_vertices_to_faces(mesh, a_in, a_out)
        elif nm == "f2v":
            r = A.interpolate_faces_to_vertices(mesh, a_in, a_out, weight=w)
        elif nm == "sv2c":
            r = A.scatter_vertices_to_corners(mesh, a_in, a_out)
        elif nm == "sf2c":
            r = A.scatter_faces_to_corners(mesh, a_in, a_out)
        elif nm == "c2v":
            r = A.average_corners_to_vertices(mesh, a_in, a_out, weight=w)
        else:
            r = A.average_corners_to_faces(mesh, a_in, a_out, weight=w)
        return scal_list(r, n_out)
    raise RuntimeError("unknown call " + nm)


def run_case(case):
    from mouette import attributes as A
    res = {"edges": None, "faces": None, "cells": None, "angles": None, "out": []}
    try:
        mesh = build(case)
        res["edges"] = [[int(a), int(b)] for a, b in mesh.edges]
        res["faces"] = [[int(x) for x in f] for f in mesh.faces]
        res["cells"] = [[int(x) for x in c] for c in mesh.cells] if hasattr(mesh, "cells") else []
        if not case.get("C"):
            ref = build(case)  # a separate object: the script's cached attributes are not disturbed
            ang = A.corner_angles(ref, persistent=False)
            res["angles"] = [[fl(ang[c]), math.cos(fl(ang[c])), math.sin(fl(ang[c]))] for c in range(len(ref.face_corners))]
    except Exception as ex:  # noqa
        res["build_error"] = "%s: %s" % (type(ex).__name__, ex)
        return res
    state = {"case": {k: case.get(k) for k in ("V", "F", "C")}, "is_surface": not case.get("C")}
    for call in case["script"]:
        try:
            with np.errstate(all="ignore"):
                res["out"].append({"ok": run_call(mesh, call, state)})
        except Exception as ex:  # noqa
            res["out"].append({"err": "%s: %s" % (type(ex).__name__, str(ex)[:200])})
    return res


def main():
    payload = json.load(sys.stdin)
    out = {"cases": [run_case(c) for c in payload["cases"]]}
    print("@@JSON " + json.dumps(out))


if __name__ == "__main__":
    main()
