"""Runs mouette's attribute / global-quantity / interpolation functions on small meshes and reports what they returned.

stdin : {"cases": [ {"V": [[x,y,z],..], "F": [[..],..] | null, "C": [[a,b,c,d],..] | null, "script": [call, ...]} , ...]}
        a call is [name, arg...]  (see CALLS below)
stdout: '@@JSON ' + {"cases": [ {"edges": [[a,b],..], "faces": [[..],..], "cells": [[..],..],
                                 "angles": [[theta, cos theta, sin theta], ..] | null,
                                 "out": [ {"ok": value} | {"err": "Type: message"} , ...]} , ...]}
All numbers are binary64 values transported through JSON (Python's repr round-trips them exactly).
"""
import json
import math
import sys
import warnings

warnings.filterwarnings("ignore")

import numpy as np  # noqa: E402


def build(case):
    import mouette as M
    raw = M.mesh.RawMeshData()
    raw.vertices += [np.array(p, dtype=float) for p in case["V"]]
    if case.get("C"):
        raw.cells += [tuple(int(x) for x in c) for c in case["C"]]
        if case.get("F"):
            raw.faces += [tuple(int(x) for x in f) for f in case["F"]]
        return M.mesh.VolumeMesh(raw)
    raw.faces += [tuple(int(x) for x in f) for f in case["F"]]
    return M.mesh.SurfaceMesh(raw)


def fl(x):
    return float(x)


def scal_list(attr, n):
    return [fl(attr[i]) for i in range(n)]


def vec_list(attr, n):
    return [[fl(c) for c in attr[i]] for i in range(n)]


def pn(p):
    """the `persistent` slot of a call: False | True | "a custom attribute name" (persistent, stored under that name)"""
    if isinstance(p, str):
        return {"persistent": True, "name": p}
    return {"persistent": bool(p)}


DEFAULT_NAME = {"edge_length": "length", "edge_middle": "middle", "face_area": "area", "face_normals": "normals",
                "face_bary": "barycenter", "circum": "circumcenter", "angles": "angles", "cot": "cotan", "cw": "cotan_weight",
                "degree": "degree", "defects": "angleDefect", "vnormals": "normals", "vnormals_c": "normals",
                "cell_volume": "volume", "cell_bary": "barycenter"}


def acall(fn, mesh, nm, p, d, form, pre=()):
    """one attribute function in one of three call forms: 0 keywords, 1 positional (mesh, *pre, name, persistent, dense),
    2 every argument that equals its default omitted"""
    pers = bool(p)
    custom = isinstance(p, str)
    if form == 1:
        return fn(mesh, *pre, p if custom else DEFAULT_NAME[nm], pers, d)
    if form == 2:
        kw = {}
        if custom:
            kw["name"] = p
        if not pers:
            kw["persistent"] = False
        if d is not True:
            kw["dense"] = d
        return fn(mesh, *pre, **kw)
    return fn(mesh, *pre, dense=d, **pn(p))


def num(n, form):
    """an integer count in another numeric representation"""
    if n is None:
        return None
    return [int(n), np.int64(n), np.int32(n)][form]


def flag(b, form):
    return [bool(b), int(bool(b)), np.bool_(b)][form]


def attr_names(mesh):
    out = set()
    for cname in ("vertices", "edges", "faces", "face_corners", "cells", "cell_corners", "cell_faces"):
        cont = getattr(mesh, cname, None)
        if cont is not None:
            try:
                out |= {"%s.%s" % (cname, a) for a in cont.attributes}
            except Exception:  # noqa
                pass
    return out


def mk_attr(container, name, values, storage, n=None, standalone=False, esz=None):
    """an attribute whose READS (attr[i], total-map semantics) are `values`, in the requested storage state:
    storage = True  dense, every entry written | False  sparse, every entry written
            | [kind, default, written]  kind "d"/"s" (dense/sparse) created with default_value=default, only the
              listed indices written (the other values equal the default: they are answered by the default).
    Entries are scalars or 3-vectors (a vector attribute's default is the scalar default in every component)."""
    from mouette.mesh.mesh_attributes import Attribute, ArrayAttribute
    n = len(values) if n is None else n
    vec = bool(values) and isinstance(values[0], (list, tuple))
    esz = (3 if vec else 1) if esz is None else esz
    vec = esz == 3
    if isinstance(storage, (list, tuple)):
        dense, dflt, written = storage[0] == "d", float(storage[1]), set(storage[2])
    else:
        dense, dflt, written = bool(storage), None, None
    if standalone:
        a = ArrayAttribute(float, n, esz, default_value=dflt) if dense else Attribute(float, esz, default_value=dflt)
    else:
        kw = {} if dflt is None else {"default_value": dflt}
        a = container.create_attribute(name, float, esz, dense=dense, **kw)
    for i, v in enumerate(values):
        if v is None or (written is not None and i not in written):
            continue
        a[i] = np.array(v, dtype=float) if vec else float(v)
    return a


def read_out(attr, n, vec):
    return vec_list(attr, n) if vec else scal_list(attr, n)


def run_call(mesh, call, state, form=0):
    from mouette import attributes as A
    nm = call[0]
    nv, ne, nf = len(mesh.vertices), len(mesh.edges), len(mesh.faces)
    ncell = len(mesh.cells) if hasattr(mesh, "cells") else 0
    ncorn = len(mesh.face_corners)
    if nm == "move":
        # the user moves the vertices of the mesh object in place; attributes computed before are now stale
        import mouette as M
        for i, pnew in enumerate(call[1]):
            mesh.vertices[i] = M.Vec(np.array(pnew, dtype=float))
        state["moved"] = [list(map(float, pnew)) for pnew in call[1]]
        if state.get("is_surface"):
            ref = build(dict(state["case"], V=state["moved"]))
            ang = A.corner_angles(ref, persistent=False)
            return {"angles": [[fl(ang[c]), math.cos(fl(ang[c])), math.sin(fl(ang[c]))] for c in range(len(ref.face_corners))]}
        return {"angles": None}
    if nm == "edge_length":
        return scal_list(acall(A.edge_length, mesh, 'edge_length', call[1], call[2], form), ne)
    if nm == "edge_middle":
        return vec_list(acall(A.edge_middle_point, mesh, 'edge_middle', call[1], call[2], form), ne)
    if nm == "face_area":
        return scal_list(acall(A.face_area, mesh, 'face_area', call[1], call[2], form), nf)
    if nm == "face_normals":
        return vec_list(acall(A.face_normals, mesh, 'face_normals', call[1], call[2], form), nf)
    if nm == "face_bary":
        return vec_list(acall(A.face_barycenter, mesh, 'face_bary', call[1], call[2], form), nf)
    if nm == "circum":
        return vec_list(acall(A.face_circumcenter, mesh, 'circum', call[1], call[2], form), nf)
    if nm == "angles":
        return scal_list(acall(A.corner_angles, mesh, 'angles', call[1], call[2], form), ncorn)
    if nm == "cot":
        return scal_list(acall(A.cotangent, mesh, 'cot', call[1], call[2], form), ncorn)
    if nm == "cw":
        return scal_list(acall(A.cotan_weights, mesh, 'cw', call[1], call[2], form), ne)
    if nm == "degree":
        d = acall(A.degree, mesh, "degree", call[1], call[2], form)
        return [int(d[i]) for i in range(nv)]
    if nm == "defects":
        return scal_list((acall(A.angle_defects, mesh, "defects", call[2], call[3], 1, pre=(flag(call[1], form),)) if form == 1 else A.angle_defects(mesh, zero_border=flag(call[1], form), dense=call[3], **pn(call[2]))), nv)
    if nm == "vnormals":
        return vec_list((A.vertex_normals(mesh, call[2] if isinstance(call[2], str) else "normals", bool(call[2]), call[1], call[3]) if form == 1 else A.vertex_normals(mesh, interpolation=call[1], dense=call[3], **pn(call[2]))), nv)
    if nm == "vnormals_c":
        # [name, weight, custom face normals (one 3-vector per face), persistent, dense]: the caller's own face normals
        state["k"] = state.get("k", 0) + 1
        fn = mesh.faces.create_attribute("c07_fn_%d" % state["k"], float, 3, dense=bool(state["k"] % 2))
        for i, vec in enumerate(call[2]):
            fn[i] = np.array(vec, dtype=float)
        return vec_list((A.vertex_normals(mesh, call[3] if isinstance(call[3], str) else "normals", bool(call[3]), call[1], call[4], fn) if form == 1 else A.vertex_normals(mesh, interpolation=call[1], dense=call[4], custom_fnormals=fn, **pn(call[3]))), nv)
    if nm == "cell_volume":
        return scal_list(acall(A.cell_volume, mesh, 'cell_volume', call[1], call[2], form), ncell)
    if nm == "cell_bary":
        return vec_list(acall(A.cell_barycenter, mesh, 'cell_bary', call[1], call[2], form), ncell)
    if nm == "euler":
        return int(A.euler_characteristic(mesh))
    if nm == "mean_edge":
        return fl(A.mean_edge_length(mesh, num(call[1], form)))
    if nm == "mean_area":
        return fl((A.mean_face_area(mesh, n=num(call[1], form)) if form == 2 else A.mean_face_area(mesh, num(call[1], form))))
    if nm == "mean_vol":
        return fl(A.mean_cell_volume(mesh, num(call[1], form)))
    if nm == "total_area":
        return fl(A.total_area(mesh))
    if nm == "bary":
        return [fl(c) for c in A.barycenter(mesh)]
    # ---- interpolation: [name, weight|None, input values, dense_in, dense_out, preload]
    #      preload: None (fresh output attribute) | list of values already stored in the output attribute
    if nm in ("v2f", "f2v", "sv2c", "sf2c", "c2v", "c2f"):
        w, vals, din, dout, pre = call[1], call[2], call[3], call[4], call[5]
        if len(call) > 6 and call[6]:
            w = call[6]          # the same weight in another accepted spelling ("Uniform", "AREA", ...)
        state["k"] = state.get("k", 0) + 1
        k = state["k"]
        src_c, dst_c, n_out = {
            "v2f": (mesh.vertices, mesh.faces, nf), "f2v": (mesh.faces, mesh.vertices, nv),
            "sv2c": (mesh.vertices, mesh.face_corners, ncorn), "sf2c": (mesh.faces, mesh.face_corners, ncorn),
            "c2v": (mesh.face_corners, mesh.vertices, nv), "c2f": (mesh.face_corners, mesh.faces, nf)}[nm]
        vec = bool(vals) and isinstance(vals[0], (list, tuple))
        a_in = mk_attr(src_c, "c07_in_%d" % k, vals, din, standalone=(k % 3 == 0))
        a_out = mk_attr(dst_c, "c07_out_%d" % k, pre or [], dout, n=n_out, esz=3 if vec else 1)
        if nm == "v2f":
            r = A.interpolate_vertices_to_faces(mesh, a_in, a_out)
        elif nm == "f2v":
            r = A.interpolate_faces_to_vertices(mesh, a_in, a_out, w) if form == 1 else A.interpolate_faces_to_vertices(mesh, a_in, a_out, weight=w)
        elif nm == "sv2c":
            r = A.scatter_vertices_to_corners(mesh, a_in, a_out)
        elif nm == "sf2c":
            r = A.scatter_faces_to_corners(mesh, a_in, a_out)
        elif nm == "c2v":
            r = A.average_corners_to_vertices(mesh, a_in, a_out, w) if form == 1 else A.average_corners_to_vertices(mesh, cattr=a_in, vattr=a_out, weight=w)
        else:
            r = A.average_corners_to_faces(mesh, a_in, a_out, w) if form == 1 else A.average_corners_to_faces(mesh, a_in, a_out, weight=w)
        return read_out(r, n_out, vec)
    raise RuntimeError("unknown call " + nm)


def run_case(case):
    from mouette import attributes as A
    res = {"edges": None, "faces": None, "cells": None, "angles": None, "out": []}
    try:
        mesh = build(case)
        res["edges"] = [[int(a), int(b)] for a, b in mesh.edges]
        res["faces"] = [[int(x) for x in f] for f in mesh.faces]
        res["cells"] = [[int(x) for x in c] for c in mesh.cells] if hasattr(mesh, "cells") else []
        if not case.get("C"):
            ref = build(case)  # a separate object: the script's cached attributes are not disturbed
            ang = A.corner_angles(ref, persistent=False)
            res["angles"] = [[fl(ang[c]), math.cos(fl(ang[c])), math.sin(fl(ang[c]))] for c in range(len(ref.face_corners))]
    except Exception as ex:  # noqa
        res["build_error"] = "%s: %s" % (type(ex).__name__, ex)
        return res
    state = {"case": {k: case.get(k) for k in ("V", "F", "C")}, "is_surface": not case.get("C")}
    seed = len(case["V"]) + 3 * len(case["script"])
    for k, call in enumerate(case["script"]):
        form = (seed + k) % 3
        before = attr_names(mesh)
        vsnap = [tuple(float(x) for x in mesh.vertices[i]) for i in mesh.id_vertices]
        try:
            with np.errstate(all="ignore"):
                entry = {"ok": run_call(mesh, call, state, form)}
        except Exception as ex:  # noqa
            entry = {"err": "%s: %s" % (type(ex).__name__, str(ex)[:200])}
        entry["form"] = form
        after = attr_names(mesh)
        entry["new"] = sorted(after - before)
        entry["has"] = sorted(a for a in after if not a.split(".")[1].startswith("c07_"))
        if call[0] != "move":
            vnow = [tuple(float(x) for x in mesh.vertices[i]) for i in mesh.id_vertices]
            entry["vmoved"] = vnow != vsnap
        res["out"].append(entry)
    return res


def main():
    payload = json.load(sys.stdin)
    out = {"cases": [run_case(c) for c in payload["cases"]]}
    print("@@JSON " + json.dumps(out))


if __name__ == "__main__":
    main()
