"""Runs mouette's KDTree on point sets and reports canonical observations (C11).

stdin : {"cases": [case, ...], "timeout": seconds per case}
  case = {"dim": d, "pts": [[int,...],...], "mls": int, "strategy": "balanced|fast|random", "seed": int,
          "dtype": "float|int", "knn": [[Q, k], ...], "rad": [[Q, m], ...],
          "ambient": [[[x, priority], ...], ...]   (optional: other PriorityQueue objects alive during the run),
          "container": "list|tuple|float|int|fortran|view|uint8|uint16|int8|int32|float32|bool"  (form / dtype in which the
                     points are handed to the constructor; "qform": "typed" passes the query point in that dtype too),
          "mutate": "reverse|shift|row"  (optional, ndarray containers: after construction the caller overwrites its array
                     and builds a second tree from it; the queries then go to the FIRST tree),
          "scale_exp": s   (all coordinates, query points and radii are multiplied by 2^s; observations are divided again),
          "call": "pos|kw|default", "strategy_spelling": e.g. "Balanced", "numrep": "py|np64|np32" (k, max_leaf_size, r),
          "qform": "array|list|tuple|intarray", "repeat": bool (every query issued again, interleaved; the second answers are reported
          as knn_again / rad_again and judged by the oracle, not compared with the first), "bad_call_first": bool (failing calls are made and caught before the queries)}
  Coordinates of the points are integers. Query points are given DOUBLED (Q = 2q, so q has half-integer
  coordinates) and the radius of a radius query is r = sqrt(m)/2, i.e. m = (2r)^2.
stdout: '@@JSON ' + {"obs": [obs, ...]}
  obs = {"status": "ok", "pivots": [2*pivot,...] (what _find_pivot returned, in call order),
         "nodes": [["L", id, axis, [pt idx...], lo, hi] | ["N", id, axis, 2*split_value, left, right, lo, hi]],
         "knn": [[idx...] | ["error", msg]], "rad": [[idx...] | ["error", msg]],
         "ambient_after": [sorted [[x, priority], ...] per ambient queue]   (their contents after all queries),
         "now": the caller's container as it is while the queries run (doubled), "input_modified_by_build/_query": bool}
      | {"status": "timeout", "where": ...} | {"status": "error", "msg": ...}
      | {"status": "skipped"}  (after `max_timeouts` build time-outs in this payload the remaining cases are not run)
  Box bounds are doubled integers or the strings "-inf" / "inf". Everything is doubled so that medians of integer
  coordinates (half-integers) stay integral on the Coq side.
The pivots are observed by subclassing KDTree and overriding _find_pivot (no hook in /repo).
"""
import json
import math
import signal
import sys


# per-case time limit in CPU time of this process (a hanging build burns CPU; a starved process on a loaded machine does not)
TIMER = signal.ITIMER_VIRTUAL
TIMER_SIG = signal.SIGVTALRM


class CaseTimeout(Exception):
    pass


def _alarm(signum, frame):
    raise CaseTimeout()


SCALE = [1.0]      # the current case's coordinate scale 2^s (set by run_case)


def dbl(x):
    """2*x/scale as an exact int, +-inf markers, or "F:num/den" when it is not an integer (exact rational)."""
    x = float(x)
    if x == math.inf:
        return "inf"
    if x == -math.inf:
        return "-inf"
    if x != x:
        return "nan"
    from fractions import Fraction
    y = 2 * Fraction(x) / Fraction(SCALE[0])
    return int(y) if y.denominator == 1 else "F:%d/%d" % (y.numerator, y.denominator)


def plain(x):
    """A payload as a JSON value (numpy scalars -> python numbers, anything else -> its repr)."""
    if hasattr(x, "item") and not isinstance(x, (str, bytes)):
        try:
            x = x.item()
        except Exception:  # noqa
            pass
    return x if isinstance(x, (int, float, str, bool)) or x is None else repr(x)


def run_case(case, timeout):
    import numpy as np
    from mouette.spatial import KDTree

    rec = []

    class Rec(KDTree):
        def _find_pivot(self, pts_ax):
            p = KDTree._find_pivot(self, pts_ax)
            rec.append(p)
            return p

    # ambient objects: other PriorityQueue instances of the program, holding pending items while the tree is
    # built and queried (default-constructed, filled through the public API, kept alive until the end)
    ambient = []
    for items in case.get("ambient", []):
        from mouette.utils import PriorityQueue
        pq = PriorityQueue()
        for x, w in items:
            pq.push(x, w)
        ambient.append(pq)

    d = case["dim"]
    n = len(case["pts"])
    # the caller's container: every form the constructor accepts
    cont = case.get("container") or ("int" if case.get("dtype", "float") == "int" else "float")
    if n == 0 and cont in ("list", "tuple"):
        cont = "float"          # an empty list has no (N,d) shape
    # coordinates are the case's integers times 2^scale_exp (exact in binary64): magnitudes 1e-300 .. 1e300
    sc = 2.0 ** case.get("scale_exp", 0)
    SCALE[0] = sc
    TYPED = {"uint8": np.uint8, "uint16": np.uint16, "int8": np.int8, "int32": np.int32, "float32": np.float32, "bool": np.bool_}
    if cont in TYPED:
        # small dtypes: only when every coordinate is representable (the generator arranges that), never scaled
        if sc != 1.0 or n == 0 or not np.array_equal(np.array(case["pts"]).astype(TYPED[cont]).astype(float), np.array(case["pts"], dtype=float)):
            cont = "float"
    if sc != 1.0 and cont == "int":
        cont = "float"
    base = np.array(case["pts"], dtype=float).reshape(n, d) * sc
    form = case.get("call", "pos")             # how arguments are passed: pos / kw / default (omitted when equal to the default)
    rep = case.get("numrep", "py")             # numeric representation of k, max_leaf_size, r: py / np64 / np32

    def num(v, isfloat=False):
        if rep == "np64":
            return np.float64(v) if isfloat else np.int64(v)
        if rep == "np32":
            if isfloat:
                return np.float32(v) if float(np.float32(v)) == float(v) else float(v)
            return np.int32(v)
        return float(v) if isfloat else int(v)
    if cont == "list":
        P = [[float(c) * sc for c in p] for p in case["pts"]]
    elif cont == "tuple":
        P = tuple(tuple(float(c) * sc for c in p) for p in case["pts"])
    elif cont == "int":
        P = np.array(case["pts"], dtype=int).reshape(n, d)
    elif cont in TYPED:
        P = np.array(case["pts"]).reshape(n, d).astype(TYPED[cont])
    elif cont == "fortran":
        P = np.asfortranarray(base)
    elif cont == "view":          # non-contiguous view into a larger buffer
        big = np.full((2 * n + 1, d + 2), -77.0)
        big[1:2 * n + 1:2, 1:d + 1] = base
        P = big[1:2 * n + 1:2, 1:d + 1]
    else:
        P = base.copy()
    is_arr = isinstance(P, np.ndarray)
    before = P.copy() if is_arr else None
    np.random.seed(case["seed"])
    signal.signal(TIMER_SIG, _alarm)
    signal.setitimer(TIMER, timeout)
    try:
        strat = case.get("strategy_spelling") or case["strategy"]
        mls_arg = num(case["mls"])
        if form == "kw":
            tree = Rec(points=P, max_leaf_size=mls_arg, strategy=strat)
        elif form == "default":
            kwargs = {}
            if case["mls"] != 10:
                kwargs["max_leaf_size"] = mls_arg
            if strat != "fast":
                kwargs["strategy"] = strat
            tree = Rec(P, **kwargs)
        else:
            tree = Rec(P, mls_arg, strat)
    except CaseTimeout:
        return {"status": "timeout", "where": "build", "pivots_so_far": len(rec)}
    except Exception as ex:  # noqa
        signal.setitimer(TIMER, 0)
        return {"status": "error", "msg": "build: %s: %s" % (type(ex).__name__, ex)}
    finally:
        signal.setitimer(TIMER, 0)
    try:
        nodes = []
        for nd in tree.nodes:
            lo = [dbl(x) for x in nd.bb.mini]
            hi = [dbl(x) for x in nd.bb.maxi]
            if isinstance(nd, KDTree.Leaf):
                nodes.append(["L", int(nd.id), int(nd.split_axis), [int(i) for i in nd.points], lo, hi])
            else:
                nodes.append(["N", int(nd.id), int(nd.split_axis), dbl(nd.split_value), int(nd.left), int(nd.right), lo, hi])
        out = {"status": "ok", "pivots": [dbl(p) for p in rec], "nodes": nodes, "knn": [], "rad": []}
    except Exception as ex:  # noqa
        # the internal layout (boxes, axes, split values, ids) is mechanism, not property: if it cannot be read the
        # tree is still queried; only the model correspondence loses its observation
        out = {"status": "ok", "pivots": [], "nodes": None, "knn": [], "rad": [],
               "structure_error": "%s: %s" % (type(ex).__name__, ex)}
    try:
        out["leaves"] = [[int(i) for i in nd.points] for nd in tree.nodes if isinstance(nd, KDTree.Leaf)]
    except Exception as ex:  # noqa
        out["leaves"] = None
        out["leaves_error"] = "%s: %s" % (type(ex).__name__, ex)
    out["container"] = cont
    out["input_modified_by_build"] = bool(is_arr and not np.array_equal(P, before))
    # the caller goes on using its array: refill it and build another tree from it, then query the FIRST tree
    mut = case.get("mutate") if is_arr and n > 0 else None
    if mut and cont in TYPED:
        mut = "reverse"
    if mut:
        if mut == "reverse":
            P[:] = P[::-1].copy()
        elif mut == "shift":
            P += 7 * (1 if cont == "int" else sc)
        elif mut == "row":
            P[0] = P[-1] + 5 * (1 if cont == "int" else sc)
        signal.setitimer(TIMER, timeout)
        try:
            KDTree(P, max_leaf_size=case["mls"], strategy=case["strategy"])
        except CaseTimeout:
            out["second_tree"] = "timeout"
        except Exception as ex:  # noqa
            out["second_tree"] = "%s: %s" % (type(ex).__name__, ex)
        finally:
            signal.setitimer(TIMER, 0)
        before = P.copy()
    # what the caller's container holds while the queries run (doubled integers)
    try:
        out["now"] = [[dbl(c) for c in row] for row in (np.asarray(P, dtype=float).reshape(n, d) if n else [])]
    except Exception as ex:  # noqa
        return {"status": "error", "msg": "caller's array: %s: %s" % (type(ex).__name__, ex)}

    def guarded(f):
        signal.setitimer(TIMER, timeout)
        try:
            r = f()
            return [int(i) for i in r]
        except CaseTimeout:
            return ["error", "timeout"]
        except Exception as ex:  # noqa
            return ["error", "%s: %s" % (type(ex).__name__, ex)]
        finally:
            signal.setitimer(TIMER, 0)

    def qpoint(Q, j):
        a = np.array(Q, dtype=float) / 2.0 * sc
        kind = case.get("qform", "array")
        if kind == "list":
            return [float(x) for x in a]
        if kind == "tuple":
            return tuple(float(x) for x in a)
        if kind == "intarray" and sc == 1.0 and all(x % 2 == 0 for x in Q):
            return np.array([x // 2 for x in Q], dtype=int)
        if kind == "typed" and cont in TYPED and sc == 1.0 and all(x % 2 == 0 for x in Q):
            # the query position in the same small dtype as the points, when it is representable there
            v = np.array([x // 2 for x in Q])
            t = v.astype(TYPED[cont])
            if np.array_equal(t.astype(float), v.astype(float)):
                return t
        return a

    if case.get("bad_call_first"):
        # calls that legitimately fail (query point of the wrong dimension, unknown strategy) are caught; the tree is used afterwards
        for f in (lambda: tree.query(np.zeros(d + 1), 1), lambda: tree.query_radius(np.zeros(d + 1), 1.0),
                  lambda: KDTree(P, strategy="no-such-strategy")):
            signal.setitimer(TIMER, timeout)
            try:
                f()
            except CaseTimeout:
                pass
            except Exception:  # noqa
                pass
            finally:
                signal.setitimer(TIMER, 0)

    qmod = []

    def do_knn(Q, k, j):
        q = qpoint(Q, j)
        q0 = np.array(q, dtype=float).copy()
        kk = num(k)
        if form == "kw":
            f = lambda: tree.query(pt=q, k=kk)
        elif form == "default" and k == 1:
            f = lambda: tree.query(q)
        else:
            f = lambda: tree.query(q, kk)
        r = guarded(f)
        if not np.array_equal(np.array(q, dtype=float), q0):
            qmod.append("query")
        return r

    def do_rad(Q, m, j):
        q = qpoint(Q, j)
        q0 = np.array(q, dtype=float).copy()
        rr = num(math.sqrt(m) / 2.0 * sc, isfloat=True)
        f = (lambda: tree.query_radius(pt=q, r=rr)) if form == "kw" else (lambda: tree.query_radius(q, rr))
        r = guarded(f)
        if not np.array_equal(np.array(q, dtype=float), q0):
            qmod.append("query_radius")
        return r

    for j, (Q, k) in enumerate(case.get("knn", [])):
        out["knn"].append(do_knn(Q, k, j))
    for j, (Q, m) in enumerate(case.get("rad", [])):
        out["rad"].append(do_rad(Q, m, j))
    # the same calls again, interleaved, after the caller tampered with the first answers: the new answers are judged
    # by the oracle like the first ones (ties may legitimately be broken differently from one call to the next)
    out["knn_again"], out["rad_again"] = [], []
    if case.get("repeat"):
        for a in out["knn"] + out["rad"]:
            a_copy = list(a)
            a.append(-1)
            del a[:]
            a.extend(a_copy)
        for j in range(max(len(out["knn"]), len(out["rad"]))):
            if j < len(out["rad"]):
                out["rad_again"].append(do_rad(case["rad"][j][0], case["rad"][j][1], j))
            if j < len(out["knn"]):
                out["knn_again"].append(do_knn(case["knn"][j][0], case["knn"][j][1], j))
    out["query_point_modified_by"] = sorted(set(qmod))
    out["input_modified_by_query"] = bool(is_arr and not np.array_equal(P, before))
    try:
        out["ambient_after"] = [sorted([[plain(it.x), float(it.priority)] for it in pq.data], key=repr) for pq in ambient]
    except Exception as ex:  # noqa
        out["ambient_after"] = ["error", "%s: %s" % (type(ex).__name__, ex)]
    return out


def main():
    payload = json.load(sys.stdin)
    t = float(payload.get("timeout", 3.0))
    max_to = int(payload.get("max_timeouts", 3))
    obs = []
    n_to = 0
    for c in payload["cases"]:
        if n_to >= max_to:
            # enough hangs observed in this shard: do not spend the time budget on more of them
            obs.append({"status": "skipped"})
            continue
        try:
            o = run_case(c, t)
        except CaseTimeout:
            o = {"status": "timeout", "where": "outside build/query"}
        except Exception as ex:  # noqa
            o = {"status": "error", "msg": "driver: %s: %s" % (type(ex).__name__, ex)}
        finally:
            signal.setitimer(TIMER, 0)
        if o["status"] == "timeout":
            n_to += 1
        obs.append(o)
    print("@@JSON " + json.dumps({"obs": obs}, default=repr))


if __name__ == "__main__":
    main()
