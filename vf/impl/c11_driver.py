"""Runs mouette's KDTree on point sets and reports canonical observations (C11).

stdin : {"cases": [case, ...], "timeout": seconds per case}
  case = {"dim": d, "pts": [[int,...],...], "mls": int, "strategy": "balanced|fast|random", "seed": int,
          "dtype": "float|int", "knn": [[Q, k], ...], "rad": [[Q, m], ...],
          "ambient": [[[x, priority], ...], ...]   (optional: other PriorityQueue objects alive during the run),
          "container": "list|tuple|float|int|fortran|view"  (form in which the points are handed to the constructor),
          "mutate": "reverse|shift|row"  (optional, ndarray containers: after construction the caller overwrites its array
                     and builds a second tree from it; the queries then go to the FIRST tree)}
  Coordinates of the points are integers. Query points are given DOUBLED (Q = 2q, so q has half-integer
  coordinates) and the radius of a radius query is r = sqrt(m)/2, i.e. m = (2r)^2.
stdout: '@@JSON ' + {"obs": [obs, ...]}
  obs = {"status": "ok", "pivots": [2*pivot,...] (what _find_pivot returned, in call order),
         "nodes": [["L", id, axis, [pt idx...], lo, hi] | ["N", id, axis, 2*split_value, left, right, lo, hi]],
         "knn": [[idx...] | ["error", msg]], "rad": [[idx...] | ["error", msg]],
         "ambient_after": [sorted [[x, priority], ...] per ambient queue]   (their contents after all queries),
         "now": the caller's container as it is while the queries run (doubled), "input_modified_by_build/_query": bool}
      | {"status": "timeout", "where": ...} | {"status": "error", "msg": ...}
      | {"status": "skipped"}  (after `max_timeouts` build time-outs in this payload the remaining cases are not run)
  Box bounds are doubled integers or the strings "-inf" / "inf". Everything is doubled so that medians of integer
  coordinates (half-integers) stay integral on the Coq side.
The pivots are observed by subclassing KDTree and overriding _find_pivot (no hook in /repo).
"""
import json
import math
import signal
import sys


class CaseTimeout(Exception):
    pass


def _alarm(signum, frame):
    raise CaseTimeout()


def dbl(x):
    """2*x as an exact int, or +-inf markers; raises if not a half-integer."""
    x = float(x)
    if x == math.inf:
        return "inf"
    if x == -math.inf:
        return "-inf"
    y = 2 * x
    if y != int(y):
        raise ValueError("value %r is not a half-integer" % x)
    return int(y)


def plain(x):
    """A payload as a JSON value (numpy scalars -> python numbers, anything else -> its repr)."""
    if hasattr(x, "item") and not isinstance(x, (str, bytes)):
        try:
            x = x.item()
        except Exception:  # noqa
            pass
    return x if isinstance(x, (int, float, str, bool)) or x is None else repr(x)


def run_case(case, timeout):
    import numpy as np
    from mouette.spatial import KDTree

    rec = []

    class Rec(KDTree):
        def _find_pivot(self, pts_ax):
            p = KDTree._find_pivot(self, pts_ax)
            rec.append(p)
            return p

    # ambient objects: other PriorityQueue instances of the program, holding pending items while the tree is
    # built and queried (default-constructed, filled through the public API, kept alive until the end)
    ambient = []
    for items in case.get("ambient", []):
        from mouette.utils import PriorityQueue
        pq = PriorityQueue()
        for x, w in items:
            pq.push(x, w)
        ambient.append(pq)

    d = case["dim"]
    n = len(case["pts"])
    # the caller's container: every form the constructor accepts
    cont = case.get("container") or ("int" if case.get("dtype", "float") == "int" else "float")
    if n == 0 and cont in ("list", "tuple"):
        cont = "float"          # an empty list has no (N,d) shape
    base = np.array(case["pts"], dtype=float).reshape(n, d)
    if cont == "list":
        P = [[float(c) for c in p] for p in case["pts"]]
    elif cont == "tuple":
        P = tuple(tuple(float(c) for c in p) for p in case["pts"])
    elif cont == "int":
        P = np.array(case["pts"], dtype=int).reshape(n, d)
    elif cont == "fortran":
        P = np.asfortranarray(base)
    elif cont == "view":          # non-contiguous view into a larger buffer
        big = np.full((2 * n + 1, d + 2), -77.0)
        big[1:2 * n + 1:2, 1:d + 1] = base
        P = big[1:2 * n + 1:2, 1:d + 1]
    else:
        P = base.copy()
    is_arr = isinstance(P, np.ndarray)
    before = P.copy() if is_arr else None
    np.random.seed(case["seed"])
    signal.signal(signal.SIGALRM, _alarm)
    signal.setitimer(signal.ITIMER_REAL, timeout)
    try:
        tree = Rec(P, max_leaf_size=case["mls"], strategy=case["strategy"])
    except CaseTimeout:
        return {"status": "timeout", "where": "build", "pivots_so_far": len(rec)}
    except Exception as ex:  # noqa
        signal.setitimer(signal.ITIMER_REAL, 0)
        return {"status": "error", "msg": "build: %s: %s" % (type(ex).__name__, ex)}
    finally:
        signal.setitimer(signal.ITIMER_REAL, 0)
    try:
        nodes = []
        for nd in tree.nodes:
            lo = [dbl(x) for x in nd.bb.mini]
            hi = [dbl(x) for x in nd.bb.maxi]
            if isinstance(nd, KDTree.Leaf):
                nodes.append(["L", int(nd.id), int(nd.split_axis), [int(i) for i in nd.points], lo, hi])
            else:
                nodes.append(["N", int(nd.id), int(nd.split_axis), dbl(nd.split_value), int(nd.left), int(nd.right), lo, hi])
        out = {"status": "ok", "pivots": [dbl(p) for p in rec], "nodes": nodes, "knn": [], "rad": []}
    except Exception as ex:  # noqa
        return {"status": "error", "msg": "canonicalise: %s: %s" % (type(ex).__name__, ex)}
    out["container"] = cont
    out["input_modified_by_build"] = bool(is_arr and not np.array_equal(P, before))
    # the caller goes on using its array: refill it and build another tree from it, then query the FIRST tree
    mut = case.get("mutate") if is_arr and n > 0 else None
    if mut:
        if mut == "reverse":
            P[:] = P[::-1].copy()
        elif mut == "shift":
            P += 7
        elif mut == "row":
            P[0] = P[-1] + 5
        signal.setitimer(signal.ITIMER_REAL, timeout)
        try:
            KDTree(P, max_leaf_size=case["mls"], strategy=case["strategy"])
        except CaseTimeout:
            out["second_tree"] = "timeout"
        except Exception as ex:  # noqa
            out["second_tree"] = "%s: %s" % (type(ex).__name__, ex)
        finally:
            signal.setitimer(signal.ITIMER_REAL, 0)
        before = P.copy()
    # what the caller's container holds while the queries run (doubled integers)
    try:
        out["now"] = [[dbl(c) for c in row] for row in (np.asarray(P, dtype=float).reshape(n, d) if n else [])]
    except Exception as ex:  # noqa
        return {"status": "error", "msg": "caller's array: %s: %s" % (type(ex).__name__, ex)}

    def guarded(f):
        signal.setitimer(signal.ITIMER_REAL, timeout)
        try:
            r = f()
            return [int(i) for i in r]
        except CaseTimeout:
            return ["error", "timeout"]
        except Exception as ex:  # noqa
            return ["error", "%s: %s" % (type(ex).__name__, ex)]
        finally:
            signal.setitimer(signal.ITIMER_REAL, 0)

    for Q, k in case.get("knn", []):
        q = np.array(Q, dtype=float) / 2.0
        out["knn"].append(guarded(lambda: tree.query(q, k)))
    for Q, m in case.get("rad", []):
        q = np.array(Q, dtype=float) / 2.0
        r = math.sqrt(m) / 2.0
        out["rad"].append(guarded(lambda: tree.query_radius(q, r)))
    out["input_modified_by_query"] = bool(is_arr and not np.array_equal(P, before))
    try:
        out["ambient_after"] = [sorted([[plain(it.x), float(it.priority)] for it in pq.data], key=repr) for pq in ambient]
    except Exception as ex:  # noqa
        out["ambient_after"] = ["error", "%s: %s" % (type(ex).__name__, ex)]
    return out


def main():
    payload = json.load(sys.stdin)
    t = float(payload.get("timeout", 3.0))
    max_to = int(payload.get("max_timeouts", 3))
    obs = []
    n_to = 0
    for c in payload["cases"]:
        if n_to >= max_to:
            # enough hangs observed in this shard: do not spend the time budget on more of them
            obs.append({"status": "skipped"})
            continue
        try:
            o = run_case(c, t)
        except CaseTimeout:
            o = {"status": "timeout", "where": "outside build/query"}
        except Exception as ex:  # noqa
            o = {"status": "error", "msg": "driver: %s: %s" % (type(ex).__name__, ex)}
        finally:
            signal.setitimer(signal.ITIMER_REAL, 0)
        if o["status"] == "timeout":
            n_to += 1
        obs.append(o)
    print("@@JSON " + json.dumps({"obs": obs}, default=repr))


if __name__ == "__main__":
    main()
