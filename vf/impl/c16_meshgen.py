"""C16 - generator of connected oriented manifold TRIANGULATED surfaces with integer coordinates, plus
singularity sets and feature-edge sets, and the brute-force combinatorial helpers shared by the oracle.

A case is {"nv", "faces" (triples), "coords" (integer triples), "singus" (list), "feat" (None | list of
sorted vertex pairs = extra interior feature edges), "info": {...}}.
Everything is driven by one random.Random.  Pure python, no mouette import.
"""


# ---------------------------------------------------------------------- brute-force combinatorics
def directed_edges(faces):
    d = {}
    for f, F in enumerate(faces):
        n = len(F)
        for i in range(n):
            d.setdefault((F[i], F[(i + 1) % n]), []).append((f, i))
    return d


def validate(nv, faces):
    """None if (nv, faces) is a connected oriented manifold triangulated surface using every vertex."""
    if not faces:
        return "no face"
    used = set()
    for F in faces:
        if len(F) != 3:
            return "not a triangle"
        if len(set(F)) != 3:
            return "repeated vertex in a face"
        if any((not isinstance(v, int)) or v < 0 or v >= nv for v in F):
            return "vertex out of range"
        used.update(F)
    if len(used) != nv:
        return "isolated vertex"
    if len({tuple(sorted(F)) for F in faces}) != len(faces):
        return "two faces on the same three vertices"
    de = directed_edges(faces)
    for k, l in de.items():
        if len(l) > 1:
            return "directed edge %s used twice" % (k,)
    at = {}
    for f, F in enumerate(faces):
        for i, v in enumerate(F):
            at.setdefault(v, []).append((f, i))
    for v, cs in at.items():
        def cw(c):
            f, i = c
            p = faces[f][(i - 1) % 3]
            o = de.get((v, p))
            return o[0] if o else None

        def ccw(c):
            f, i = c
            nx = faces[f][(i + 1) % 3]
            o = de.get((nx, v))
            if not o:
                return None
            g, j = o[0]
            return (g, (j + 1) % 3)
        seen = {cs[0]}
        for step in (cw, ccw):
            c = cs[0]
            while True:
                c = step(c)
                if c is None or c in seen:
                    break
                seen.add(c)
        if len(seen) != len(cs):
            return "vertex %d is not manifold" % v
    if n_components(faces) != 1:
        return "not connected"
    return None


def n_components(faces):
    """number of connected components of the face list (faces glued along shared undirected edges)."""
    par = list(range(len(faces)))

    def find(x):
        while par[x] != x:
            par[x] = par[par[x]]
            x = par[x]
        return x
    first = {}
    for f, F in enumerate(faces):
        for i in range(len(F)):
            k = tuple(sorted((F[i], F[(i + 1) % len(F)])))
            if k in first:
                a, b = find(first[k]), find(f)
                if a != b:
                    par[a] = b
            else:
                first[k] = f
    return len({find(f) for f in range(len(faces))})


def border_loops(faces):
    """list of border loops (vertex cycles) or None if the border is not a disjoint union of simple cycles."""
    de = directed_edges(faces)
    nxt = {}
    for (a, b) in de:
        if (b, a) not in de:
            if a in nxt:
                return None
            nxt[a] = b
    loops = []
    seen = set()
    for s in sorted(nxt):
        if s in seen:
            continue
        loop = []
        v = s
        while v not in seen:
            seen.add(v)
            loop.append(v)
            if v not in nxt:
                return None
            v = nxt[v]
        if v != s:
            return None
        loops.append(loop)
    return loops


def euler(faces):
    vs = set()
    es = set()
    for F in faces:
        vs.update(F)
        for i in range(len(F)):
            es.add(tuple(sorted((F[i], F[(i + 1) % len(F)]))))
    return len(vs) - len(es) + len(faces)


def stats(nv, faces):
    loops = border_loops(faces)
    chi = euler(faces)
    nb = len(loops) if loops is not None else -1
    genus = (2 - nb - chi) // 2 if nb >= 0 else -1
    return {"nv": nv, "nf": len(faces), "chi": chi, "loops": nb, "genus": genus}


# ---------------------------------------------------------------------- seeds
def seed_tetra():
    return 4, [[0, 1, 2], [0, 3, 1], [1, 3, 2], [0, 2, 3]]


def seed_octa():
    eq = [2, 3, 4, 5]
    fs = []
    for k in range(4):
        a, b = eq[k], eq[(k + 1) % 4]
        fs.append([0, a, b])
        fs.append([1, b, a])
    return 6, fs


def seed_bipyramid(n):
    """two apexes over an n-cycle (closed sphere)"""
    fs = []
    for k in range(n):
        a, b = 2 + k, 2 + (k + 1) % n
        fs.append([0, a, b])
        fs.append([1, b, a])
    return n + 2, fs


def seed_grid(n, m, wrap_i=False, wrap_j=False, rng=None, diag=None):
    """n x m vertices, each quad cut in two triangles (diagonal random, or fixed with diag=0/1)."""
    def vid(i, j):
        return (i % n) * m + (j % m)
    fs = []
    for i in range(n if wrap_i else n - 1):
        for j in range(m if wrap_j else m - 1):
            a, b, c, d = vid(i, j), vid(i, j + 1), vid(i + 1, j + 1), vid(i + 1, j)
            dg = diag if diag is not None else (rng.random() < 0.5)
            if dg:
                fs += [[a, b, c], [a, c, d]]
            else:
                fs += [[a, b, d], [b, c, d]]
    return n * m, fs


def seed_fan(n):
    """disk: n triangles around an interior vertex 0"""
    return n + 1, [[0, 1 + k, 1 + (k + 1) % n] for k in range(n)]


def connected_sum(m1, m2, rng):
    """remove one face of each and identify the two holes (orientation reversed)."""
    n1, f1 = m1
    n2, f2 = m2
    i1 = rng.randrange(len(f1))
    i2 = rng.randrange(len(f2))
    a, b, c = f1[i1]
    x, y, z = f2[i2]
    # identify x->a, y->c, z->b (reversed orientation)
    ren = {}
    nxt = n1
    for v in range(n2):
        if v == x:
            ren[v] = a
        elif v == y:
            ren[v] = c
        elif v == z:
            ren[v] = b
        else:
            ren[v] = nxt
            nxt += 1
    fs = [list(F) for k, F in enumerate(f1) if k != i1] + [[ren[v] for v in F] for k, F in enumerate(f2) if k != i2]
    return nxt, fs


def compact(nv, faces):
    used = sorted({v for F in faces for v in F})
    ren = {v: i for i, v in enumerate(used)}
    return len(used), [[ren[v] for v in F] for F in faces]


# ---------------------------------------------------------------------- edits (return (nv, faces) or None)
def ed_split13(rng, nv, faces):
    f = rng.randrange(len(faces))
    F = faces[f]
    w = nv
    new = [[F[i], F[(i + 1) % 3], w] for i in range(3)]
    return nv + 1, faces[:f] + faces[f + 1:] + new


def ed_edge_split(rng, nv, faces):
    f = rng.randrange(len(faces))
    F = faces[f]
    i = rng.randrange(3)
    u, v = F[i], F[(i + 1) % 3]
    w = nv
    out = []
    for G in faces:
        hit = None
        for j in range(3):
            a, b = G[j], G[(j + 1) % 3]
            if (a, b) == (u, v) or (a, b) == (v, u):
                hit = j
        if hit is None:
            out.append(list(G))
        else:
            a, b, c = G[hit], G[(hit + 1) % 3], G[(hit + 2) % 3]
            out += [[a, w, c], [w, b, c]]
    return nv + 1, out


def ed_flip(rng, nv, faces):
    de = directed_edges(faces)
    cands = [(k, l[0]) for k, l in de.items() if (k[1], k[0]) in de and k[0] < k[1]]
    if not cands:
        return None
    (u, v), (f, i) = rng.choice(cands)
    g, j = de[(v, u)][0]
    a = faces[f][(i + 2) % 3]
    b = faces[g][(j + 2) % 3]
    if a == b or (a, b) in de or (b, a) in de:
        return None
    out = [list(F) for k, F in enumerate(faces) if k not in (f, g)]
    out += [[a, u, b], [b, v, a]]
    return nv, out


def ed_delete(rng, nv, faces):
    if len(faces) < 3:
        return None
    f = rng.randrange(len(faces))
    return compact(nv, faces[:f] + faces[f + 1:])


def ed_ear(rng, nv, faces):
    de = directed_edges(faces)
    border = [k for k in de if (k[1], k[0]) not in de]
    if not border:
        return None
    u, v = rng.choice(border)
    if rng.random() < 0.6:
        return nv + 1, faces + [[v, u, nv]]
    nxt = [k for k in border if k[0] == v]
    if not nxt:
        return None
    w = nxt[0][1]
    if w == u:
        return None
    return nv, faces + [[w, v, u]]


EDITS = [("split13", ed_split13, 3), ("edge_split", ed_edge_split, 3), ("flip", ed_flip, 4),
         ("delete", ed_delete, 4), ("ear", ed_ear, 3)]


def finalize(rng, nv, faces):
    perm = list(range(nv))
    rng.shuffle(perm)
    out = []
    for F in faces:
        G = [perm[v] for v in F]
        r = rng.randrange(3)
        out.append(G[r:] + G[:r])
    rng.shuffle(out)
    return nv, out, perm


def random_seed_mesh(rng, size):
    lim = {"tiny": 3, "mid": 5, "big": 7}[size]
    if size == "tiny":
        k = rng.choice(["tetra", "octa", "fan", "grid", "bipyr", "tri", "annulus"])
    else:
        k = rng.choice(["octa", "bipyr", "grid", "grid", "annulus", "annulus", "torus", "torus", "torus2", "fan",
                        "sum_torus_sphere", "pants"])
    if k == "tri":
        return k, (3, [[0, 1, 2]])
    if k == "tetra":
        return k, seed_tetra()
    if k == "octa":
        return k, seed_octa()
    if k == "bipyr":
        return k, seed_bipyramid(rng.randint(3, 4 + lim))
    if k == "fan":
        return k, seed_fan(rng.randint(3, 4 + lim))
    diag = rng.choice([None, None, 0, 1])
    if k == "grid":
        return k, seed_grid(rng.randint(2, lim + 1), rng.randint(2, lim + 1), rng=rng, diag=diag)
    if k == "annulus":
        return k, seed_grid(rng.randint(3, lim + 1), rng.randint(2, lim), wrap_i=True, rng=rng, diag=diag)
    if k == "torus":
        return k, seed_grid(rng.randint(3, max(3, lim)), rng.randint(3, max(3, lim)), True, True, rng=rng, diag=diag)
    if k == "torus2":
        t1 = seed_grid(3, rng.randint(3, 4), True, True, rng=rng, diag=diag)
        t2 = seed_grid(3, 3, True, True, rng=rng, diag=diag)
        return k, connected_sum(t1, t2, rng)
    if k == "sum_torus_sphere":
        t1 = seed_grid(3, rng.randint(3, 4), True, True, rng=rng, diag=diag)
        return k, connected_sum(t1, seed_bipyramid(rng.randint(3, 5)), rng)
    # pants: a disk/sphere grid from which faces will be deleted by the hole step
    return k, seed_grid(rng.randint(4, lim + 2), rng.randint(4, lim + 2), rng=rng, diag=diag)


def open_holes(rng, nv, faces, k):
    """delete up to k faces, each time keeping the surface a connected manifold (new or enlarged border loops)."""
    for _ in range(k):
        for _try in range(6):
            r = ed_delete(rng, nv, faces)
            if r is not None and validate(*r) is None:
                nv, faces = r
                break
    return nv, faces


def degenerate_coords(rng, nv, style):
    """geometrically degenerate (but legal) positions: the property is combinatorial and must not depend on them"""
    if style == "allzero":
        return [[0, 0, 0] for _ in range(nv)]
    if style == "allsame":
        p = [rng.randint(-5, 5) for _ in range(3)]
        return [list(p) for _ in range(nv)]
    if style == "fewpoints":          # many coincident vertices, zero-length edges, zero-area faces
        pts = [[rng.randint(-3, 3), rng.randint(-3, 3), rng.randint(-3, 3)] for _ in range(rng.randint(2, 4))]
        return [list(rng.choice(pts)) for _ in range(nv)]
    if style == "collinear":          # every face has zero area
        return [[rng.randint(0, 6), 0, 0] for _ in range(nv)]
    raise ValueError(style)


DEGENERATE = ["allzero", "allsame", "fewpoints", "collinear"]


def double_cover(nv, faces, coords):
    """two copies of a bordered surface glued along the border (back sheet reversed): a closed oriented manifold
    whose two sheets have the same positions, so faces on either side of a rim edge have the same barycenter.
    None when a face has its three vertices on the border (the two copies would be the same vertex triple)."""
    de = directed_edges(faces)
    bverts = set()
    for (a, b) in de:
        if (b, a) not in de:
            bverts.add(a)
            bverts.add(b)
    if not bverts or any(all(v in bverts for v in F) for F in faces):
        return None
    ren = {}
    nxt = nv
    for v in range(nv):
        if v in bverts:
            ren[v] = v
        else:
            ren[v] = nxt
            nxt += 1
    back = [[ren[F[0]], ren[F[2]], ren[F[1]]] for F in faces]
    c2 = [list(p) for p in coords] + [None] * (nxt - nv)
    for v in range(nv):
        c2[ren[v]] = list(coords[v])
    return nxt, [list(F) for F in faces] + back, c2


def lattice_coords(rng, nv, style):
    """distinct integer coordinates; 'random' gives generic edge lengths, 'flat' a tie-heavy layout."""
    pts = set()
    out = []
    for v in range(nv):
        while True:
            if style == "flat":
                p = (v % 7, v // 7, 0)
            elif style == "planar":
                p = (rng.randint(0, 12), rng.randint(0, 12), 0)
            else:
                p = (rng.randint(-9, 9), rng.randint(-9, 9), rng.randint(-9, 9))
            if p not in pts:
                break
            style = "random" if style == "flat" else style
        pts.add(p)
        out.append(list(p))
    return out


def grid_coords(n, m):
    return [[i, j, 0] for i in range(n) for j in range(m)]


def gen_case(rng, size=None, max_faces=80):
    if size is None:
        r = rng.random()
        size = "tiny" if r < 0.3 else ("mid" if r < 0.9 else "big")
    while True:
        kind, (nv, faces) = random_seed_mesh(rng, size)
        if len(faces) <= max_faces:
            break
    faces = [list(F) for F in faces]
    assert validate(nv, faces) is None, (kind, nv, faces, validate(nv, faces))
    base_nv = nv
    regular = kind in ("grid", "pants")
    applied = []
    if kind == "pants" or (size != "tiny" and rng.random() < 0.45):
        nh = rng.choice([1, 1, 2, 2, 3])
        nv, faces = open_holes(rng, nv, faces, nh)
        applied.append("holes%d" % nh)
    n_ed = rng.choice([0, 0, 0, 1, 2, 3, 5, 8])
    names = [e[0] for e in EDITS]
    fns = {e[0]: e[1] for e in EDITS}
    wts = [e[2] for e in EDITS]
    for _ in range(n_ed):
        nm = rng.choices(names, wts)[0]
        r = fns[nm](rng, nv, faces)
        if r is None:
            continue
        nv2, f2 = r
        if not f2 or len(f2) > max_faces or validate(nv2, f2) is not None:
            continue
        nv, faces = nv2, [list(F) for F in f2]
        applied.append(nm)
    style = rng.choice(["random", "random", "planar", "flat"])
    if regular and nv == base_nv and not any(a.startswith("holes") or a == "delete" for a in applied) and rng.random() < 0.6:
        style = "flat"
    coords = lattice_coords(rng, nv, style)
    if rng.random() < 0.12:
        style = rng.choice(DEGENERATE)
        coords = degenerate_coords(rng, nv, style)
    if len(faces) <= max_faces // 2 and rng.random() < 0.45:
        dc = double_cover(nv, faces, coords)
        if dc is not None and validate(dc[0], dc[1]) is None:
            nv, faces, coords = dc
            applied.append("double_cover")
            style = style + "+two-sided"
    nv, faces, perm = finalize(rng, nv, faces)
    c2 = [None] * nv
    for v in range(nv):
        c2[perm[v]] = coords[v]
    assert validate(nv, faces) is None
    st = stats(nv, faces)
    # singularities
    loops = border_loops(faces) or []
    bverts = [v for L in loops for v in L]
    mode = rng.choice(["none", "one", "two", "many", "many", "border", "mixed", "adjacent", "all"])
    if mode == "none":
        singus = []
    elif mode == "one":
        singus = [rng.randrange(nv)]
    elif mode == "two":
        singus = rng.sample(range(nv), min(2, nv))
    elif mode == "many":
        singus = rng.sample(range(nv), min(nv, rng.randint(3, 7)))
    elif mode == "border":
        singus = rng.sample(bverts, min(len(bverts), rng.randint(1, 3))) if bverts else [rng.randrange(nv)]
    elif mode == "mixed":
        singus = (rng.sample(bverts, min(len(bverts), rng.randint(1, 2))) if bverts else []) + \
                 rng.sample(range(nv), min(nv, rng.randint(1, 3)))
        singus = list(dict.fromkeys(singus))
    elif mode == "adjacent":
        F = rng.choice(faces)
        singus = [F[0], F[1]] + ([F[2]] if rng.random() < 0.3 else [])
    else:
        singus = list(range(nv)) if nv <= 12 else rng.sample(range(nv), 10)
    # feature edges (extra interior ones; the border is always a feature when a detector is passed)
    feat = None
    if rng.random() < 0.4:
        und = sorted({tuple(sorted((F[i], F[(i + 1) % 3]))) for F in faces for i in range(3)})
        de = directed_edges(faces)
        interior = [e for e in und if (e[0], e[1]) in de and (e[1], e[0]) in de]
        k = rng.choice([0, 1, 2, 3, 5, 8])
        if interior and k:
            # a mix of random edges and a walk (so that feature lines exist)
            feat = set(rng.sample(interior, min(len(interior), k)))
            adj = {}
            for a, b in interior:
                adj.setdefault(a, []).append(b)
                adj.setdefault(b, []).append(a)
            v = rng.choice(list(adj))
            for _ in range(rng.randint(0, 6)):
                w = rng.choice(adj[v])
                feat.add(tuple(sorted((v, w))))
                v = w
            feat = sorted(list(e) for e in feat)
        else:
            feat = []
    # the container in which the singular vertices reach the constructor, and late completion of the caller's list
    form = rng.choice(FORMS) if rng.random() < 0.6 else "list"
    late = 0
    if form == "list" and len(singus) >= 1 and rng.random() < 0.25:
        late = rng.randint(1, len(singus))
    info = {"seed_kind": kind, "size": size, "edits": applied, "coords": style, "singu_mode": mode,
            "features": feat is not None, "form": form, "late": late}
    info.update(st)
    sess = gen_session(rng, nv, feat is not None, form)
    # index 0 plays the key role in a fraction of the cases (truthiness of 0)
    if singus and rng.random() < 0.25 and 0 not in singus:
        singus[rng.randrange(len(singus))] = 0
    info["session"] = sorted(k for k, v in sess.items() if v and k != "call") + ["call=" + sess["call"]]
    return {"nv": nv, "faces": faces, "coords": c2, "singus": singus, "feat": feat, "form": form, "late": late,
            "session": sess, "info": info}


FORMS = ["list", "tuple", "set", "frozenset", "array", "array32", "array_u8", "npscalars", "dict", "dictkeys", "attribute",
         "generator", "iter", "filter", "map"]


def gen_session(rng, nv, has_feat, form):
    """how the cutter is used: call form, other cutters on the same mesh (whose results are wrecked), repeated calls,
    order of access to the lazily built results, pre-existing attributes with colliding names, declared edges,
    library switches toggled at run time, a failed run() repaired by the caller"""
    s = {}
    r = rng.random
    s["call"] = rng.choice(["kw", "kw", "pos", "kwall", "omit"])
    if r() < 0.25:
        s["decoy"] = rng.sample(range(nv), min(nv, rng.randint(0, 3)))
    if r() < 0.2:
        s["post_decoy"] = rng.sample(range(nv), min(nv, rng.randint(0, 3)))
    if r() < 0.2:
        s["rerun"] = 1
    if r() < 0.3:
        s["access"] = "graph_first"
    if r() < 0.2:
        s["stale_attr"] = True
        s["dup_warning"] = r() < 0.6
    if r() < 0.25:
        s["declared_edges"] = True
    if r() < 0.15:
        s["sort_off"] = True
    if form == "list" and r() < 0.12:
        s["bad_then_repair"] = True
    if form == "list" and r() < 0.25:
        s["reconfigure"] = True
    return s
