"""Runs border / feature extraction of /repo's mouette on generated surfaces and reports canonical observations.

stdin : {"cases": [case, ...]}     (case format: vf/impl/c15_meshgen.py)
stdout: '@@JSON ' + {"cases": [obs, ...]}
obs = {"tables": {...connectivity answers the anchored code consumes...},
       "cycles": [[start|null, result], ...], "all": result, "boundary": {...}, "dets": [ {...}, ... ]}
Floats are reported as exact integer ratios "num/den" (never compared raw).
"""
import json
import sys
from fractions import Fraction


def fr(x):
    f = Fraction(float(x))
    return "%d/%d" % (f.numerator, f.denominator)


def build(case):
    import mouette as M
    # sorted neighbourhoods are the library default and the setting of the property; "sort": false is used only to
    # replay the for-the-record witness of C15_cycle_unsorted_refuted
    M.config.sort_neighborhoods = bool(case.get("sort", True))
    d = M.mesh.RawMeshData()
    d.vertices += [M.Vec(float(p[0]), float(p[1]), float(p[2])) for p in case["coords"]]
    if case.get("hard"):
        d.edges += [tuple(e) for e in case["hard"]]
    d.faces += [list(F) for F in case["faces"]]
    m = M.mesh.SurfaceMesh(d)
    if case.get("normals"):
        att = m.faces.create_attribute("normals", float, 3)
        for i, n in enumerate(case["normals"]):
            att[i] = M.Vec(*[float(Fraction(x)) for x in n])
    return m


def oint(x):
    return None if x is None else int(x)


def tables(m):
    cn = m.connectivity
    nv = len(m.vertices)
    t = {"nv": nv,
         "vtv": [[int(w) for w in cn.vertex_to_vertices(v)] for v in range(nv)],
         "isb": [bool(m.is_vertex_on_border(v)) for v in range(nv)],
         "bverts": [int(v) for v in m.boundary_vertices],
         "edges": [[int(a), int(b)] for a, b in m.edges],
         "bedges": [int(e) for e in m.boundary_edges],
         "e2f": [[oint(x) for x in cn.edge_to_faces(*m.edges[e])] for e in range(len(m.edges))],
         "v2e": [[oint(e) for e in cn.vertex_to_edges(v)] for v in range(nv)],
         "nf": len(m.faces),
         "coords": [[fr(c) for c in m.vertices[v]] for v in range(nv)],
         "hard": ([int(e) for e in m.edges.get_attribute("hard_edges")]
                  if m.edges.has_attribute("hard_edges") else None)}
    return t


def run_cycle(m, s):
    from mouette.processing import border as B
    try:
        r = B.extract_border_cycle(m) if s is None else B.extract_border_cycle(m, s)
    except Exception as ex:
        return ["exc", type(ex).__name__, str(ex)[:80]]
    if isinstance(r, list) and len(r) == 0:
        return ["empty"]
    if isinstance(r, tuple) and len(r) == 2:
        return ["ok", [int(v) for v in r[0]], [oint(e) for e in r[1]]]
    return ["other", repr(r)[:100]]


def run_all(m):
    from mouette.processing import border as B
    try:
        r = B.extract_border_cycle_all(m)
        return ["ok", [[int(v) for v in c] for c in r]]
    except Exception as ex:
        return ["exc", type(ex).__name__, str(ex)[:80]]


def run_boundary(m):
    from mouette.processing import border as B
    import mouette as M
    try:
        r = B.extract_boundary_of_surface(m)
    except Exception as ex:
        return ["exc", type(ex).__name__, str(ex)[:80]]
    if not (isinstance(r, tuple) and len(r) == 2 and isinstance(r[0], M.mesh.PolyLine) and isinstance(r[1], dict)):
        return ["other", repr(r)[:100]]
    pl, mp = r
    comp = None
    if pl.vertices.has_attribute("component"):
        a = pl.vertices.get_attribute("component")
        comp = [[int(k), int(a[k])] for k in a]
        # what a reader of the polyline sees: the attribute at each polyline vertex
        seen = [int(a[i]) for i in range(len(pl.vertices))]
    else:
        seen = None
    return ["ok", {"verts": [[fr(c) for c in p] for p in pl.vertices],
                   "edges": [[int(a), int(b)] for a, b in pl.edges],
                   "map": [[int(k), int(v)] for k, v in mp.items()],
                   "comp_keys": comp, "comp_at": seen}]


def angle_sums(case):
    """the angle sums _flag_corners works from (same evaluation order: vertex_to_faces, vertex_to_corner_in_face)"""
    from mouette.attributes.attr_corners import corner_angles
    m2 = build(case)
    angles = corner_angles(m2, persistent=False)
    ang = []
    for v in range(len(m2.vertices)):
        a = 0.
        for T in m2.connectivity.vertex_to_faces(v):
            c = m2.connectivity.vertex_to_corner_in_face(v, T)
            a += angles[c]
        ang.append(fr(a))
    return ang


def observe(det, m, opt, ang):
    """every public container of the detector after a run on mesh m"""
    out = {"fe": sorted(int(e) for e in det.feature_edges),
           "fv": sorted(int(v) for v in det.feature_vertices),
           "deg": sorted([int(k), int(det.feature_degrees[k])] for k in det.feature_degrees),
           "local": sorted([int(k), [int(i) for i in v]] for k, v in det.local_feat_edges.items()),
           "normals": [[fr(c) for c in det.fnormals[f]] for f in range(len(m.faces))],
           "feat_e_attr": sorted(int(e) for e in m.edges.get_attribute("feature")) if m.edges.has_attribute("feature") else None,
           "feat_v_attr": sorted(int(v) for v in m.vertices.get_attribute("feature")) if m.vertices.has_attribute("feature") else None,
           }
    if det.corners is None:
        out["corners"] = None
    else:
        out["corners"] = sorted([int(k), int(det.corners[k])] for k in det.corners)
    out["angle"] = ang
    if opt["graph"]:
        g = det._feature_graph
        try:
            out["graph"] = {"nv": len(g.vertices), "edges": sorted(sorted([int(a), int(b)]) for a, b in g.edges),
                            "verts": [[fr(c) for c in p] for p in g.vertices],
                            "deg": [int(g.vertices.get_attribute("degree")[i]) for i in range(len(g.vertices))]}
        except Exception as ex:
            out["graph"] = {"exc": repr(ex)[:80]}
    return out


def make_det(opt):
    from mouette.processing.features import FeatureEdgeDetector
    return FeatureEdgeDetector(only_border=opt["only_border"], flag_corners=opt["flag_corners"],
                               corner_order=opt["corner_order"], compute_feature_graph=opt["graph"], verbose=False)


def run_det(case, opt, ang):
    """A fresh mesh and a fresh detector per run; with opt["prior"] the mesh first goes through a run (of another
    detector object) with those options."""
    m = build(case)
    if opt.get("prior"):
        make_det(opt["prior"]).run(m)
    det = make_det(opt)
    try:
        det.run(m)
    except Exception as ex:
        return {"exc": "%s: %s" % (type(ex).__name__, str(ex)[:80])}
    return observe(det, m, opt, ang)


def run_session(case, ang):
    """ONE detector object re-used for several runs: on this case's mesh and on a second mesh, with the options
    (public attributes of the detector) changed between runs. Every container is observed after each run."""
    ses = case.get("session")
    if not ses:
        return None
    meshes = [build(case), build(ses["other"]) if ses.get("other") else None]
    angs = [ang, angle_sums(ses["other"]) if ses.get("other") else None]
    out = {"other_tables": tables(meshes[1]) if meshes[1] is not None else None, "steps": []}
    det = None
    for st in ses["steps"]:
        try:
            if det is None:
                det = make_det(st)
            else:
                det.only_border = st["only_border"]
                det.flag_corners = st["flag_corners"]
                det.corner_order = st["corner_order"]
                det.compute_feature_graph = st["graph"]
            det.run(meshes[st["on"]])
            out["steps"].append(observe(det, meshes[st["on"]], st, angs[st["on"]]))
        except Exception as ex:
            out["steps"].append({"exc": "%s: %s" % (type(ex).__name__, str(ex)[:80])})
    return out


def run_case(case):
    m = build(case)
    res = {"tables": tables(m)}
    res["cycles"] = [[s, run_cycle(m, s)] for s in [None] + list(case["starts"])]
    res["all"] = run_all(m)
    res["boundary"] = run_boundary(m)
    ang = angle_sums(case) if (case["dets"] or case.get("session")) else None
    res["dets"] = [run_det(case, o, ang) for o in case["dets"]]
    res["session"] = run_session(case, ang)
    return res


def main():
    payload = json.load(sys.stdin)
    out = []
    for case in payload["cases"]:
        try:
            out.append(run_case(case))
        except Exception as ex:
            import traceback
            out.append({"crash": "%s: %s" % (type(ex).__name__, ex), "tb": traceback.format_exc()[-600:]})
    print("@@JSON " + json.dumps({"cases": out}))


if __name__ == "__main__":
    main()
