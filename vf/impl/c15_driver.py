"""Runs border / feature extraction of /repo's mouette on generated surfaces and reports canonical observations.

stdin : {"cases": [case, ...]}     (case format: vf/impl/c15_meshgen.py)
stdout: '@@JSON ' + {"cases": [obs, ...]}
obs = {"tables": {...connectivity answers the anchored code consumes...},
       "cycles": [[start|null, result], ...], "all": result, "boundary": {...}, "dets": [ {...}, ... ]}
Floats are reported as exact integer ratios "num/den" (never compared raw).
"""
import json
import sys
from fractions import Fraction


def fr(x):
    f = Fraction(float(x))
    return "%d/%d" % (f.numerator, f.denominator)


SCALE = [1.0]


def frc(x):
    """a coordinate, scaled back by the case's power-of-two factor (exact)"""
    return fr(float(x) / SCALE[0])


def build(case):
    import mouette as M
    SCALE[0] = 2.0 ** case.get("scale_exp", 0)
    # sorted neighbourhoods are the library default and the setting of the property; "sort": false is used only to
    # replay the for-the-record witness of C15_cycle_unsorted_refuted
    M.config.sort_neighborhoods = bool(case.get("sort", True))
    d = M.mesh.RawMeshData()
    sc = 2.0 ** case.get("scale_exp", 0)
    d.vertices += [M.Vec(float(p[0]) * sc, float(p[1]) * sc, float(p[2]) * sc) for p in case["coords"]]
    if case.get("hard"):
        d.edges += [tuple(e) for e in case["hard"]]
    d.faces += [list(F) for F in case["faces"]]
    m = M.mesh.SurfaceMesh(d)
    if case.get("normals"):
        att = m.faces.create_attribute("normals", float, 3)
        for i, n in enumerate(case["normals"]):
            att[i] = M.Vec(*[float(Fraction(x)) for x in n])
    return m


def oint(x):
    return None if x is None else int(x)


def tables(m):
    cn = m.connectivity
    nv = len(m.vertices)
    t = {"nv": nv,
         "vtv": [[int(w) for w in cn.vertex_to_vertices(v)] for v in range(nv)],
         "isb": [bool(m.is_vertex_on_border(v)) for v in range(nv)],
         "bverts": [int(v) for v in m.boundary_vertices],
         "edges": [[int(a), int(b)] for a, b in m.edges],
         "bedges": [int(e) for e in m.boundary_edges],
         "e2f": [[oint(x) for x in cn.edge_to_faces(*m.edges[e])] for e in range(len(m.edges))],
         "v2e": [[oint(e) for e in cn.vertex_to_edges(v)] for v in range(nv)],
         "nf": len(m.faces),
         "coords": [[frc(c) for c in m.vertices[v]] for v in range(nv)],
         "hard": ([int(e) for e in m.edges.get_attribute("hard_edges")]
                  if m.edges.has_attribute("hard_edges") else None)}
    return t


def call_cycle(m, s, form):
    """every way a caller may pass the start: omitted, None, keyword, python int, numpy integers"""
    import numpy as np
    from mouette.processing import border as B
    if s is None:
        if form == "none":
            return B.extract_border_cycle(m, None)
        if form == "none_kw":
            return B.extract_border_cycle(m, starting_point=None)
        return B.extract_border_cycle(m)
    if form == "kw":
        return B.extract_border_cycle(m, starting_point=s)
    if form == "np64":
        return B.extract_border_cycle(m, np.int64(s))
    if form == "np32":
        return B.extract_border_cycle(m, np.int32(s))
    if form == "npu16":
        return B.extract_border_cycle(m, np.uint16(s))
    return B.extract_border_cycle(m, s)


def run_cycle(m, s, form="int"):
    try:
        r = call_cycle(m, s, form)
    except Exception as ex:
        return ["exc", type(ex).__name__, str(ex)[:80]]
    if isinstance(r, list) and len(r) == 0:
        return ["empty"]
    if isinstance(r, tuple) and len(r) == 2:
        return ["ok", [int(v) for v in r[0]], [oint(e) for e in r[1]]]
    return ["other", repr(r)[:100]]


def run_all(m):
    from mouette.processing import border as B
    try:
        first = B.extract_border_cycle_all(m)
        # the first answer is wrecked in place, the call repeated: the second answer is the one reported
        for c in first:
            c.reverse()
            c.append(-7)
        first.clear()
        r = B.extract_border_cycle_all(m)
        return ["ok", [[int(v) for v in c] for c in r]]
    except Exception as ex:
        return ["exc", type(ex).__name__, str(ex)[:80]]


def run_boundary(m):
    from mouette.processing import border as B
    import mouette as M
    try:
        first = B.extract_boundary_of_surface(m)
        # wreck the first answer in place (map, edges, coordinates), repeat the call, report the second answer
        if isinstance(first, tuple) and len(first) == 2 and isinstance(first[1], dict):
            for k in list(first[1]):
                first[1][k] = -1
            first[1][-5] = 0
            for p in first[0].vertices:
                p += 1000.
            for i in range(len(first[0].edges)):
                first[0].edges[i] = (0, 0)
        r = B.extract_boundary_of_surface(m)
    except Exception as ex:
        return ["exc", type(ex).__name__, str(ex)[:80]]
    if not (isinstance(r, tuple) and len(r) == 2 and isinstance(r[0], M.mesh.PolyLine) and isinstance(r[1], dict)):
        return ["other", repr(r)[:100]]
    pl, mp = r
    comp = None
    if pl.vertices.has_attribute("component"):
        a = pl.vertices.get_attribute("component")
        comp = [[int(k), int(a[k])] for k in a]
        # what a reader of the polyline sees: the attribute at each polyline vertex
        seen = [int(a[i]) for i in range(len(pl.vertices))]
    else:
        seen = None
    return ["ok", {"verts": [[frc(c) for c in p] for p in pl.vertices],
                   "edges": [[int(a), int(b)] for a, b in pl.edges],
                   "map": [[int(k), int(v)] for k, v in mp.items()],
                   "comp_keys": comp, "comp_at": seen}]


def angle_sums(case):
    """the angle sums _flag_corners works from (same evaluation order: vertex_to_faces, vertex_to_corner_in_face)"""
    from mouette.attributes.attr_corners import corner_angles
    m2 = build(case)
    angles = corner_angles(m2, persistent=False)
    ang = []
    for v in range(len(m2.vertices)):
        a = 0.
        for T in m2.connectivity.vertex_to_faces(v):
            c = m2.connectivity.vertex_to_corner_in_face(v, T)
            a += angles[c]
        ang.append(fr(a))
    return ang


def observe(det, m, opt, ang):
    """every public container of the detector after a run on mesh m"""
    out = {"fe": sorted(int(e) for e in det.feature_edges),
           "fv": sorted(int(v) for v in det.feature_vertices),
           "deg": sorted([int(k), int(det.feature_degrees[k])] for k in det.feature_degrees),
           "local": sorted([int(k), [int(i) for i in v]] for k, v in det.local_feat_edges.items()),
           "normals": [[fr(c) for c in det.fnormals[f]] for f in range(len(m.faces))],
           "feat_e_attr": sorted(int(e) for e in m.edges.get_attribute("feature")) if m.edges.has_attribute("feature") else None,
           "feat_v_attr": sorted(int(v) for v in m.vertices.get_attribute("feature")) if m.vertices.has_attribute("feature") else None,
           }
    if det.corners is None:
        out["corners"] = None
    else:
        out["corners"] = sorted([int(k), int(det.corners[k])] for k in det.corners)
    out["angle"] = ang
    if opt["graph"]:
        g = det._feature_graph
        try:
            out["graph"] = {"nv": len(g.vertices), "edges": sorted(sorted([int(a), int(b)]) for a, b in g.edges),
                            "verts": [[frc(c) for c in p] for p in g.vertices],
                            "deg": [int(g.vertices.get_attribute("degree")[i]) for i in range(len(g.vertices))]}
        except Exception as ex:
            out["graph"] = {"exc": repr(ex)[:80]}
    return out


def typed(opt):
    """the option values as python bool/int, numpy scalars, or the ints 0/1 for the flags"""
    import numpy as np
    t = opt.get("types", "py")
    ob, fc, co, g = opt["only_border"], opt["flag_corners"], opt["corner_order"], opt["graph"]
    if t == "np":
        return np.bool_(ob), np.bool_(fc), np.int64(co), np.bool_(g)
    if t == "int01":
        return int(ob), int(fc), co, int(g)
    return ob, fc, co, g


def make_det(opt):
    from mouette.processing.features import FeatureEdgeDetector
    form = opt.get("form", "kw")
    if form == "defaults":
        return FeatureEdgeDetector(verbose=False)        # every option omitted: the documented defaults
    ob, fc, co, g = typed(opt)
    if form == "pos":
        return FeatureEdgeDetector(ob, fc, co, g, False)
    return FeatureEdgeDetector(only_border=ob, flag_corners=fc, corner_order=co, compute_feature_graph=g, verbose=False)


def attr_names(m):
    return {"vertices": sorted(m.vertices.attributes), "edges": sorted(m.edges.attributes),
            "faces": sorted(m.faces.attributes), "corners": sorted(m.face_corners.attributes)}


def plant_junk(m):
    """attributes with the detector's own names already on the mesh, holding arbitrary values"""
    a = m.edges.create_attribute("feature", bool)
    for e in range(0, len(m.edges), 2):
        a[e] = True
    b = m.vertices.create_attribute("feature", bool)
    for v in range(len(m.vertices)):
        b[v] = True
    c = m.vertices.create_attribute("corners", int)
    for v in range(len(m.vertices)):
        c[v] = 99


def do_run(det, m, opt):
    if opt.get("call") == "detect":
        return det.detect(m)
    return det.run(m)


def run_det(case, opt, ang):
    """A fresh mesh and a fresh detector per run; with opt["prior"] the mesh first goes through a run (of another
    detector object) with those options."""
    m = build(case)
    if opt.get("junk"):
        plant_junk(m)
    if opt.get("prior"):
        make_det(opt["prior"]).run(m)
    before = attr_names(m)
    det = make_det(opt)
    try:
        do_run(det, m, opt)
    except Exception as ex:
        return {"exc": "%s: %s" % (type(ex).__name__, str(ex)[:80])}
    out = observe(det, m, opt, ang)
    after = attr_names(m)
    out["new_attrs"] = {k: sorted(set(after[k]) - set(before[k])) for k in after}
    return out


def run_session(case, ang):
    """ONE detector object re-used for several runs: on this case's mesh and on a second mesh, with the options
    (public attributes of the detector) changed between runs. Every container is observed after each run."""
    ses = case.get("session")
    if not ses:
        return None
    other = dict(ses["other"], scale_exp=case.get("scale_exp", 0)) if ses.get("other") else None   # one scale per case
    meshes = [build(case), build(other) if other else None]
    angs = [ang, angle_sums(other) if other else None]
    out = {"other_tables": tables(meshes[1]) if meshes[1] is not None else None, "steps": []}
    det = None
    moved = False
    alt_ang = None
    for st in ses["steps"]:
        try:
            if st.get("moved") and not moved:
                import mouette as M
                sc = 2.0 ** case.get("scale_exp", 0)
                for v, p in enumerate(ses["alt_coords"]):
                    meshes[0].vertices[v] = M.Vec(float(p[0]) * sc, float(p[1]) * sc, float(p[2]) * sc)
                moved = True
                alt_ang = angle_sums(dict(case, coords=ses["alt_coords"]))
            if det is None:
                det = make_det(st)
            else:
                det.only_border = st["only_border"]
                det.flag_corners = st["flag_corners"]
                det.corner_order = st["corner_order"]
                det.compute_feature_graph = st["graph"]
            do_run(det, meshes[st["on"]], st)
            out["steps"].append(observe(det, meshes[st["on"]], st,
                                        alt_ang if (st["on"] == 0 and moved) else angs[st["on"]]))
        except Exception as ex:
            out["steps"].append({"exc": "%s: %s" % (type(ex).__name__, str(ex)[:80])})
    return out


def run_case(case):
    m = build(case)
    res = {"tables": tables(m)}
    forms = case.get("start_forms") or ["omit"] + ["int"] * len(case["starts"])
    res["cycles"] = []
    for k, (s, f) in enumerate(zip([None] + list(case["starts"]), forms)):
        r = run_cycle(m, s, f)
        res["cycles"].append([s, r])
        if k < 4 and r[0] == "ok":
            # wreck the returned lists in place and ask again: the answer must be rebuilt, not shared
            try:
                raw = call_cycle(m, s, f)
                raw[0].reverse()
                raw[0].append(-7)
                raw[1].clear()
            except Exception:
                pass
            res["cycles"].append([s, run_cycle(m, s, f)])
    res["all"] = run_all(m)
    res["boundary"] = run_boundary(m)
    ang = angle_sums(case) if (case["dets"] or case.get("session")) else None
    res["dets"] = [run_det(case, o, ang) for o in case["dets"]]
    res["session"] = run_session(case, ang)
    return res


def main():
    payload = json.load(sys.stdin)
    out = []
    for case in payload["cases"]:
        try:
            out.append(run_case(case))
        except Exception as ex:
            import traceback
            out.append({"crash": "%s: %s" % (type(ex).__name__, ex), "tb": traceback.format_exc()[-600:]})
    print("@@JSON " + json.dumps({"cases": out}))


if __name__ == "__main__":
    main()
