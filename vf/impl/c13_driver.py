"""Runs subdivision cases on /repo's implementation and reports canonical observations.

stdin : {"cases": [case, ...]}  with case one of
  {"kind": "surf", "V": [[x,y,z],..], "F": [[..],..], "ops": [[name, arg?],..], "query": bool}
  {"kind": "sd",   "V": .., "F": .., "query": bool}                (split_double_boundary_edges_triangles)
  {"kind": "poly", "V": .., "E": [[a,b],..], "splits": [e,..], "query": bool}
  {"kind": "vol",  "V": .., "C": [[a,b,c,d],..], "ops": [[name, arg],..], "query": bool}
stdout: '@@JSON ' + {"obs": [obs, ...]}
Coordinates are integers on input and exact fractions [num, den] of the binary64 values on output.
"""
import json
import sys
from fractions import Fraction


def frac(x):
    f = Fraction(float(x))
    return [f.numerator, f.denominator]


def dump_pts(cont):
    return [[frac(c) for c in p] for p in cont]


def ilist(x):
    return [int(v) for v in x]


def dump(mesh):
    d = {"V": dump_pts(mesh.vertices)}
    if hasattr(mesh, "edges"):
        d["E"] = [ilist(e) for e in mesh.edges]
    if hasattr(mesh, "faces"):
        d["F"] = [ilist(f) for f in mesh.faces]
        d["corn"] = [[int(a), int(b)] for a, b in zip(mesh.face_corners._elem, mesh.face_corners._adj)]
    if hasattr(mesh, "cells"):
        d["C"] = [ilist(c) for c in mesh.cells]
        d["ccorn"] = [[int(a), int(b)] for a, b in zip(mesh.cell_corners._elem, mesh.cell_corners._adj)]
    d["type"] = type(mesh).__name__
    return d


def surf_conn_ok(mesh):
    """do the connectivity answers of this object describe its current face list?"""
    try:
        nv = len(mesh.vertices)
        ref = [[] for _ in range(nv)]
        for i, f in enumerate(mesh.faces):
            for v in f:
                ref[v].append(i)
        for v in range(nv):
            if sorted(int(x) for x in mesh.connectivity.vertex_to_faces(v)) != sorted(set(ref[v])):
                return False
        for i, f in enumerate(mesh.faces):
            if [int(x) for x in mesh.connectivity.face_to_vertices(i)] != [int(x) for x in f]:
                return False
        return True
    except Exception:
        return False


def poly_conn_ok(mesh):
    try:
        nv = len(mesh.vertices)
        ref = [set() for _ in range(nv)]
        for a, b in mesh.edges:
            ref[a].add(int(b))
            ref[b].add(int(a))
        for v in range(nv):
            if sorted(int(x) for x in mesh.connectivity.vertex_to_vertices(v)) != sorted(ref[v]):
                return False
        for i, e in enumerate(mesh.edges):
            if mesh.connectivity.edge_id(e[0], e[1]) != i:
                return False
        return True
    except Exception:
        return False


def vol_conn_ok(mesh):
    try:
        for i, f in enumerate(mesh.faces):
            fs = set(int(x) for x in f)
            ref = [c for c, cell in enumerate(mesh.cells) if fs.issubset(set(int(x) for x in cell))]
            if sorted(int(x) for x in mesh.connectivity.face_to_cells(i)) != ref:
                return False
        return True
    except Exception:
        return False


def errname(ex):
    n = type(ex).__name__
    if n in ("KeyError", "IndexError", "ValueError", "ZeroDivisionError"):
        return n
    return "Other:" + n + ":" + str(ex)[:80]


def conv(x, np_ints):
    """an index / count argument in the numeric representation the case asks for"""
    if not np_ints or x is None:
        return x
    import numpy as np
    return [np.int64, np.int32, np.intp][int(x) % 3](x)


def after_failure(out, res, mesh, conn_ok):
    """state left behind by a block whose last operation raised (the caller caught the exception)"""
    try:
        out["after"] = {"res": dump(res), "arg": dump(mesh), "same_obj": res is mesh,
                        "res_conn_ok": conn_ok(res), "arg_conn_ok": conn_ok(mesh)}
    except Exception as ex:  # noqa
        out["after_error"] = errname(ex)


def build(M, V, E=None, F=None, C=None, dim=None):
    from mouette.mesh.mesh_data import RawMeshData
    from mouette.mesh.mesh import _instanciate_raw_mesh_data
    r = RawMeshData()
    r.vertices += [M.Vec(float(x), float(y), float(z)) for x, y, z in V]
    if E:
        r.edges += [tuple(e) for e in E]
    if F:
        r.faces += [list(f) for f in F]
    if C:
        r.cells += [list(c) for c in C]
    return _instanciate_raw_mesh_data(r, dim)


def run_surf(M, case):
    from mouette.mesh.subdivision import SurfaceSubdivision
    mesh = build(M, case["V"], F=case["F"], dim=2)
    out = {"input": dump(mesh)}
    if case.get("query"):
        mesh.connectivity.vertex_to_faces(0)
        _ = mesh.boundary_vertices
    sd = None
    npi = case.get("np_ints")
    try:
        with SurfaceSubdivision(mesh) as sd:
            for op in case["ops"]:
                name = op[0]
                arg = conv(op[1], npi) if len(op) > 1 else None
                form = op[2] if len(op) > 2 else "pos"      # call form: positional / keyword / argument omitted (default)
                if name == "triface":
                    sd.triangulate_face(face_id=arg) if form == "kw" else sd.triangulate_face(arg)
                elif name == "fan":
                    sd.split_face_as_fan(face_id=arg) if form == "kw" else sd.split_face_as_fan(arg)
                elif name == "triangulate":
                    sd.triangulate()
                elif name == "loop":
                    sd.loop_subdivision() if form == "default" else (sd.loop_subdivision(n=arg) if form == "kw" else sd.loop_subdivision(arg))
                elif name == "quads3":
                    sd.subdivide_triangles_3quads()
                elif name == "tri6":
                    sd.subdivide_triangles_6() if form == "default" else (sd.subdivide_triangles_6(repeat=arg) if form == "kw" else sd.subdivide_triangles_6(arg))
                else:
                    raise RuntimeError("unknown op " + name)
    except Exception as ex:  # noqa
        out["status"] = "err"
        out["err"] = errname(ex)
        if sd is not None:
            after_failure(out, sd.mesh, mesh, surf_conn_ok)
        return out
    res = sd.mesh
    out["status"] = "ok"
    out["res"] = dump(res)
    out["arg"] = dump(mesh)
    out["same_obj"] = res is mesh
    out["res_conn_ok"] = surf_conn_ok(res)
    out["arg_conn_ok"] = surf_conn_ok(mesh)
    return out


def run_sd(M, case):
    from mouette.mesh.subdivision import split_double_boundary_edges_triangles
    mesh = build(M, case["V"], F=case["F"], dim=2)
    out = {"input": dump(mesh)}
    if case.get("query"):
        mesh.connectivity.vertex_to_faces(0)
        _ = mesh.boundary_vertices
    try:
        res = split_double_boundary_edges_triangles(mesh)
    except Exception as ex:  # noqa
        out["status"] = "err"
        out["err"] = errname(ex)
        return out
    out["status"] = "ok"
    out["res"] = dump(res)
    out["arg"] = dump(mesh)
    out["same_obj"] = res is mesh
    out["res_conn_ok"] = surf_conn_ok(res)
    out["arg_conn_ok"] = surf_conn_ok(mesh)
    try:
        bv = sorted(int(v) for v in res.boundary_vertices)
        from mouette.mesh.mesh import _instanciate_raw_mesh_data
        from mouette.mesh.mesh_data import RawMeshData
        fresh = build(M, [[0, 0, 0]] * len(res.vertices), F=[ilist(f) for f in res.faces], dim=2)
        out["res_boundary_ok"] = bv == sorted(int(v) for v in fresh.boundary_vertices)
    except Exception:
        out["res_boundary_ok"] = False
    return out


def run_poly(M, case):
    from mouette.mesh.subdivision import split_edge
    mesh = build(M, case["V"], E=case["E"], dim=1)
    out = {"input": dump(mesh)}
    if case.get("query"):
        mesh.connectivity.vertex_to_vertices(0)
        mesh.connectivity.edge_id(0, 1)
    res = mesh
    npi = case.get("np_ints")
    try:
        for e in case["splits"]:
            res = split_edge(res, conv(e, npi))
    except Exception as ex:  # noqa
        out["status"] = "err"
        out["err"] = errname(ex)
        after_failure(out, res, mesh, poly_conn_ok)
        return out
    out["status"] = "ok"
    out["res"] = dump(res)
    out["arg"] = dump(mesh)
    out["same_obj"] = res is mesh
    out["res_conn_ok"] = poly_conn_ok(res)
    out["arg_conn_ok"] = poly_conn_ok(mesh)
    return out


def run_vol(M, case):
    from mouette.mesh.subdivision import VolumeSubdivision
    mesh = build(M, case["V"], C=case["C"], dim=3)
    out = {"input": dump(mesh)}
    if case.get("query"):
        mesh.connectivity.face_to_cells(0)
    sd = None
    npi = case.get("np_ints")
    try:
        with VolumeSubdivision(mesh) as sd:
            for op in case["ops"]:
                if op[0] == "cellfan":
                    sd.split_cell_as_fan(conv(op[1], npi))
                elif op[0] == "facecentre":
                    sd.split_tet_from_face_center(conv(op[1], npi))
                else:
                    raise RuntimeError("unknown op " + op[0])
    except Exception as ex:  # noqa
        out["status"] = "err"
        out["err"] = errname(ex)
        if sd is not None:
            after_failure(out, sd.mesh, mesh, vol_conn_ok)
        return out
    res = sd.mesh
    out["status"] = "ok"
    out["res"] = dump(res)
    out["arg"] = dump(mesh)
    out["same_obj"] = res is mesh
    out["res_conn_ok"] = vol_conn_ok(res)
    out["arg_conn_ok"] = vol_conn_ok(mesh)
    return out


def main():
    import warnings
    warnings.filterwarnings("ignore")
    import mouette as M
    payload = json.load(sys.stdin)
    obs = []
    for case in payload["cases"]:
        k = case["kind"]
        try:
            if k == "surf":
                obs.append(run_surf(M, case))
            elif k == "sd":
                obs.append(run_sd(M, case))
            elif k == "poly":
                obs.append(run_poly(M, case))
            elif k == "vol":
                obs.append(run_vol(M, case))
            else:
                obs.append({"status": "driver-error", "err": "unknown kind"})
        except Exception as ex:  # construction of the input failed
            obs.append({"status": "driver-error", "err": errname(ex)})
    print("@@JSON " + json.dumps({"obs": obs}))


if __name__ == "__main__":
    main()
