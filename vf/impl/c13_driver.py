"""Runs subdivision cases on /repo's implementation and reports canonical observations.

stdin : {"cases": [case, ...]}  with case one of
  {"kind": "surf", "V": [[x,y,z],..], "F": [[..],..], "ops": [[name, arg?],..], "query": bool}
  {"kind": "sd",   "V": .., "F": .., "query": bool}                (split_double_boundary_edges_triangles)
  {"kind": "poly", "V": .., "E": [[a,b],..], "splits": [e,..], "query": bool}
  {"kind": "vol",  "V": .., "C": [[a,b,c,d],..], "ops": [[name, arg],..], "query": bool}
stdout: '@@JSON ' + {"obs": [obs, ...]}
Coordinates are integers on input and exact fractions [num, den] of the binary64 values on output.
"""
import json
import sys
from fractions import Fraction


def frac(x):
    f = Fraction(float(x))
    return [f.numerator, f.denominator]


def dump_pts(cont):
    return [[frac(c) for c in p] for p in cont]


def ilist(x):
    return [int(v) for v in x]


def dump(mesh):
    d = {"V": dump_pts(mesh.vertices)}
    if hasattr(mesh, "edges"):
        d["E"] = [ilist(e) for e in mesh.edges]
    if hasattr(mesh, "faces"):
        d["F"] = [ilist(f) for f in mesh.faces]
        d["corn"] = [[int(a), int(b)] for a, b in zip(mesh.face_corners._elem, mesh.face_corners._adj)]
    if hasattr(mesh, "cells"):
        d["C"] = [ilist(c) for c in mesh.cells]
        d["ccorn"] = [[int(a), int(b)] for a, b in zip(mesh.cell_corners._elem, mesh.cell_corners._adj)]
    d["type"] = type(mesh).__name__
    return d


def surf_conn_ok(mesh):
    """do the connectivity answers of this object describe its current face list?"""
    try:
        nv = len(mesh.vertices)
        ref = [[] for _ in range(nv)]
        for i, f in enumerate(mesh.faces):
            for v in f:
                ref[v].append(i)
        for v in range(nv):
            if sorted(int(x) for x in mesh.connectivity.vertex_to_faces(v)) != sorted(set(ref[v])):
                return False
        for i, f in enumerate(mesh.faces):
            if [int(x) for x in mesh.connectivity.face_to_vertices(i)] != [int(x) for x in f]:
                return False
        return True
    except Exception:
        return False


def poly_conn_ok(mesh):
    try:
        nv = len(mesh.vertices)
        ref = [set() for _ in range(nv)]
        for a, b in mesh.edges:
            ref[a].add(int(b))
            ref[b].add(int(a))
        for v in range(nv):
            if sorted(int(x) for x in mesh.connectivity.vertex_to_vertices(v)) != sorted(ref[v]):
                return False
        for i, e in enumerate(mesh.edges):
            if mesh.connectivity.edge_id(e[0], e[1]) != i:
                return False
        return True
    except Exception:
        return False


def vol_conn_ok(mesh):
    try:
        for i, f in enumerate(mesh.faces):
            fs = set(int(x) for x in f)
            ref = [c for c, cell in enumerate(mesh.cells) if fs.issubset(set(int(x) for x in cell))]
            if sorted(int(x) for x in mesh.connectivity.face_to_cells(i)) != ref:
                return False
        return True
    except Exception:
        return False



# ---------------------------------------------------------------------- generic sweep over EVERY public accessor
# The accessors are enumerated from the classes (connectivity object and mesh object), so a new one is swept as soon as it
# exists; arguments are drawn from the index domains named by the parameter names.  A parameter name the table does not
# know is reported ("unswept") and fails the run: nothing is silently skipped.
VERTEX_P = {"V", "V1", "V2", "u", "v"}
EDGE_P = {"E", "e"}
FACE_P = {"F", "iF", "iF1", "iF2", "fid"}
CELL_P = {"iC", "c", "C1", "C2", "ic"}
SKIP_METHODS = {"clear", "clear_boundary_data", "enable_boundary_connectivity", "pt_of_face"}   # state resets / geometry
CAP = 14          # per-domain cap for accessors with two or more element arguments


def canon(x, depth=0):
    import numpy as np
    if x is None or isinstance(x, (bool, str)):
        return x
    if isinstance(x, (int, np.integer)):
        return int(x)
    if isinstance(x, (float, np.floating)):
        return float(x)
    if isinstance(x, (set, frozenset)):
        return ["set"] + sorted((canon(y, depth + 1) for y in x), key=repr)
    if isinstance(x, (list, tuple, range)) or (hasattr(x, "__iter__") and hasattr(x, "__len__") and not hasattr(x, "vertices")):
        l = [canon(y, depth + 1) for y in x]
        if all(isinstance(y, int) for y in l) and isinstance(x, (list, set)):
            return sorted(l)          # neighbourhoods: compared as sets with multiplicity
        return l
    return "<" + type(x).__name__ + ">"


def domains(mesh):
    d = {"vertex": range(len(mesh.vertices))}
    d["edge"] = range(len(mesh.edges)) if hasattr(mesh, "edges") else range(0)
    d["face"] = range(len(mesh.faces)) if hasattr(mesh, "faces") else range(0)
    d["corner"] = range(len(mesh.face_corners)) if hasattr(mesh, "face_corners") else range(0)
    d["cell"] = range(len(mesh.cells)) if hasattr(mesh, "cells") else range(0)
    return d


def arg_sets(mesh, owner_cls, name, fn, unswept):
    """argument tuples for one accessor, or None if a parameter is not understood"""
    import inspect
    import itertools
    dom = domains(mesh)
    params = [p for p in inspect.signature(fn).parameters.values()][1:]
    if any(p.kind == p.VAR_POSITIONAL for p in params):
        if "face" in name:
            return [tuple(int(v) for v in f) for f in mesh.faces] if hasattr(mesh, "faces") else []
        if "edge" in name:
            return [tuple(int(v) for v in e) for e in mesh.edges]
        unswept.append(name + "(*args)")
        return None
    doms = []
    for p in params:
        if p.default is not p.empty:
            continue                                  # optional flags keep their default
        n = p.name
        if n in VERTEX_P:
            doms.append(dom["vertex"])
        elif n in EDGE_P:
            doms.append(dom["edge"])
        elif n in FACE_P:
            doms.append(dom["face"])
        elif n in CELL_P:
            doms.append(dom["cell"])
        elif n == "C":                                # corner in the surface layer, cell in the volume layer
            doms.append(dom["cell"] if "Volume" in getattr(fn, "__qualname__", "") else dom["corner"])
        elif n == "i":
            doms.append(range(3))
        else:
            unswept.append("%s(%s)" % (name, n))
            return None
    if len(doms) <= 1:
        return [(x,) for x in doms[0]] if doms else [()]
    return list(itertools.product(*[list(d)[:CAP] for d in doms]))


def sweep(mesh):
    """answers of every public accessor: {name: canonical value}, plus the list of accessors that could not be swept"""
    import inspect
    out, unswept = {}, []
    targets = [("", mesh)]
    if hasattr(mesh, "connectivity"):
        targets.append(("connectivity.", mesh.connectivity))
    for prefix, obj in targets:
        cls = type(obj)
        for name in sorted(dir(cls)):
            if name.startswith("_") or name in SKIP_METHODS:
                continue
            static = inspect.getattr_static(cls, name)
            try:
                if isinstance(static, property):
                    out[prefix + name] = canon(getattr(obj, name))
                    continue
                if not callable(static) or inspect.isclass(static):
                    continue
                fn = getattr(cls, name)
                args = arg_sets(mesh, cls, name, fn, unswept)
                if args is None:
                    continue
                ans = []
                for a in args:
                    try:
                        ans.append(canon(getattr(obj, name)(*a)))
                    except Exception as ex:  # noqa
                        ans.append("EXC:" + type(ex).__name__)
                out[prefix + name] = ans
            except Exception as ex:  # noqa
                out[prefix + name] = "EXC:" + type(ex).__name__
    for cont in ("face_corners", "cell_corners", "cell_faces"):
        if hasattr(mesh, cont):
            c = getattr(mesh, cont)
            out["len(%s)" % cont] = [len(c._elem), len(c._adj)]
    return out, unswept


def fresh_twin(M, mesh):
    """a mesh built from scratch from the element lists of `mesh` alone (no attribute, no cache)"""
    from mouette.mesh.mesh_data import RawMeshData
    from mouette.mesh.mesh import _instanciate_raw_mesh_data
    r = RawMeshData()
    r.vertices += [M.Vec(float(p[0]), float(p[1]), float(p[2])) for p in mesh.vertices]
    dim = 0
    if hasattr(mesh, "edges"):
        r.edges += [tuple(int(v) for v in e) for e in mesh.edges]
        dim = 1
    if hasattr(mesh, "faces"):
        r.faces += [tuple(int(v) for v in f) for f in mesh.faces]
        dim = 2
    if hasattr(mesh, "cells"):
        r.cells += [tuple(int(v) for v in c) for c in mesh.cells]
        dim = 3
    return _instanciate_raw_mesh_data(r, dim)


def full_conn_check(M, mesh, out, tag):
    """every accessor of `mesh` against the same accessor of a twin rebuilt from its element lists"""
    try:
        a, un = sweep(mesh)
        b, _ = sweep(fresh_twin(M, mesh))
        diff = sorted(k for k in set(a) | set(b) if a.get(k) != b.get(k))
        out[tag + "_conn_diff"] = diff[:12]
        out[tag + "_n_accessors"] = len(a)
        if un:
            out["unswept"] = sorted(set(un))
        return not diff
    except Exception as ex:  # noqa
        out[tag + "_conn_diff"] = ["sweep failed: " + errname(ex)]
        return False


def query_everything(mesh):
    """ask every public accessor once, so that every lazily computed table and cached attribute exists before the edit"""
    try:
        sweep(mesh)
    except Exception:
        pass


def through_geogram(M, mesh, case, out):
    """the same mesh after a round trip through a geogram_ascii file (it then carries the attributes such files hold)"""
    import os
    import tempfile
    if not case.get("via_geogram"):
        return mesh
    try:
        d = tempfile.mkdtemp(prefix="c13geo")
        path = os.path.join(d, "m.geogram_ascii")
        if hasattr(mesh, "cells"):
            mesh.connectivity.cell_to_cell(0)
        M.mesh.save(mesh, path)
        m2 = M.mesh.load(path)
        os.remove(path)
        os.rmdir(d)
        same = type(m2) is type(mesh) and dump(m2) == dump(mesh)
        out["via_geogram"] = "used" if same else "differs"
        return m2 if same else mesh
    except Exception as ex:  # noqa
        out["via_geogram"] = "failed:" + errname(ex)
        return mesh


def errname(ex):
    n = type(ex).__name__
    if n in ("KeyError", "IndexError", "ValueError", "ZeroDivisionError"):
        return n
    return "Other:" + n + ":" + str(ex)[:80]


def conv(x, np_ints):
    """an index / count argument in the numeric representation the case asks for"""
    if not np_ints or x is None:
        return x
    import numpy as np
    return [np.int64, np.int32, np.intp][int(x) % 3](x)


def after_failure(out, res, mesh, conn_ok):
    """state left behind by a block whose last operation raised (the caller caught the exception)"""
    try:
        aft = {"res": dump(res), "arg": dump(mesh), "same_obj": res is mesh, "arg_conn_ok": conn_ok(mesh)}
        import mouette as M
        aft["res_conn_ok"] = conn_ok(res) and (not hasattr(res, "connectivity") or full_conn_check(M, res, aft, "res"))
        out["after"] = aft
    except Exception as ex:  # noqa
        out["after_error"] = errname(ex)


def build(M, V, E=None, F=None, C=None, dim=None):
    from mouette.mesh.mesh_data import RawMeshData
    from mouette.mesh.mesh import _instanciate_raw_mesh_data
    r = RawMeshData()
    r.vertices += [M.Vec(float(x), float(y), float(z)) for x, y, z in V]
    if E:
        r.edges += [tuple(e) for e in E]
    if F:
        r.faces += [list(f) for f in F]
    if C:
        r.cells += [list(c) for c in C]
    return _instanciate_raw_mesh_data(r, dim)


def run_surf(M, case):
    from mouette.mesh.subdivision import SurfaceSubdivision
    mesh = build(M, case["V"], F=case["F"], dim=2)
    out = {"input": dump(mesh)}
    mesh = through_geogram(M, mesh, case, out)
    if case.get("query"):
        query_everything(mesh)
    sd = None
    npi = case.get("np_ints")
    try:
        with SurfaceSubdivision(mesh) as sd:
            for op in case["ops"]:
                name = op[0]
                arg = conv(op[1], npi) if len(op) > 1 else None
                form = op[2] if len(op) > 2 else "pos"      # call form: positional / keyword / argument omitted (default)
                if name == "triface":
                    sd.triangulate_face(face_id=arg) if form == "kw" else sd.triangulate_face(arg)
                elif name == "fan":
                    sd.split_face_as_fan(face_id=arg) if form == "kw" else sd.split_face_as_fan(arg)
                elif name == "triangulate":
                    sd.triangulate()
                elif name == "loop":
                    sd.loop_subdivision() if form == "default" else (sd.loop_subdivision(n=arg) if form == "kw" else sd.loop_subdivision(arg))
                elif name == "quads3":
                    sd.subdivide_triangles_3quads()
                elif name == "tri6":
                    sd.subdivide_triangles_6() if form == "default" else (sd.subdivide_triangles_6(repeat=arg) if form == "kw" else sd.subdivide_triangles_6(arg))
                else:
                    raise RuntimeError("unknown op " + name)
    except Exception as ex:  # noqa
        out["status"] = "err"
        out["err"] = errname(ex)
        if sd is not None:
            after_failure(out, sd.mesh, mesh, surf_conn_ok)
        return out
    res = sd.mesh
    out["status"] = "ok"
    out["res"] = dump(res)
    out["arg"] = dump(mesh)
    out["same_obj"] = res is mesh
    out["res_conn_ok"] = surf_conn_ok(res) and full_conn_check(M, res, out, "res")
    out["arg_conn_ok"] = surf_conn_ok(mesh)
    return out


def run_sd(M, case):
    from mouette.mesh.subdivision import split_double_boundary_edges_triangles
    mesh = build(M, case["V"], F=case["F"], dim=2)
    out = {"input": dump(mesh)}
    if case.get("query"):
        query_everything(mesh)
    try:
        res = split_double_boundary_edges_triangles(mesh)
    except Exception as ex:  # noqa
        out["status"] = "err"
        out["err"] = errname(ex)
        return out
    out["status"] = "ok"
    out["res"] = dump(res)
    out["arg"] = dump(mesh)
    out["same_obj"] = res is mesh
    out["res_conn_ok"] = surf_conn_ok(res) and full_conn_check(M, res, out, "res")
    out["arg_conn_ok"] = surf_conn_ok(mesh)
    try:
        bv = sorted(int(v) for v in res.boundary_vertices)
        from mouette.mesh.mesh import _instanciate_raw_mesh_data
        from mouette.mesh.mesh_data import RawMeshData
        fresh = build(M, [[0, 0, 0]] * len(res.vertices), F=[ilist(f) for f in res.faces], dim=2)
        out["res_boundary_ok"] = bv == sorted(int(v) for v in fresh.boundary_vertices)
    except Exception:
        out["res_boundary_ok"] = False
    return out


def run_poly(M, case):
    from mouette.mesh.subdivision import split_edge
    mesh = build(M, case["V"], E=case["E"], dim=1)
    out = {"input": dump(mesh)}
    if case.get("query"):
        query_everything(mesh)
    res = mesh
    npi = case.get("np_ints")
    try:
        for e in case["splits"]:
            res = split_edge(res, conv(e, npi))
    except Exception as ex:  # noqa
        out["status"] = "err"
        out["err"] = errname(ex)
        after_failure(out, res, mesh, poly_conn_ok)
        return out
    out["status"] = "ok"
    out["res"] = dump(res)
    out["arg"] = dump(mesh)
    out["same_obj"] = res is mesh
    out["res_conn_ok"] = poly_conn_ok(res) and full_conn_check(M, res, out, "res")
    out["arg_conn_ok"] = poly_conn_ok(mesh)
    return out


def run_vol(M, case):
    from mouette.mesh.subdivision import VolumeSubdivision
    mesh = build(M, case["V"], C=case["C"], dim=3)
    out = {"input": dump(mesh)}
    mesh = through_geogram(M, mesh, case, out)
    if case.get("query"):
        query_everything(mesh)
    sd = None
    npi = case.get("np_ints")
    try:
        with VolumeSubdivision(mesh) as sd:
            for op in case["ops"]:
                if op[0] == "cellfan":
                    sd.split_cell_as_fan(conv(op[1], npi))
                elif op[0] == "facecentre":
                    sd.split_tet_from_face_center(conv(op[1], npi))
                else:
                    raise RuntimeError("unknown op " + op[0])
    except Exception as ex:  # noqa
        out["status"] = "err"
        out["err"] = errname(ex)
        if sd is not None:
            after_failure(out, sd.mesh, mesh, vol_conn_ok)
        return out
    res = sd.mesh
    out["status"] = "ok"
    out["res"] = dump(res)
    out["arg"] = dump(mesh)
    out["same_obj"] = res is mesh
    out["res_conn_ok"] = vol_conn_ok(res) and full_conn_check(M, res, out, "res")
    out["arg_conn_ok"] = vol_conn_ok(mesh)
    return out


def main():
    import warnings
    warnings.filterwarnings("ignore")
    import mouette as M
    payload = json.load(sys.stdin)
    obs = []
    for case in payload["cases"]:
        k = case["kind"]
        try:
            if k == "surf":
                obs.append(run_surf(M, case))
            elif k == "sd":
                obs.append(run_sd(M, case))
            elif k == "poly":
                obs.append(run_poly(M, case))
            elif k == "vol":
                obs.append(run_vol(M, case))
            else:
                obs.append({"status": "driver-error", "err": "unknown kind"})
        except Exception as ex:  # construction of the input failed
            obs.append({"status": "driver-error", "err": errname(ex)})
    print("@@JSON " + json.dumps({"obs": obs}))


if __name__ == "__main__":
    main()
