"""Runs mouette.mesh.save / mouette.mesh.load on /repo's implementation and reports canonical observations.

stdin : {"jobs": [job, ...]}
  job {"k": "save", "fmt": ext, "mesh": spec, "cfg": {...}, "ignore": [...]}   build a mesh with mouette from `spec`
        (through RawMeshData.prepare, under the given mouette.config switches), observe it, save it, observe it
        again, read the file back, load it (raw and instantiated).
  job {"k": "load", "fmt": ext, "text": str | "hex": str, "cfg": {...}}        write the file, load it.
  job {"k": "floats", "bits": [int...]}   '{}'.format / str / f-string / float() round trip of doubles
stdout: '@@JSON ' + {"res": [...]}
Floats travel as their 64-bit patterns (ints); temp files live in a directory created and removed here.
"""
import json
import os
import shutil
import signal
import struct
import sys
import tempfile
import warnings


def f2b(x):
    return struct.unpack("<Q", struct.pack("<d", float(x)))[0]


def b2f(b):
    return struct.unpack("<d", struct.pack("<Q", int(b)))[0]


class Timeout(Exception):
    pass


def _alarm(signum, frame):
    raise Timeout()


def cint(x):
    import numpy as np
    if isinstance(x, (bool, np.bool_)):
        return ["other", repr(x)]
    if isinstance(x, (int, np.integer)):
        return int(x)
    if isinstance(x, (float, np.floating)) and float(x).is_integer():
        return int(x)      # the type of an index is free, its value is not
    return ["other", repr(x)]


def canon_val(v, ty):
    """attribute value -> json (by the attribute's type)"""
    import numpy as np
    try:
        if ty == "Bool":
            return ["b", bool(v)]
        if ty == "Int":
            return ["i", int(v)]
        if ty == "Float":
            return ["f", f2b(v)]
        if ty == "Complex":
            c = complex(v)
            return ["c", f2b(c.real), f2b(c.imag)]
        if ty == "String":
            return ["s", str(v)]
    except Exception as ex:  # noqa
        return ["other", "%s: %r" % (type(ex).__name__, v)]
    return ["other", repr(v)]


def obs_dense_attrs(container, size):
    """name -> [type, arity, [values flattened over range(size)]] read through attr[i] (what export reads)"""
    out = []
    for name in container.attributes:
        a = container.get_attribute(name)
        ty = a.type.name
        vals = []
        try:
            for i in range(size):
                v = a[i]
                if a.elemsize == 1:
                    vals.append(canon_val(v, ty))
                else:
                    vals += [canon_val(v[j], ty) for j in range(a.elemsize)]
        except Exception as ex:  # noqa
            vals = ["EXC", type(ex).__name__, str(ex)[:100]]
        out.append([str(name), ty, int(a.elemsize), vals])
    return out


def obs_sparse_attrs(container):
    """attributes as an import function leaves them: the dict of a sparse attribute / rows of a dense one"""
    from mouette.mesh.mesh_attributes import Attribute
    out = []
    for name in container.attributes:
        a = container.get_attribute(name)
        ty = a.type.name
        items = []
        if isinstance(a, Attribute):
            for k, v in a._data.items():
                if a.elemsize == 1:
                    items.append([cint(k), [canon_val(v, ty)]])
                else:
                    items.append([cint(k), [canon_val(x, ty) for x in v]])
            kind = "sparse"
        else:
            for i in range(a.n_elem):
                row = a._data[i]
                items.append([i, [canon_val(x, ty) for x in row]])
            kind = "dense"
        out.append([str(name), ty, int(a.elemsize), kind, items])
    return out


def obs_mesh(m):
    """a (prepared) mesh object as the export functions see it"""
    o = {"class": type(m).__name__}
    o["V"] = [[f2b(c) for c in v] for v in m.vertices]
    o["E"] = [[cint(x) for x in e] for e in m.edges] if hasattr(m, "edges") else None
    o["F"] = [[cint(x) for x in f] for f in m.faces] if hasattr(m, "faces") else None
    o["C"] = [[cint(x) for x in c] for c in m.cells] if hasattr(m, "cells") else None
    o["hard"] = None
    if hasattr(m, "edges") and m.edges.has_attribute("hard_edges"):
        o["hard"] = [cint(k) for k in m.edges.get_attribute("hard_edges")]
    o["FC"] = [cint(x) for x in m.face_corners] if hasattr(m, "face_corners") else None
    att = {"V": obs_dense_attrs(m.vertices, len(m.vertices))}
    if hasattr(m, "edges"):
        att["E"] = obs_dense_attrs(m.edges, len(m.edges))
    if hasattr(m, "faces"):
        att["F"] = obs_dense_attrs(m.faces, len(m.faces))
        att["FC"] = obs_dense_attrs(m.face_corners, len(m.face_corners))
    if hasattr(m, "cells"):
        att["C"] = obs_dense_attrs(m.cells, len(m.cells))
        att["CC"] = obs_dense_attrs(m.cell_corners, len(m.cell_corners))
        ncf = sum(4 if len(c) == 4 else 6 for c in m.cells)   # facets: 4 per tetrahedron, 6 per hexahedron
        adj = None
        cf = []
        for name in m.cell_faces.attributes:
            if name == "adjacent_cell":
                a = m.cell_faces.get_attribute(name)
                adj = [cint(a[(ic, jf)]) for ic, c in enumerate(m.cells) for jf in range(len(c))]
        saved = dict(m.cell_faces._attr)
        try:
            m.cell_faces._attr = {k: v for k, v in saved.items() if k != "adjacent_cell"}
            cf = obs_dense_attrs(m.cell_faces, ncf)
        finally:
            m.cell_faces._attr = saved
        att["CF"] = cf
        o["adj"] = adj
    o["attrs"] = att
    return o


def obs_raw(r):
    o = {}
    o["V"] = [[f2b(c) for c in v] for v in r.vertices]
    o["E"] = [[cint(x) for x in e] for e in r.edges]
    o["F"] = [[cint(x) for x in f] for f in r.faces]
    o["C"] = [[cint(x) for x in c] for c in r.cells]
    o["attrs"] = {"V": obs_sparse_attrs(r.vertices), "E": obs_sparse_attrs(r.edges), "F": obs_sparse_attrs(r.faces),
                  "FC": obs_sparse_attrs(r.face_corners), "C": obs_sparse_attrs(r.cells), "CC": obs_sparse_attrs(r.cell_corners),
                  "CF": obs_sparse_attrs(r.cell_faces)}
    return o


PYTYPE = {"Bool": bool, "Int": int, "Float": float, "Complex": complex, "String": str}


def mkval(ty, v):
    if ty == "Bool":
        return bool(v)
    if ty == "Int":
        return int(v)
    if ty == "Float":
        return b2f(v)
    if ty == "Complex":
        return complex(b2f(v[0]), b2f(v[1]))
    return str(v)


def np_val(ty, v):
    """the same value in numpy's representation (what a user computing attributes with numpy hands over)"""
    import numpy as np
    if ty == "Bool":
        return np.bool_(v)
    if ty == "Int":
        return np.int64(v) if -2 ** 63 <= v < 2 ** 63 else v
    if ty == "Float":
        return np.float64(v)
    return v      # complex and str values: mouette's attributes accept the python types only (numpy's are refused with ValueError)


def idx_conv(el, rep):
    """an element (tuple of vertex indices) in one of the representations callers use"""
    import numpy as np
    if rep == "np32":
        return np.array(el, dtype=np.int32)
    if rep == "np64":
        return np.array(el, dtype=np.int64)
    if rep == "npu8" and all(0 <= x < 256 for x in el):
        return np.array(el, dtype=np.uint8)
    if rep == "npscalars":
        return [np.int64(x) for x in el]
    if rep == "tuple":
        return tuple(el)
    return list(el)


def build_mesh(spec):
    import mouette as M
    import numpy as np
    from mouette.mesh.mesh import _instanciate_raw_mesh_data
    r = M.mesh.RawMeshData()
    vrep = spec.get("v_repr")
    pts = [[b2f(v[0]), b2f(v[1]), b2f(v[2])] for v in spec["V"]]
    if vrep == "list":
        r.vertices += [list(p) for p in pts]
    elif vrep == "nprow":
        r.vertices += list(np.array(pts, dtype=np.float64).reshape((-1, 3)))
    elif vrep == "int" and all(float(c).is_integer() and abs(c) < 2 ** 53 and not (c == 0 and str(c)[0] == "-") for p in pts for c in p):
        r.vertices += [[int(c) for c in p] for p in pts]          # integer coordinates handed over as python ints
    else:
        r.vertices += [M.Vec(p[0], p[1], p[2]) for p in pts]
    irep = spec.get("idx_repr")
    if spec.get("E"):
        r.edges += [idx_conv(e, irep) if irep else tuple(e) for e in spec["E"]]
    if spec.get("F"):
        r.faces += [idx_conv(f, irep) for f in spec["F"]]
    if spec.get("C"):
        r.cells += [idx_conv(c, irep) for c in spec["C"]]
    m = _instanciate_raw_mesh_data(r)
    # attributes are created on the prepared mesh (sizes are known then)
    conts = {"V": "vertices", "E": "edges", "F": "faces", "FC": "face_corners", "C": "cells", "CC": "cell_corners", "CF": "cell_faces"}
    for ck, alist in (spec.get("attrs") or {}).items():
        cont = getattr(m, conts[ck], None)
        if cont is None:
            continue
        size = len(cont) if ck != "CF" else sum(4 if len(c) == 4 else 6 for c in m.cells)
        for a in alist:
            kw = {}
            if a.get("dense"):
                kw = {"dense": True, "size": size}
            if a.get("default") is not None:
                kw["default_value"] = mkval(a["type"], a["default"])
            at = cont.create_attribute(a["name"], PYTYPE[a["type"]], a["arity"], **kw)
            mk = (lambda ty, x: np_val(ty, mkval(ty, x))) if a.get("np") else mkval
            for k, v in a["vals"]:
                if k >= size:
                    continue
                if a["arity"] == 1:
                    at[k] = mk(a["type"], v[0])
                elif a.get("np") and a["type"] in ("Int", "Float", "Bool"):
                    at[k] = np.array([mkval(a["type"], x) for x in v])
                else:
                    at[k] = [mk(a["type"], x) for x in v]
    for k in spec.get("hard_set") or []:
        if hasattr(m, "edges") and m.edges.has_attribute("hard_edges") and k < len(m.edges):
            m.edges.get_attribute("hard_edges")[k] = True
    return m


class Cfg:
    def __init__(self, cfg):
        self.cfg = cfg or {}

    def __enter__(self):
        from mouette import config
        self.saved = {k: getattr(config, k) for k in self.cfg}
        for k, v in self.cfg.items():
            setattr(config, k, v)

    def __exit__(self, *a):
        from mouette import config
        for k, v in self.saved.items():
            setattr(config, k, v)


def exc(ex):
    return {"exc": type(ex).__name__, "msg": str(ex)[:200]}


def do_load(path, fmt):
    if fmt == "stl" and "--load-one" not in sys.argv and "--child" not in sys.argv:
        # the third-party stl_reader aborts the whole process on some files (e.g. zero triangles): isolate it
        import subprocess
        try:
            p = subprocess.run([sys.executable, "-m", "vf.impl.c04_driver", "--load-one", path, fmt], stdout=subprocess.PIPE,
                               stderr=subprocess.STDOUT, timeout=60, text=True)
            for line in reversed(p.stdout.splitlines()):
                if line.startswith("@@JSON "):
                    return json.loads(line[7:])
            return {"raw_exc": {"exc": "ProcessAbort", "msg": p.stdout[-200:]}}
        except subprocess.TimeoutExpired:
            return {"raw_exc": {"exc": "Timeout", "msg": ""}}
    import mouette as M
    out = {}
    try:
        r = M.mesh.load(path, raw=True)
        out["raw"] = obs_raw(r)
    except Timeout:
        out["raw_exc"] = {"exc": "Timeout", "msg": ""}
        return out
    except Exception as ex:  # noqa
        out["raw_exc"] = exc(ex)
        return out
    try:
        m = M.mesh.load(path)
        out["class"] = type(m).__name__
        out["loaded"] = obs_mesh(m)
    except Timeout:
        out["class_exc"] = {"exc": "Timeout", "msg": ""}
    except Exception as ex:  # noqa
        out["class_exc"] = exc(ex)
    return out


def read_file(path, fmt):
    if fmt == "stl":
        return {"hex": open(path, "rb").read().hex()}
    return {"text": open(path, "r", newline="").read()}


def save_form(M, m, path, form):
    """the call forms of save(): optional argument omitted / given with its default, positionally or by keyword"""
    form = form % 5
    if form == 0:
        M.mesh.save(m, path)
    elif form == 1:
        M.mesh.save(m, path, None)
    elif form == 2:
        M.mesh.save(m, path, ignore_elements=None)
    elif form == 3:
        M.mesh.save(mesh=m, filename=path, ignore_elements=set())
    else:
        M.mesh.save(m, filename=path)


def load_form(M, path, form):
    form = form % 6
    if form == 0:
        return M.mesh.load(path)
    if form == 1:
        return M.mesh.load(path, None)
    if form == 2:
        return M.mesh.load(path, None, False)
    if form == 3:
        return M.mesh.load(filename=path, dim=None, raw=False)
    if form == 4:
        return M.mesh.load(path, raw=False)
    return M.mesh.load(path, dim=None)


def same_obs(a, b):
    """a: observed later, b: observed before.  Same geometry, and every attribute seen before is still there with the same values;
    attributes that appear in between (caches of a save / a query) are left free."""
    a, b = dict(a), dict(b)
    a.pop("adj", None)
    b.pop("adj", None)
    aa, ab = a.pop("attrs", None) or {}, b.pop("attrs", None) or {}
    if a != b:
        return False
    for ck, lst in ab.items():
        later = {x[0]: x for x in aa.get(ck, [])}
        if any(later.get(x[0]) != x for x in lst):
            return False
    return True


def warm(m):
    """use the mesh the way a program does before saving it: connectivity queries, that may cache things on the mesh"""
    con = getattr(m, "connectivity", None)
    for name in ("vertex_to_vertices", "vertex_to_edges", "vertex_to_faces", "vertex_to_cells", "face_to_faces", "face_to_edges",
                 "face_to_cells", "cell_to_cells", "edge_to_faces", "vertex_to_corners"):
        f = getattr(con, name, None)
        if f is not None:
            try:
                f(0)
            except Exception:  # noqa
                pass
    for name in ("boundary_vertices", "interior_vertices", "boundary_edges", "interior_edges", "boundary_faces", "half_edges"):
        try:
            getattr(m, name, None)
        except Exception:  # noqa
            pass


def content(M, path):
    """what a file holds, as mouette reads it (two files are compared by content: identical bytes are not required)"""
    return obs_raw(M.mesh.load(path, raw=True))


def run_session(job, root, idx):
    """Several saves and loads in ONE process (objects of one session must not influence each other, every call must behave
    like the first one, a failed call must leave no trace).  Returns save-job-like records for the two meshes and for the second
    generation (the loaded mesh saved and loaded again), the classes obtained with an explicit `dim`, and named yes/no checks."""
    import mouette as M
    fmt = job["fmt"]
    fm = job.get("forms") or [0] * 12
    d = os.path.join(root, "s%d" % idx)
    os.makedirs(d)
    checks = []
    out = {"checks": checks}

    def P(name, upper=False):
        return os.path.join(d, name + "." + (fmt.upper() if upper else fmt))
    with Cfg(job.get("cfg")):
        try:
            A = build_mesh(job["meshes"][0])
            B = build_mesh(job["meshes"][1])
        except Exception as ex:  # noqa
            return {"build_exc": exc(ex)}
        if job.get("warm"):
            warm(A)
        oA0, oB0 = obs_mesh(A), obs_mesh(B)
        pa, pb = P("a", upper=job.get("upper") == "first"), P("b")     # extensions are matched case-insensitively
        try:
            save_form(M, A, pa, fm[0])
            M.mesh.load(pa, raw=True)
        except Timeout:
            raise
        except Exception as ex:  # noqa
            if job.get("upper") != "first":
                raise
            out["upper_refused"] = type(ex).__name__       # the text does not speak about the spelling of the extension
            job = dict(job, upper=None)
            pa = P("a")
            save_form(M, A, pa, fm[0])
        fA = read_file(pa, fmt)
        oA_after_first = obs_mesh(A)
        save_form(M, B, pb, fm[1])
        fB = read_file(pb, fmt)
        pa2 = P("a2", upper=job.get("upper") == "second")
        try:
            save_form(M, A, pa2, fm[2])
            M.mesh.load(pa2, raw=True)
        except Timeout:
            raise
        except Exception as ex:  # noqa
            if job.get("upper") != "second":
                raise
            out["upper_refused"] = type(ex).__name__
            job = dict(job, upper=None)
            pa2 = P("a2")
            save_form(M, A, pa2, fm[2])
        checks.append(["saving the same mesh a second time (other call form%s) writes a file with the same content"
                       % (", upper-case extension" if job.get("upper") == "second" else ""), content(M, pa2) == content(M, pa)])
        checks.append(["the file of the first mesh is unchanged on disk after other saves", read_file(pa, fmt) == fA])
        checks.append(["the saved meshes are unchanged by the saves", same_obs(obs_mesh(A), oA0) and same_obs(obs_mesh(B), oB0)])
        # loads
        ra = M.mesh.load(pa, raw=True)
        o_ra = obs_raw(ra)
        la = load_form(M, pa, fm[3])
        o_la = obs_mesh(la)
        rb = M.mesh.load(pb, None, True)
        o_rb = obs_raw(rb)
        lb = load_form(M, pb, fm[4])
        o_lb = obs_mesh(lb)
        checks.append(["the first loaded mesh (raw and finished) is unchanged by loading another file",
                       obs_raw(ra) == o_ra and obs_mesh(la) == o_la])
        la2 = load_form(M, pa2 if job.get("upper") == "second" else pa, fm[5])
        checks.append(["loading the same file again gives the same mesh", obs_mesh(la2) == o_la])
        ra2 = M.mesh.load(filename=pa, raw=True)
        checks.append(["loading the same file again (raw) gives the same data", obs_raw(ra2) == o_ra])
        checks.append(["two loads give distinct objects", la2 is not la and la2.vertices is not la.vertices and ra2 is not ra
                       and ra2.vertices is not ra.vertices, "soft"])      # informative: what matters is the next check
        # edit one loaded object in place: the others, and later loads, do not see it
        try:
            if len(la2.vertices) > 0:
                la2.vertices[0][0] = 12345.0
            la2.vertices += [M.Vec(7., 8., 9.)]
            ra2.vertices += [M.Vec(7., 8., 9.)]
            la2.vertices.create_attribute("session_probe", int)[0] = 3
        except Exception as ex:  # noqa
            out["edit_exc"] = exc(ex)
        checks.append(["editing one loaded mesh in place leaves the other objects loaded in the session as they were",
                       obs_mesh(la) == o_la and obs_raw(ra) == o_ra and obs_mesh(lb) == o_lb and obs_raw(rb) == o_rb])
        la3 = load_form(M, pa, fm[6])
        checks.append(["a load after another loaded mesh was edited gives the file's content", obs_mesh(la3) == o_la])
        # calls that fail, then the same calls again
        failed = []
        bad = os.path.join(d, "broken." + fmt)
        open(bad, "wb").write(b"OFF\n3 1 0\n0 0 0\n1 0 zero\nVertices\n2\n1.0 2.0 3.0 0\nv 1 2 3\nf 1 2 9\n[HEAD\n\"x\"\n3 2 three\n" if job.get("forms", [0])[0] % 2
                              else b"\x00\xff this is not a mesh file\n1 2 three\n[HEAD\n")
        for what, call in (("load of a malformed file", lambda: M.mesh.load(bad)),
                           ("load of a missing file", lambda: M.mesh.load(os.path.join(d, "missing." + fmt))),
                           ("save under an unknown extension", lambda: M.mesh.save(A, os.path.join(d, "a.unknown_ext"))),
                           ("load under an unknown extension", lambda: M.mesh.load(os.path.join(d, "a.unknown_ext"))),
                           ("save into a missing directory", lambda: M.mesh.save(A, os.path.join(d, "no", "such", "dir", "a." + fmt)))):
            if fmt == "stl" and what == "load of a malformed file":
                continue    # the third-party reader aborts the process on some byte strings
            try:
                call()
                failed.append([what, None])
            except Timeout:
                raise
            except BaseException as ex:  # noqa
                failed.append([what, type(ex).__name__])
        out["failed_calls"] = failed
        pa3 = P("a3")
        save_form(M, A, pa3, fm[7])
        checks.append(["after calls that raised, saving the mesh writes a file with the same content as before", content(M, pa3) == content(M, pa)])
        la4 = load_form(M, pa, fm[8])
        checks.append(["after calls that raised, loading the file gives the same mesh as before", obs_mesh(la4) == o_la])
        checks.append(["after calls that raised, the saved mesh is as it was", same_obs(obs_mesh(A), oA0)])
        # explicit dim
        dims = []
        for dd in (0, 1, 2, 3):
            try:
                x = M.mesh.load(pa, dd) if dd % 2 else M.mesh.load(pa, dim=dd)
                ox = obs_mesh(x)
                dims.append([dd, type(x).__name__, all((ox.get(k) or []) == (o_la.get(k) or []) for k in ("V", "F", "C"))])
            except Exception as ex:  # noqa
                dims.append([dd, "EXC " + type(ex).__name__, False])
        out["dims"] = dims
        # records judged by the save/load oracle
        out["A"] = {"mesh_in": oA0, "file": fA, "unchanged": same_obs(oA_after_first, oA0), "adj": oA_after_first.get("adj"),
                    "load": {"raw": o_ra, "class": type(la).__name__, "loaded": o_la}}
        out["B"] = {"mesh_in": oB0, "file": fB, "unchanged": True, "adj": obs_mesh(B).get("adj"),
                    "load": {"raw": o_rb, "class": type(lb).__name__, "loaded": o_lb}}
        # second generation: the loaded mesh saved and loaded again
        pc = P("c")
        try:
            save_form(M, la, pc, fm[9])
            fC = read_file(pc, fmt)
            o_la_after = obs_mesh(la)
            rc = M.mesh.load(pc, raw=True)
            lc = load_form(M, pc, fm[10])
            out["second"] = {"mesh_in": o_la, "file": fC, "unchanged": same_obs(o_la_after, o_la), "adj": o_la_after.get("adj"),
                             "load": {"raw": obs_raw(rc), "class": type(lc).__name__, "loaded": obs_mesh(lc)}}
            checks.append(["the loaded mesh saved again gives the same file (the format's vocabulary is a fixed point)", fC == fA, "soft"]
                          + ([] if fmt in ("off", "geogram_ascii") else []))   # off: the header counts the edges, which the format does not carry;
            # geogram: the importer's own attributes are written back as user attributes (reserved-name finding)
        except Timeout:
            raise
        except Exception as ex:  # noqa
            out["second"] = {"mesh_in": o_la, "save_exc": exc(ex), "unchanged": True}
    return out


def run_job(job, root, idx):
    import mouette as M
    k = job["k"]
    if k == "session":
        if job["fmt"] == "stl" and "--child" not in sys.argv:
            # the third-party stl_reader can abort the process: the whole session runs in one child process
            import subprocess
            try:
                p = subprocess.run([sys.executable, "-m", "vf.impl.c04_driver", "--child"], input=json.dumps({"jobs": [job], "job_timeout": 60}),
                                   stdout=subprocess.PIPE, stderr=subprocess.STDOUT, timeout=90, text=True)
                for line in reversed(p.stdout.splitlines()):
                    if line.startswith("@@JSON "):
                        return json.loads(line[7:])["res"][0]
                return {"driver_exc": {"exc": "ProcessAbort", "msg": p.stdout[-200:]}}
            except subprocess.TimeoutExpired:
                return {"driver_exc": {"exc": "Timeout", "msg": "session child"}}
        return run_session(job, root, idx)
    if k == "floats":
        import numpy as np
        bad = []
        for b in job["bits"]:
            x = b2f(b)
            nx = np.float64(x)
            for t in ("{}".format(nx), str(nx), f"{nx}", "{}".format(x), repr(x)):
                if f2b(float(t)) != b or f2b(np.float64(t)) != b:
                    bad.append([b, t])
            c = complex(x, -x)
            for t in ("{}".format(c), "{}".format(np.complex128(c))):
                c2 = complex(t)
                if c2 != c:
                    bad.append([b, t])
        return {"bad": bad, "n": len(job["bits"])}
    d = os.path.join(root, "j%d" % idx)
    os.makedirs(d)
    fmt = job["fmt"]
    path = os.path.join(d, "m." + fmt)
    out = {}
    with Cfg(job.get("cfg")):
        if k == "save":
            try:
                m = build_mesh(job["mesh"])
            except Exception as ex:  # noqa
                return {"build_exc": exc(ex)}
            before = obs_mesh(m)
            try:
                ign = job.get("ignore")
                if ign is None:
                    M.mesh.save(m, path)
                else:
                    form = job.get("ignore_form") or "set"
                    coll = {"set": set, "frozenset": frozenset, "list": list, "tuple": tuple, "dict": lambda x: dict.fromkeys(x, 1),
                            "keys": lambda x: dict.fromkeys(x, 1).keys()}[form](ign)
                    if job.get("ignore_positional"):
                        M.mesh.save(m, path, coll)
                    else:
                        M.mesh.save(m, path, ignore_elements=coll)
                out["file"] = read_file(path, fmt)
            except Timeout:
                out["save_exc"] = {"exc": "Timeout", "msg": ""}
            except Exception as ex:  # noqa
                out["save_exc"] = exc(ex)
            # the mesh as the exporter saw it: save() computes the cell adjacency before writing a geogram file
            out["mesh_in"] = before
            after = obs_mesh(m)
            out["adj"] = after.get("adj")
            a2 = dict(after)
            b2 = dict(before)
            a2.pop("adj", None)
            b2.pop("adj", None)
            out["unchanged"] = same_obs(a2, b2)
            if not out["unchanged"]:
                out["mesh_after"] = after
            if "file" in out and not job.get("noload"):
                out["load"] = do_load(path, fmt)
        elif k == "load":
            if "hex" in job:
                open(path, "wb").write(bytes.fromhex(job["hex"]))
            else:
                open(path, "w", newline="").write(job["text"])
            out["load"] = do_load(path, fmt)
    return out


def main():
    warnings.simplefilter("ignore")
    if "--load-one" in sys.argv:
        i = sys.argv.index("--load-one")
        print("@@JSON " + json.dumps(do_load(sys.argv[i + 1], sys.argv[i + 2])))
        return
    payload = json.load(sys.stdin)
    root = tempfile.mkdtemp(prefix="c04_")
    res = []
    signal.signal(signal.SIGALRM, _alarm)
    try:
        for i, job in enumerate(payload["jobs"]):
            signal.alarm(int(payload.get("job_timeout", 20)))
            try:
                res.append(run_job(job, root, i))
            except Timeout:
                res.append({"driver_exc": {"exc": "Timeout", "msg": "job timed out"}})
            except Exception as ex:  # noqa
                res.append({"driver_exc": exc(ex)})
            finally:
                signal.alarm(0)
    finally:
        shutil.rmtree(root, ignore_errors=True)
    print("@@JSON " + json.dumps({"res": res}))


if __name__ == "__main__":
    main()
