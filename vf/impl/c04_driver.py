"""Runs mouette.mesh.save / mouette.mesh.load on /repo's implementation and reports canonical observations.

stdin : {"jobs": [job, ...]}
  job {"k": "save", "fmt": ext, "mesh": spec, "cfg": {...}, "ignore": [...]}   build a mesh with mouette from `spec`
        (through RawMeshData.prepare, under the given mouette.config switches), observe it, save it, observe it
        again, read the file back, load it (raw and instantiated).
  job {"k": "load", "fmt": ext, "text": str | "hex": str, "cfg": {...}}        write the file, load it.
  job {"k": "floats", "bits": [int...]}   '{}'.format / str / f-string / float() round trip of doubles
stdout: '@@JSON ' + {"res": [...]}
Floats travel as their 64-bit patterns (ints); temp files live in a directory created and removed here.
"""
import json
import os
import shutil
import signal
import struct
import sys
import tempfile
import warnings


def f2b(x):
    return struct.unpack("<Q", struct.pack("<d", float(x)))[0]


def b2f(b):
    return struct.unpack("<d", struct.pack("<Q", int(b)))[0]


class Timeout(Exception):
    pass


def _alarm(signum, frame):
    raise Timeout()


def cint(x):
    import numpy as np
    if isinstance(x, (bool, np.bool_)):
        return ["other", repr(x)]
    if isinstance(x, (int, np.integer)):
        return int(x)
    return ["other", repr(x)]


def canon_val(v, ty):
    """attribute value -> json (by the attribute's type)"""
    import numpy as np
    try:
        if ty == "Bool":
            return ["b", bool(v)]
        if ty == "Int":
            return ["i", int(v)]
        if ty == "Float":
            return ["f", f2b(v)]
        if ty == "Complex":
            c = complex(v)
            return ["c", f2b(c.real), f2b(c.imag)]
        if ty == "String":
            return ["s", str(v)]
    except Exception as ex:  # noqa
        return ["other", "%s: %r" % (type(ex).__name__, v)]
    return ["other", repr(v)]


def obs_dense_attrs(container, size):
    """name -> [type, arity, [values flattened over range(size)]] read through attr[i] (what export reads)"""
    out = []
    for name in container.attributes:
        a = container.get_attribute(name)
        ty = a.type.name
        vals = []
        try:
            for i in range(size):
                v = a[i]
                if a.elemsize == 1:
                    vals.append(canon_val(v, ty))
                else:
                    vals += [canon_val(v[j], ty) for j in range(a.elemsize)]
        except Exception as ex:  # noqa
            vals = ["EXC", type(ex).__name__, str(ex)[:100]]
        out.append([str(name), ty, int(a.elemsize), vals])
    return out


def obs_sparse_attrs(container):
    """attributes as an import function leaves them: the dict of a sparse attribute / rows of a dense one"""
    from mouette.mesh.mesh_attributes import Attribute
    out = []
    for name in container.attributes:
        a = container.get_attribute(name)
        ty = a.type.name
        items = []
        if isinstance(a, Attribute):
            for k, v in a._data.items():
                if a.elemsize == 1:
                    items.append([cint(k), [canon_val(v, ty)]])
                else:
                    items.append([cint(k), [canon_val(x, ty) for x in v]])
            kind = "sparse"
        else:
            for i in range(a.n_elem):
                row = a._data[i]
                items.append([i, [canon_val(x, ty) for x in row]])
            kind = "dense"
        out.append([str(name), ty, int(a.elemsize), kind, items])
    return out


def obs_mesh(m):
    """a (prepared) mesh object as the export functions see it"""
    o = {"class": type(m).__name__}
    o["V"] = [[f2b(c) for c in v] for v in m.vertices]
    o["E"] = [[cint(x) for x in e] for e in m.edges] if hasattr(m, "edges") else None
    o["F"] = [[cint(x) for x in f] for f in m.faces] if hasattr(m, "faces") else None
    o["C"] = [[cint(x) for x in c] for c in m.cells] if hasattr(m, "cells") else None
    o["hard"] = None
    if hasattr(m, "edges") and m.edges.has_attribute("hard_edges"):
        o["hard"] = [cint(k) for k in m.edges.get_attribute("hard_edges")]
    o["FC"] = [cint(x) for x in m.face_corners] if hasattr(m, "face_corners") else None
    att = {"V": obs_dense_attrs(m.vertices, len(m.vertices))}
    if hasattr(m, "edges"):
        att["E"] = obs_dense_attrs(m.edges, len(m.edges))
    if hasattr(m, "faces"):
        att["F"] = obs_dense_attrs(m.faces, len(m.faces))
        att["FC"] = obs_dense_attrs(m.face_corners, len(m.face_corners))
    if hasattr(m, "cells"):
        att["C"] = obs_dense_attrs(m.cells, len(m.cells))
        att["CC"] = obs_dense_attrs(m.cell_corners, len(m.cell_corners))
        ncf = sum(4 if len(c) == 4 else 6 for c in m.cells)   # facets: 4 per tetrahedron, 6 per hexahedron
        adj = None
        cf = []
        for name in m.cell_faces.attributes:
            if name == "adjacent_cell":
                a = m.cell_faces.get_attribute(name)
                adj = [cint(a[(ic, jf)]) for ic, c in enumerate(m.cells) for jf in range(len(c))]
        saved = dict(m.cell_faces._attr)
        try:
            m.cell_faces._attr = {k: v for k, v in saved.items() if k != "adjacent_cell"}
            cf = obs_dense_attrs(m.cell_faces, ncf)
        finally:
            m.cell_faces._attr = saved
        att["CF"] = cf
        o["adj"] = adj
    o["attrs"] = att
    return o


def obs_raw(r):
    o = {}
    o["V"] = [[f2b(c) for c in v] for v in r.vertices]
    o["E"] = [[cint(x) for x in e] for e in r.edges]
    o["F"] = [[cint(x) for x in f] for f in r.faces]
    o["C"] = [[cint(x) for x in c] for c in r.cells]
    o["attrs"] = {"V": obs_sparse_attrs(r.vertices), "E": obs_sparse_attrs(r.edges), "F": obs_sparse_attrs(r.faces),
                  "FC": obs_sparse_attrs(r.face_corners), "C": obs_sparse_attrs(r.cells), "CC": obs_sparse_attrs(r.cell_corners),
                  "CF": obs_sparse_attrs(r.cell_faces)}
    return o


PYTYPE = {"Bool": bool, "Int": int, "Float": float, "Complex": complex, "String": str}


def mkval(ty, v):
    if ty == "Bool":
        return bool(v)
    if ty == "Int":
        return int(v)
    if ty == "Float":
        return b2f(v)
    if ty == "Complex":
        return complex(b2f(v[0]), b2f(v[1]))
    return str(v)


def build_mesh(spec):
    import mouette as M
    from mouette.mesh.mesh import _instanciate_raw_mesh_data
    r = M.mesh.RawMeshData()
    r.vertices += [M.Vec(b2f(v[0]), b2f(v[1]), b2f(v[2])) for v in spec["V"]]
    if spec.get("E"):
        r.edges += [tuple(e) for e in spec["E"]]
    if spec.get("F"):
        r.faces += [list(f) for f in spec["F"]]
    if spec.get("C"):
        r.cells += [list(c) for c in spec["C"]]
    m = _instanciate_raw_mesh_data(r)
    # attributes are created on the prepared mesh (sizes are known then)
    conts = {"V": "vertices", "E": "edges", "F": "faces", "FC": "face_corners", "C": "cells", "CC": "cell_corners", "CF": "cell_faces"}
    for ck, alist in (spec.get("attrs") or {}).items():
        cont = getattr(m, conts[ck], None)
        if cont is None:
            continue
        size = len(cont) if ck != "CF" else sum(4 if len(c) == 4 else 6 for c in m.cells)
        for a in alist:
            kw = {}
            if a.get("dense"):
                kw = {"dense": True, "size": size}
            if a.get("default") is not None:
                kw["default_value"] = mkval(a["type"], a["default"])
            at = cont.create_attribute(a["name"], PYTYPE[a["type"]], a["arity"], **kw)
            for k, v in a["vals"]:
                if k >= size:
                    continue
                if a["arity"] == 1:
                    at[k] = mkval(a["type"], v[0])
                else:
                    at[k] = [mkval(a["type"], x) for x in v]
    for k in spec.get("hard_set") or []:
        if hasattr(m, "edges") and m.edges.has_attribute("hard_edges") and k < len(m.edges):
            m.edges.get_attribute("hard_edges")[k] = True
    return m


class Cfg:
    def __init__(self, cfg):
        self.cfg = cfg or {}

    def __enter__(self):
        from mouette import config
        self.saved = {k: getattr(config, k) for k in self.cfg}
        for k, v in self.cfg.items():
            setattr(config, k, v)

    def __exit__(self, *a):
        from mouette import config
        for k, v in self.saved.items():
            setattr(config, k, v)


def exc(ex):
    return {"exc": type(ex).__name__, "msg": str(ex)[:200]}


def do_load(path, fmt):
    if fmt == "stl" and "--load-one" not in sys.argv:
        # the third-party stl_reader aborts the whole process on some files (e.g. zero triangles): isolate it
        import subprocess
        try:
            p = subprocess.run([sys.executable, "-m", "vf.impl.c04_driver", "--load-one", path, fmt], stdout=subprocess.PIPE,
                               stderr=subprocess.STDOUT, timeout=60, text=True)
            for line in reversed(p.stdout.splitlines()):
                if line.startswith("@@JSON "):
                    return json.loads(line[7:])
            return {"raw_exc": {"exc": "ProcessAbort", "msg": p.stdout[-200:]}}
        except subprocess.TimeoutExpired:
            return {"raw_exc": {"exc": "Timeout", "msg": ""}}
    import mouette as M
    out = {}
    try:
        r = M.mesh.load(path, raw=True)
        out["raw"] = obs_raw(r)
    except Timeout:
        out["raw_exc"] = {"exc": "Timeout", "msg": ""}
        return out
    except Exception as ex:  # noqa
        out["raw_exc"] = exc(ex)
        return out
    try:
        m = M.mesh.load(path)
        out["class"] = type(m).__name__
        out["loaded"] = obs_mesh(m)
    except Timeout:
        out["class_exc"] = {"exc": "Timeout", "msg": ""}
    except Exception as ex:  # noqa
        out["class_exc"] = exc(ex)
    return out


def read_file(path, fmt):
    if fmt == "stl":
        return {"hex": open(path, "rb").read().hex()}
    return {"text": open(path, "r", newline="").read()}


def run_job(job, root, idx):
    import mouette as M
    k = job["k"]
    if k == "floats":
        import numpy as np
        bad = []
        for b in job["bits"]:
            x = b2f(b)
            nx = np.float64(x)
            for t in ("{}".format(nx), str(nx), f"{nx}", "{}".format(x), repr(x)):
                if f2b(float(t)) != b or f2b(np.float64(t)) != b:
                    bad.append([b, t])
            c = complex(x, -x)
            for t in ("{}".format(c), "{}".format(np.complex128(c))):
                c2 = complex(t)
                if c2 != c:
                    bad.append([b, t])
        return {"bad": bad, "n": len(job["bits"])}
    d = os.path.join(root, "j%d" % idx)
    os.makedirs(d)
    fmt = job["fmt"]
    path = os.path.join(d, "m." + fmt)
    out = {}
    with Cfg(job.get("cfg")):
        if k == "save":
            try:
                m = build_mesh(job["mesh"])
            except Exception as ex:  # noqa
                return {"build_exc": exc(ex)}
            before = obs_mesh(m)
            try:
                ign = job.get("ignore")
                if ign is None:
                    M.mesh.save(m, path)
                else:
                    M.mesh.save(m, path, ignore_elements=set(ign))
                out["file"] = read_file(path, fmt)
            except Timeout:
                out["save_exc"] = {"exc": "Timeout", "msg": ""}
            except Exception as ex:  # noqa
                out["save_exc"] = exc(ex)
            # the mesh as the exporter saw it: save() computes the cell adjacency before writing a geogram file
            out["mesh_in"] = before
            after = obs_mesh(m)
            out["adj"] = after.get("adj")
            a2 = dict(after)
            b2 = dict(before)
            a2.pop("adj", None)
            b2.pop("adj", None)
            out["unchanged"] = (a2 == b2)
            if not out["unchanged"]:
                out["mesh_after"] = after
            if "file" in out and not job.get("noload"):
                out["load"] = do_load(path, fmt)
        elif k == "load":
            if "hex" in job:
                open(path, "wb").write(bytes.fromhex(job["hex"]))
            else:
                open(path, "w", newline="").write(job["text"])
            out["load"] = do_load(path, fmt)
    return out


def main():
    warnings.simplefilter("ignore")
    if "--load-one" in sys.argv:
        i = sys.argv.index("--load-one")
        print("@@JSON " + json.dumps(do_load(sys.argv[i + 1], sys.argv[i + 2])))
        return
    payload = json.load(sys.stdin)
    root = tempfile.mkdtemp(prefix="c04_")
    res = []
    signal.signal(signal.SIGALRM, _alarm)
    try:
        for i, job in enumerate(payload["jobs"]):
            signal.alarm(int(payload.get("job_timeout", 20)))
            try:
                res.append(run_job(job, root, i))
            except Timeout:
                res.append({"driver_exc": {"exc": "Timeout", "msg": "job timed out"}})
            except Exception as ex:  # noqa
                res.append({"driver_exc": exc(ex)})
            finally:
                signal.alarm(0)
    finally:
        shutil.rmtree(root, ignore_errors=True)
    print("@@JSON " + json.dumps({"res": res}))


if __name__ == "__main__":
    main()
