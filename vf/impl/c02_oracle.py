"""Independent restatement of property C02 on concrete observations (search for a failing input only).

oracle(case, res) -> None | (class_key, message)
  case : the generated input (vf/impl/c02_gen.py), res : {route: {...}} from the driver.
Written from the property sentence (sets, counts, first occurrences), not by replaying mesh_data.py; it shares no code with
the Coq model.  Every rebuild is re-checked from the previous observed stage and the edits applied to it.
"""
import json

CLASSES = ["PointCloud", "PolyLine", "SurfaceMesh", "VolumeMesh"]
CLEARS = {"clear_fc", "clear_cc", "clear_cf"}
QUIET = CLEARS | {"peek"}      # edits after which building again must change nothing
RAW_ROUTES = ("list", "tuple", "numpy", "append")


def skey(x):
    return tuple(sorted(x))


def cell_face_sets(c):
    """vertex sets of the faces of a tetrahedron / hexahedron, in the order 'face i is opposite vertex i' for a tetra"""
    if len(c) == 4:
        return [skey(c[:i] + c[i + 1:]) for i in range(4)]
    if len(c) == 8:
        bot, top = c[:4], c[4:]
        sides = [skey([bot[i], bot[(i + 1) % 4], top[(i + 1) % 4], top[i]]) for i in range(4)]
        return [skey(bot), skey(top)] + sides
    return None


def attr_value(a, i):
    if a["dense"]:
        return int(a["vals"][i])
    for k, v in a["set"]:
        if k == i:
            return int(v)
    return 0 if a["default"] is None else int(a["default"])


def first_occurrences(seq):
    seen, out = set(), []
    for x in seq:
        if tuple(x) not in seen:
            seen.add(tuple(x))
            out.append(list(x))
    return out


def check_stage0(case, o, route, pads_1d=False):
    """`case` = the raw data this construction started from (verts in quarter units, edges, faces, cells, eattrs, and
    optionally pre-filled corner containers "fc"/"cc"/"cf"), `o` = the finished object."""
    cf, ce = case["cfg"]
    verts, edges, faces, cells = case["verts"], case["edges"], case["faces"], case["cells"]
    N = len(verts)
    valid = lambda e: e[0] != e[1] and 0 <= e[0] < N and 0 <= e[1] < N
    if "err" in o:
        if route == "from_arrays":
            w = len(verts[0]) if verts else 3
            oob = any(x >= N for rows in (edges, faces, cells) for r in rows for x in r)
            if o["err"] == "Exception" and (w > 3 or oob):
                return None
        declared = {skey(f) for f in faces}
        missing = any(k not in declared for c in cells for k in (cell_face_sets(c) or []))
        if o["err"] == "KeyError" and not cf and missing:
            return None  # completion switched off and a cell's face was not supplied
        return ("raises/" + o["err"], "construction raised %s (%s)" % (o["err"], o.get("msg", "")))
    # ---- vertices: 3-D floats, the given points, 2-D ones padded with 0 (1-D ones only by from_arrays; a raw container
    #      given 1-D or >3-D points is outside what the property promises: compared with the model only)
    want_v = []
    for v in verts:
        w = list(v)
        if len(w) == 2 or (pads_1d and len(w) < 3):
            w = w + [0] * (3 - len(w))
        want_v.append(w)
    if o["verts"] != want_v:
        return ("vertices", "vertices are %s (quarter units), expected %s: the given points, 2-D ones padded with z=0"
                % (o["verts"][:4], want_v[:4]))
    if any(len(v) in (2, 3) for v in verts) and any(len(w) != 3 for v, w in zip(verts, o["verts"]) if len(v) in (2, 3)):
        return ("vertices", "a 2-D / 3-D input point did not become a 3-D vertex: %s" % o["verts"][:4])
    if not o["vec_ok"] or not o.get("float_ok", True):
        return ("vertex-type", "vertices are not float Vec objects")
    if o.get("alias_ok") is False:
        return ("aliasing/inputs", "the built mesh changed when the objects handed to the containers were mutated afterwards")
    if o.get("twin_ok") is False:
        return ("shared-state/twin", "a second mesh built from equal arguments differs, or spoiling it in place changed the first")
    # ---- class = highest-dimensional element present (or the override)
    has_valid_edge = any(valid(e) for e in edges)
    d = 3 if cells else 2 if faces else 1 if has_valid_edge else 0
    if case.get("dim") is not None and route != "from_arrays":
        d = max(d, case["dim"])
    if o["class"] != CLASSES[d]:
        return ("class", "class is %s, highest-dimensional element present asks for %s" % (o["class"], CLASSES[d]))
    for k, need in (("edges", 1), ("faces", 2), ("fc", 2), ("cells", 3), ("cc", 3), ("cf", 3)):
        if (o[k] is not None) != (d >= need):
            return ("class", "a %s %s container %s" % (o["class"], "lacks the" if d >= need else "has a", k))
    # ---- index rows are handed back in one form, whatever form they came in
    for k, tn in (o.get("types") or {}).items():
        if any(t not in ("tuple[int]", "tuple[]") for t in tn):
            return ("row-type", "%s rows are handed back as %s, not as tuples of Python ints" % (k, tn))
    fin_faces = o["faces"] if o["faces"] is not None else []
    fin_cells = o["cells"] if o["cells"] is not None else []
    fin_edges = o["edges"] if o["edges"] is not None else []
    # ---- faces completed from cells
    if fin_cells != cells:
        return ("cells", "cells changed: %s -> %s" % (cells, fin_cells))
    if d >= 2:
        if fin_faces[:len(faces)] != faces:
            return ("faces", "declared faces are not kept at the front of the face list")
        added = fin_faces[len(faces):]
        declared = {skey(f) for f in faces}
        cellkeys = []
        for c in cells:
            cellkeys += cell_face_sets(c)
        if cf and cells:
            fk = {skey(f) for f in fin_faces}
            for c in cells:
                for i, k in enumerate(cell_face_sets(c)):
                    if k not in fk:
                        return ("faces-from-cells", "face %d of cell %s (vertices %s) is missing from the faces" % (i, c, list(k)))
            ak = [skey(f) for f in added]
            if len(set(ak)) != len(ak) or any(k in declared for k in ak):
                return ("faces-from-cells", "a face shared by two cells (or already declared) was added twice: %s" % added)
            if any(k not in cellkeys for k in ak):
                return ("faces-from-cells", "an added face is not a face of any cell: %s" % added)
            for f in added:
                want_ar = 3 if any(len(c) == 4 and skey(f) in cell_face_sets(c) for c in cells) else 4
                if len(f) != want_ar and len(set(f)) == len(f):
                    return ("faces-from-cells", "added face %s is not a %s" % (f, "triangle" if want_ar == 3 else "quad"))
        elif added:
            return ("faces-from-cells", "faces were added although completion is off / there is no cell: %s" % added)
    # ---- edges: stated on sets, counts and first occurrences
    dup_finding = None
    if d >= 1:
        for e in fin_edges:
            if not (0 <= e[0] < e[1] < N):
                return ("edge-range", "edge %s is not (a,b) with 0 <= a < b < %d" % (e, N))
        decl_keys = [list(skey(e)) for e in edges if valid(e)]          # surviving declared edges, in declared order
        side_keys = []
        if ce and fin_faces:
            for f in fin_faces:
                side_keys += [list(skey((f[i], f[(i + 1) % len(f)]))) for i in range(len(f))]
        side_keys = [s for s in side_keys if valid(s)]
        want_set = {tuple(e) for e in decl_keys} | {tuple(s) for s in side_keys}
        got_set = {tuple(e) for e in fin_edges}
        if got_set != want_set:
            return ("edge-set", "the edge set is %s; declared edges plus face sides give %s (missing %s, extra %s)"
                    % (sorted(got_set), sorted(want_set), sorted(want_set - got_set), sorted(got_set - want_set)))
        nd = len(decl_keys)
        if fin_edges[:nd] != decl_keys:
            return ("edge-order", "the surviving declared edges %s are not the first %d edges %s" % (decl_keys, nd, fin_edges[:nd]))
        new = fin_edges[nd:]
        declared_set = {tuple(e) for e in decl_keys}
        want_new = [s for s in first_occurrences(side_keys) if tuple(s) not in declared_set]
        if new != want_new:
            return ("edge-sides", "after the declared edges come %s; each new side of each face once, in face order, is %s" % (new, want_new))
        if len(got_set) != len(fin_edges):
            dups = sorted({tuple(e) for e in fin_edges if fin_edges.count(e) > 1})
            if all(decl_keys.count(list(e)) > 1 for e in dups):
                dup_finding = ("edge-list/duplicate-declared",
                               "edges %s occur more than once in the edge list: they were declared more than once %s" % (dups, edges))
            else:
                return ("edge-dup", "edges %s occur more than once in %s" % (dups, fin_edges))
        # ---- attributes: a value survives iff its edge survives, at the compacted index
        kept = [i for i, e in enumerate(edges) if valid(e)]
        names = [a["name"] for a in o["eattrs"]]
        for a in case["eattrs"]:
            if a["name"] not in names:
                return ("attr-lost", "edge attribute %s disappeared" % a["name"])
            oa = o["eattrs"][names.index(a["name"])]
            want = [attr_value(a, i) for i in kept] + [0 if a["default"] is None else int(a["default"])] * len(new)
            if oa["vals"] != want:
                return ("attr-values/%s" % ("dense" if a["dense"] else "sparse"),
                        "edge attribute %s (%s, default %s) reads %s on the final edges, the surviving edges' values are %s"
                        % (a["name"], "dense" if a["dense"] else "sparse", a["default"], oa["vals"], want))
            if oa["keys"] is not None and any(k >= len(fin_edges) and k >= len(edges) for k in oa["keys"]):
                return ("attr-keys", "attribute %s holds a key %s beyond the edge list" % (a["name"], oa["keys"]))
        declared_names = [a["name"] for a in case["eattrs"]]
        for n in names:
            if n not in declared_names and n != "hard_edges":
                return ("attr-extra", "unexpected edge attribute %s" % n)
        # ---- hard edges: exactly the declared edges
        if "hard_edges" not in declared_names:
            if ce and fin_faces:
                if "hard_edges" not in names:
                    return ("hard-edges", "no hard_edges attribute although edges were completed from faces")
                hv = o["eattrs"][names.index("hard_edges")]["vals"]
                want = [1] * nd + [0] * len(new)
                if hv != want:
                    return ("hard-edges", "hard_edges flags are %s, the declared edges are exactly the first %d of %d" % (hv, nd, len(hv)))
            elif "hard_edges" in names:
                hv = o["eattrs"][names.index("hard_edges")]["vals"]
                if any(hv[nd:]):
                    return ("hard-edges", "an edge the caller did not declare is flagged hard: %s" % hv)
    # ---- corner records: one per incidence, in element order, element and owner
    if d >= 2:
        we = [v for f in fin_faces for v in f]
        wa = [i for i, f in enumerate(fin_faces) for _ in f]
        if o["fc"] != [we, wa]:
            return ("face-corners", "face corners are %s, expected one (vertex, face) record per incidence %s" % (o["fc"], [we, wa]))
    if d >= 3:
        we = [v for c in fin_cells for v in c]
        wa = [i for i, c in enumerate(fin_cells) for _ in c]
        if o["cc"] != [we, wa]:
            return ("cell-corners", "cell corners are %s, expected %s" % (o["cc"], [we, wa]))
        if all(len(c) in (4, 8) for c in fin_cells):
            el, ad = o["cf"]
            wa = [i for i, c in enumerate(fin_cells) for _ in range(4 if len(c) == 4 else 6)]
            if ad != wa:
                return ("cell-faces-owner", "cell_faces owners are %s, expected %s" % (ad, wa))
            if len(el) != len(wa):
                return ("cell-faces", "cell_faces holds %d face ids for %d cell-face incidences" % (len(el), len(wa)))
            off = 0
            for c in fin_cells:
                ks = cell_face_sets(c)
                got = []
                for j in range(len(ks)):
                    fid = el[off + j]
                    if not (0 <= fid < len(fin_faces)):
                        return ("cell-faces", "cell_faces id %d out of range" % fid)
                    got.append(skey(fin_faces[fid]))
                if len(c) == 4:
                    if got != ks:
                        return ("cell-faces", "cell %s: cell_faces lists faces %s, face i must be the one opposite vertex i: %s" % (c, got, ks))
                elif sorted(got) != sorted(ks):
                    return ("cell-faces", "cell %s: cell_faces lists faces %s, its six quads are %s" % (c, got, ks))
                off += len(ks)
    return dup_finding


def edited_input(case, prev, edits, prev_is_data=False):
    """The raw data a rebuild starts from: what the previous mesh exposed - or, after a construction that raised, the data
    that construction was given - after the edits (brute force on plain lists).  Returned in the shape of a generated
    case, so that the very same restatement (check_stage0) applies to the rebuild."""
    verts = [list(v) for v in prev["verts"]]
    edges = [list(e) for e in (prev["edges"] or [])]
    faces = [list(f) for f in (prev["faces"] or [])]
    cells = [list(c) for c in (prev["cells"] or [])]
    attrs = []
    for a in prev["eattrs"]:
        if prev_is_data:
            attrs.append(json.loads(json.dumps(a)))
        elif a["kind"] == "dense":
            attrs.append({"name": a["name"], "dense": True, "default": a["default"], "vals": list(a["vals"])})
        else:
            attrs.append({"name": a["name"], "dense": False, "default": a["default"],
                          "set": [[k, a["vals"][k]] for k in a["keys"] if k < len(a["vals"])]})
    for e in edits:
        k = e[0]
        if k == "clear_edges":
            edges, attrs = [], []
        elif k == "clear_faces":
            faces = []
        elif k == "clear_cells":
            cells = []
        elif k == "add_vertex":
            verts.append(list(e[1]))
        elif k == "add_edge":
            edges.append(list(e[1]))
            for a in attrs:
                if a["dense"]:
                    a["vals"].append(0 if a["default"] is None else a["default"])
        elif k == "add_face":
            faces.append(list(e[1]))
        elif k == "add_cell":
            cells.append(list(e[1]))
        elif k == "set_face" and faces:
            faces[e[1] % len(faces)] = list(e[2])
        elif k == "set_cell" and cells:
            cells[e[1] % len(cells)] = list(e[2])
        elif k == "pop_face" and faces:
            faces.pop()
        elif k == "pop_cell" and cells:
            cells.pop()
    return {"verts": verts, "edges": edges, "faces": faces, "cells": cells, "eattrs": attrs, "cfg": case["cfg"],
            "dim": case.get("dim")}


def script_failure(case, route, x):
    """later behaviour: no operation may raise (the scripts only ask what the built mesh must be able to answer)"""
    for q, a in zip(case.get("script", []), x.get("script", [])):
        if a[0] == "err":
            return ("later-raises/%s/%s" % (q[0], a[1]), "[%s rows] %s%s raised %s: %s" % (route, q[0], q[1:], a[1], a[2] if len(a) > 2 else ""))
    return None


def oracle_all(case, res):
    """all failures of the case, in the order of the property sentence; the duplicate-declared finding last"""
    fails = []
    base = None
    for route in case["routes"]:
        x = res.get(route)
        if x is None or "crash" in x:
            fails.append(("driver", "route %s: %s" % (route, (x or {}).get("crash", "no result"))))
            continue
        if "skip" in x:
            continue
        st = x["stages"]
        inp = case
        if "input" in x:    # a file route: the raw input is what the importer produced
            inp = dict(x["input"], cfg=case["cfg"], dim=case.get("dim"))
        m = check_stage0(inp, st[0], route, pads_1d=(route == "from_arrays"))
        if m:
            fails.append((m[0], "[%s] %s" % (route, m[1])))
            if not m[0].startswith("edge-list/duplicate-declared"):
                continue
        edits = case.get("edits") or []
        stop = False
        strip = lambda o: {k: v for k, v in o.items() if k not in ("alias_ok", "twin_ok")}
        st = [strip(o) for o in st]
        cur_in = inp            # the data the current attempt started from
        for i, s in enumerate(st[1:], 1):
            es = edits[i - 1] if i - 1 < len(edits) else []
            prev = st[i - 1]
            if "err" in prev:
                # the construction raised (accepted above): the same raw data, edited, is built again
                cur_in = edited_input(case, cur_in, es, prev_is_data=True)
                m = check_stage0(cur_in, s, route)
                if m:
                    fails.append(("retry-" + m[0] if not m[0].startswith("edge-list/") else m[0],
                                  "[%s] pass %d, building the same raw data again after the failed construction and edits %s: %s"
                                  % (route, i, es, m[1])))
                    if not m[0].startswith("edge-list/duplicate-declared"):
                        stop = True
                        break
                continue
            cur_in = edited_input(case, prev, es)
            fk = [skey(f) for f in (prev.get("faces") or [])]
            twin_faces = len(set(fk)) != len(fk)   # the same face twice: either copy may serve as a cell's face
            if all(e[0] in QUIET for e in es) and not twin_faces \
                    and json.dumps(s, sort_keys=True) != json.dumps(prev, sort_keys=True):
                diff = [k for k in s if s.get(k) != prev.get(k)] if "err" not in s else ["raised " + s["err"]]
                fails.append(("rebuild/" + (diff[0] if diff else "?"),
                              "[%s] building again from the built mesh (pass %d, edits %s) changed %s: %s -> %s"
                              % (route, i, es, diff, {k: prev.get(k) for k in diff}, {k: s.get(k) for k in diff})))
                stop = True
                break
            m = check_stage0(cur_in, s, route)
            if m:
                fails.append(("rebuild-" + m[0] if not m[0].startswith("edge-list/") else m[0],
                              "[%s] pass %d after edits %s: %s" % (route, i, es, m[1])))
                if not m[0].startswith("edge-list/duplicate-declared"):
                    stop = True
                    break
        if stop:
            continue
        m = script_failure(case, route, x)
        if m:
            last = st[-1]
            if "err" not in last and last.get("edges") and len({tuple(e) for e in last["edges"]}) != len(last["edges"]):
                # a consequence of the duplicated declared edge (the edge-id table keeps one id per key)
                m = ("edge-list/duplicate-declared", m[1] + "  [the edge list holds a duplicated declared edge]")
            fails.append(m)
            continue
        # container independence: every raw route (and from_arrays when it accepts the data) gives the very same
        # stages - row types included - and the very same typed answers afterwards
        comparable = route in RAW_ROUTES or (route == "from_arrays" and "err" not in st[0]
                                             and len(case["verts"][0] if case["verts"] else [0, 0, 0]) >= 2)
        if comparable:
            nomsg = [{k: v for k, v in s.items() if k != "msg"} for s in st]
            sig = json.dumps({"stages": nomsg, "script": x["script"]}, sort_keys=True)
            if base is None:
                base = (route, sig, x)
            elif sig != base[1]:
                detail, what = "", "stages"
                if json.dumps(x["script"]) != json.dumps(base[2]["script"]):
                    what = "later behaviour"
                    for q, a, b2 in zip(case["script"], base[2]["script"], x["script"]):
                        if a != b2:
                            detail = " %s%s: %s vs %s" % (q[0], q[1:], json.dumps(a)[:200], json.dumps(b2)[:200])
                            break
                else:
                    for sa, sb in zip(base[2]["stages"], st):
                        d = [k for k in sb if k != "msg" and sb.get(k) != sa.get(k)]
                        if d:
                            detail = " %s: %s vs %s" % (d[0], json.dumps(sa.get(d[0]))[:200], json.dumps(sb.get(d[0]))[:200])
                            break
                fails.append(("container-dependence/" + what, "%s rows and %s rows give different %s.%s" % (base[0], route, what, detail)))
    fails.sort(key=lambda f: f[0].startswith("edge-list/duplicate-declared"))
    return fails


def oracle(case, res):
    f = oracle_all(case, res)
    return f[0] if f else None
