"""Independent restatement of property C02 on concrete observations (search for a failing input only).

oracle(case, res) -> None | (class_key, message)
  case : the generated input (vf/impl/c02_gen.py), res : {route: {...}} from the driver.
Written from the property sentence (sets, counts, first occurrences), not by replaying mesh_data.py; it shares no code with
the Coq model.  Every rebuild is re-checked from the previous observed stage and the edits applied to it.
"""
import json

CLASSES = ["PointCloud", "PolyLine", "SurfaceMesh", "VolumeMesh"]
CLEARS = {"clear_fc", "clear_cc", "clear_cf"}
QUIET = CLEARS | {"peek"}      # edits after which building again must change nothing
RAW_ROUTES = ("list", "tuple", "numpy", "append")


def skey(x):
    return tuple(sorted(x))


def cell_face_sets(c):
    """vertex sets of the faces of a tetrahedron / hexahedron, in the order 'face i is opposite vertex i' for a tetra"""
    if len(c) == 4:
        return [skey(c[:i] + c[i + 1:]) for i in range(4)]
    if len(c) == 8:
        bot, top = c[:4], c[4:]
        sides = [skey([bot[i], bot[(i + 1) % 4], top[(i + 1) % 4], top[i]]) for i in range(4)]
        return [skey(bot), skey(top)] + sides
    return None


def attr_value(a, i):
    if a["dense"]:
        return int(a["vals"][i])
    for k, v in a["set"]:
        if k == i:
            return int(v)
    return 0 if a["default"] is None else int(a["default"])


def first_occurrences(seq):
    seen, out = set(), []
    for x in seq:
        if tuple(x) not in seen:
            seen.add(tuple(x))
            out.append(list(x))
    return out


def refusal_legitimate(case, route):
    """Decided from the INPUT alone: may this construction be refused?  (The property does not say how: any exception
    class and message is accepted then.)"""
    verts, edges, faces, cells = case["verts"], case["edges"], case["faces"], case["cells"]
    N = len(verts)
    if route == "from_arrays":
        w = len(verts[0]) if verts else 3
        if w > 3:
            return "from_arrays is given points of width %d" % w
        if any(x >= N for rows in (edges, faces, cells) for r in rows for x in r):
            return "from_arrays is given an index >= the number of vertices"
    if cells and not case["cfg"][0]:
        declared = {skey(f) for f in faces}
        if any(k not in declared for c in cells for k in (cell_face_sets(c) or [])):
            return "face completion is switched off and a face of a cell was not supplied"
    return None


def minus(rows, taken):
    """rows without one occurrence of each row of `taken` (None when some row of `taken` is absent)"""
    rest = [list(r) for r in rows]
    for t in taken:
        if list(t) in rest:
            rest.remove(list(t))
        else:
            return None
    return rest


def check_stage0(case, o, route, pads_1d=False):
    """`case` = the raw data this construction started from (verts in quarter units, edges, faces, cells, eattrs),
    `o` = what was observed.  Only what the property sentence states is required; in particular NOT: the class / message
    of a refusal, the order of the edge list or of the face list, the order of a cell's faces in cell_faces, the
    representation (sparse / dense, key set, default) or the order of the attributes, extra attributes, the container or
    scalar type of rows and coordinates (they must only be the same for every input container), object identities."""
    cf, ce = case["cfg"]
    verts, edges, faces, cells = case["verts"], case["edges"], case["faces"], case["cells"]
    N = len(verts)
    valid = lambda e: e[0] != e[1] and 0 <= e[0] < N and 0 <= e[1] < N
    if "err" in o:
        why = refusal_legitimate(case, route)
        if why is None:
            return ("refused-acceptable-input", "construction raised %s (%s) on an input the property says is built"
                    % (o["err"], o.get("msg", "")))
        if o.get("inputs_ok") is False:
            return ("refusal-changed-inputs", "the construction was refused (%s) but the caller's arrays were modified" % why)
        return None
    # ---- vertices: the given points as 3-D points (2-D ones get a third coordinate; 1-D ones only through from_arrays;
    #      a raw container given 1-D or >3-D points is outside what the property promises)
    if len(o["verts"]) != N:
        return ("vertices", "%d vertices for %d given points" % (len(o["verts"]), N))
    for v, w in zip(verts, o["verts"]):
        if len(v) in (2, 3) or (pads_1d and len(v) < 3):
            if len(w) != 3 or w[:len(v)] != list(v):
                return ("vertices", "the given point %s became the vertex %s (quarter units), not that point in 3-D" % (v, w))
    # ---- class = highest-dimensional element present (or the override)
    has_valid_edge = any(valid(e) for e in edges)
    d = 3 if cells else 2 if faces else 1 if has_valid_edge else 0
    if case.get("dim") is not None and route != "from_arrays":
        d = max(d, case["dim"])
    if o["class"] != CLASSES[d]:
        return ("class", "class is %s, highest-dimensional element present asks for %s" % (o["class"], CLASSES[d]))
    fin_faces = o["faces"] if o["faces"] is not None else []
    fin_cells = o["cells"] if o["cells"] is not None else []
    fin_edges = o["edges"] if o["edges"] is not None else []
    if d >= 3 and sorted(map(tuple, fin_cells)) != sorted(map(tuple, cells)):
        return ("cells", "cells changed: %s -> %s" % (cells, fin_cells))
    # ---- faces completed from cells
    if d >= 2:
        added = minus(fin_faces, faces)
        if added is None:
            return ("faces", "a declared face is missing from the face list %s" % fin_faces)
        declared = {skey(f) for f in faces}
        cellkeys = []
        for c in cells:
            cellkeys += cell_face_sets(c)
        if cf and cells:
            fk = {skey(f) for f in fin_faces}
            for c in cells:
                for i, k in enumerate(cell_face_sets(c)):
                    if k not in fk:
                        return ("faces-from-cells", "face %d of cell %s (vertices %s) is missing from the faces" % (i, c, list(k)))
            ak = [skey(f) for f in added]
            if len(set(ak)) != len(ak) or any(k in declared for k in ak):
                return ("faces-from-cells", "a face shared by two cells (or already declared) was added twice: %s" % added)
            if any(k not in cellkeys for k in ak):
                return ("faces-from-cells", "an added face is not a face of any cell: %s" % added)
            for f in added:
                want_ar = 3 if any(len(c) == 4 and skey(f) in cell_face_sets(c) for c in cells) else 4
                if len(f) != want_ar and len(set(f)) == len(f):
                    return ("faces-from-cells", "added face %s is not a %s" % (f, "triangle" if want_ar == 3 else "quad"))
        elif added:
            return ("faces-from-cells", "faces were added although completion is off / there is no cell: %s" % added)
    # ---- edges: a multiset statement (no order is required of the edge list)
    dup_finding = None
    if d >= 1:
        for e in fin_edges:
            if not (0 <= e[0] < e[1] < N):
                return ("edge-range", "edge %s is not (a,b) with 0 <= a < b < %d" % (e, N))
        kept, decl_keys = [], []            # an edge declared more than once counts once: its first declaration
        for i, e in enumerate(edges):
            if valid(e) and skey(e) not in decl_keys:
                kept.append(i)
                decl_keys.append(skey(e))
        decl_count = {k: 1 for k in decl_keys}
        sides = set()
        if ce and fin_faces:
            for f in fin_faces:
                for i in range(len(f)):
                    sk = skey((f[i], f[(i + 1) % len(f)]))
                    if valid(sk):
                        sides.add(sk)
        new = sides - set(decl_keys)
        got = {}
        for e in fin_edges:
            got[tuple(e)] = got.get(tuple(e), 0) + 1
        want_keys = set(decl_keys) | new
        if set(got) != want_keys:
            return ("edge-set", "the edge set is %s; declared edges plus face sides give %s (missing %s, extra %s)"
                    % (sorted(got), sorted(want_keys), sorted(want_keys - set(got)), sorted(set(got) - want_keys)))
        dups = sorted(k for k, n in got.items() if n > 1)
        if dups:
            return ("edge-dup", "edges %s occur more than once in the edge list %s" % (dups, fin_edges))
        # ---- attributes: (edge, value) pairs - a value survives iff its edge survives, and stays with that edge
        names = [a["name"] for a in o["eattrs"]]
        for a in case["eattrs"]:
            if a["name"] not in names:
                return ("attr-lost", "edge attribute %s disappeared" % a["name"])
            oa = o["eattrs"][names.index(a["name"])]
            dflt = 0 if a["default"] is None else int(a["default"])
            want = sorted([(skey(edges[i]), attr_value(a, i)) for i in kept] + [(k, dflt) for k in new])
            have = sorted((tuple(e), v) for e, v in zip(fin_edges, oa["vals"]))
            bad = minus(want, have) is None if dups else have != want
            if bad:
                return ("attr-values/%s" % ("dense" if a["dense"] else "sparse"),
                        "edge attribute %s (%s, default %s): the final (edge, value) pairs are %s, the surviving edges carried %s"
                        % (a["name"], "dense" if a["dense"] else "sparse", a["default"], have, want))
            if oa["keys"] is not None and any(k >= len(fin_edges) and k >= len(edges) for k in oa["keys"]):
                return ("attr-keys", "attribute %s holds a key %s beyond the edge list: a dropped edge's value was kept" % (a["name"], oa["keys"]))
        # ---- hard edges: ONLY declared edges are flagged
        if "hard_edges" in names and "hard_edges" not in [a["name"] for a in case["eattrs"]]:
            hv = o["eattrs"][names.index("hard_edges")]["vals"]
            wrong = [e for e, v in zip(fin_edges, hv) if v and tuple(e) not in decl_count]
            if wrong:
                return ("hard-edges", "edges %s are flagged hard although the caller did not declare them" % wrong)
    # ---- corner records: one per incidence, in element order, element and owner
    if d >= 2:
        we = [v for f in fin_faces for v in f]
        wa = [i for i, f in enumerate(fin_faces) for _ in f]
        if o["fc"] != [we, wa]:
            return ("face-corners", "face corners are %s, expected one (vertex, face) record per incidence %s" % (o["fc"], [we, wa]))
    if d >= 3:
        we = [v for c in fin_cells for v in c]
        wa = [i for i, c in enumerate(fin_cells) for _ in c]
        if o["cc"] != [we, wa]:
            return ("cell-corners", "cell corners are %s, expected %s" % (o["cc"], [we, wa]))
        if all(len(c) in (4, 8) for c in fin_cells):
            el, ad = o["cf"]
            wa = [i for i, c in enumerate(fin_cells) for _ in range(4 if len(c) == 4 else 6)]
            if ad != wa:
                return ("cell-faces-owner", "cell_faces owners are %s, expected %s" % (ad, wa))
            if len(el) != len(wa):
                return ("cell-faces", "cell_faces holds %d face ids for %d cell-face incidences" % (len(el), len(wa)))
            off = 0
            for c in fin_cells:
                ks = cell_face_sets(c)
                got_k = []
                for j in range(len(ks)):
                    fid = el[off + j]
                    if not (0 <= fid < len(fin_faces)):
                        return ("cell-faces", "cell_faces id %d out of range" % fid)
                    got_k.append(skey(fin_faces[fid]))
                if sorted(got_k) != sorted(ks):
                    return ("cell-faces", "cell %s: cell_faces lists faces %s, its faces are %s" % (c, got_k, ks))
                off += len(ks)
    return dup_finding


def view(o):
    """what 'building again changes nothing' / 'whatever the input container' compare: the class, the containers and the
    attribute VALUES on the edges (not their representation or order); a refusal counts as a refusal, whatever its class"""
    if "err" in o:
        return {"refused": True}
    return {"class": o["class"], "verts": o["verts"], "edges": o["edges"], "faces": o["faces"], "cells": o["cells"],
            "fc": o["fc"], "cc": o["cc"], "cf": o["cf"],
            "eattrs": sorted([a["name"], a["vals"]] for a in o["eattrs"])}


def edited_input(case, prev, edits, prev_is_data=False):
    """The raw data a rebuild starts from: what the previous mesh exposed - or, after a construction that raised, the data
    that construction was given - after the edits (brute force on plain lists).  Returned in the shape of a generated
    case, so that the very same restatement (check_stage0) applies to the rebuild."""
    verts = [list(v) for v in prev["verts"]]
    edges = [list(e) for e in (prev["edges"] or [])]
    faces = [list(f) for f in (prev["faces"] or [])]
    cells = [list(c) for c in (prev["cells"] or [])]
    attrs = []
    for a in prev["eattrs"]:
        if prev_is_data:
            attrs.append(json.loads(json.dumps(a)))
        elif a["kind"] == "dense":
            attrs.append({"name": a["name"], "dense": True, "default": a["default"], "vals": list(a["vals"])})
        else:
            attrs.append({"name": a["name"], "dense": False, "default": a["default"],
                          "set": [[k, a["vals"][k]] for k in a["keys"] if k < len(a["vals"])]})
    for e in edits:
        k = e[0]
        if k == "clear_edges":
            edges, attrs = [], []
        elif k == "clear_faces":
            faces = []
        elif k == "clear_cells":
            cells = []
        elif k == "add_vertex":
            verts.append(list(e[1]))
        elif k == "add_edge":
            edges.append(list(e[1]))
            for a in attrs:
                if a["dense"]:
                    a["vals"].append(0 if a["default"] is None else a["default"])
        elif k == "add_face":
            faces.append(list(e[1]))
        elif k == "add_cell":
            cells.append(list(e[1]))
        elif k == "set_face" and faces:
            faces[e[1] % len(faces)] = list(e[2])
        elif k == "set_cell" and cells:
            cells[e[1] % len(cells)] = list(e[2])
        elif k == "pop_face" and faces:
            faces.pop()
        elif k == "pop_cell" and cells:
            cells.pop()
    return {"verts": verts, "edges": edges, "faces": faces, "cells": cells, "eattrs": attrs, "cfg": case["cfg"],
            "dim": case.get("dim")}


def script_failure(case, route, x):
    """later behaviour: no operation may raise (the scripts only ask what the built mesh must be able to answer)"""
    for q, a in zip(case.get("script", []), x.get("script", [])):
        if a[0] == "err":
            return ("later-raises/%s" % q[0], "[%s rows] %s%s raised %s: %s" % (route, q[0], q[1:], a[1], a[2] if len(a) > 2 else ""))
    return None


def oracle_all(case, res):
    """all failures of the case, in the order of the property sentence; the duplicate-declared finding last"""
    fails = []
    base = None
    for route in case["routes"]:
        x = res.get(route)
        if x is None or "crash" in x:
            fails.append(("driver", "route %s: %s" % (route, (x or {}).get("crash", "no result"))))
            continue
        if "skip" in x:
            continue
        st = x["stages"]
        inp = case
        if "input" in x:    # a file route: the raw input is what the importer produced
            inp = dict(x["input"], cfg=case["cfg"], dim=case.get("dim"))
        m = check_stage0(inp, st[0], route, pads_1d=(route == "from_arrays"))
        if m:
            fails.append((m[0], "[%s] %s" % (route, m[1])))
            if not m[0].startswith("edge-list/duplicate-declared"):
                continue
        edits = case.get("edits") or []
        stop = False
        if st[0].get("twin_same") is False:
            fails.append(("shared-state/twin", "[%s] a second mesh built from equal arguments differs from the first" % route))
            continue
        cur_in = inp            # the data the current attempt started from
        for i, s in enumerate(st[1:], 1):
            es = edits[i - 1] if i - 1 < len(edits) else []
            prev = st[i - 1]
            if "err" in prev:
                # the construction raised (accepted above): the same raw data, edited, is built again
                cur_in = edited_input(case, cur_in, es, prev_is_data=True)
                m = check_stage0(cur_in, s, route)
                if m:
                    fails.append(("retry-" + m[0] if not m[0].startswith("edge-list/") else m[0],
                                  "[%s] pass %d, building the same raw data again after the failed construction and edits %s: %s"
                                  % (route, i, es, m[1])))
                    if not m[0].startswith("edge-list/duplicate-declared"):
                        stop = True
                        break
                continue
            cur_in = edited_input(case, prev, es)
            fk = [skey(f) for f in (prev.get("faces") or [])]
            twin_faces = len(set(fk)) != len(fk)   # the same face twice: either copy may serve as a cell's face
            if all(e[0] in QUIET for e in es) and not twin_faces \
                    and json.dumps(view(s), sort_keys=True) != json.dumps(view(prev), sort_keys=True):
                diff = [k for k in view(s) if view(s).get(k) != view(prev).get(k)] if "err" not in s else ["it was refused: " + s["err"]]
                fails.append(("rebuild/" + (diff[0] if diff else "?"),
                              "[%s] building again from the built mesh (pass %d, edits %s) changed %s: %s -> %s"
                              % (route, i, es, diff, {k: prev.get(k) for k in diff}, {k: s.get(k) for k in diff})))
                stop = True
                break
            m = check_stage0(cur_in, s, route)
            if m:
                fails.append(("rebuild-" + m[0] if not m[0].startswith("edge-list/") else m[0],
                              "[%s] pass %d after edits %s: %s" % (route, i, es, m[1])))
                if not m[0].startswith("edge-list/duplicate-declared"):
                    stop = True
                    break
        if stop:
            continue
        m = script_failure(case, route, x)
        if m:
            last = st[-1]
            if "err" not in last and last.get("edges") and len({tuple(e) for e in last["edges"]}) != len(last["edges"]):
                # a consequence of the duplicated declared edge (the edge-id table keeps one id per key)
                m = ("edge-list/duplicate-declared", m[1] + "  [the edge list holds a duplicated declared edge]")
            fails.append(m)
            continue
        # container independence: every raw route (and from_arrays when it accepts the data) gives the very same
        # stages - row types included - and the very same typed answers afterwards
        comparable = route in RAW_ROUTES or (route == "from_arrays" and "err" not in st[0]
                                             and len(case["verts"][0] if case["verts"] else [0, 0, 0]) >= 2)
        if comparable:
            nomsg = [dict(view(s), types=s.get("types"), vkind=[s.get("vec_ok"), s.get("float_ok")]) for s in st]
            sig = json.dumps({"stages": nomsg, "script": x["script"]}, sort_keys=True)
            if base is None:
                base = (route, sig, x)
            elif sig != base[1]:
                detail, what = "", "stages"
                if json.dumps(x["script"]) != json.dumps(base[2]["script"]):
                    what = "later behaviour"
                    for q, a, b2 in zip(case["script"], base[2]["script"], x["script"]):
                        if a != b2:
                            detail = " %s%s: %s vs %s" % (q[0], q[1:], json.dumps(a)[:200], json.dumps(b2)[:200])
                            break
                else:
                    for sa, sb in zip(base[2]["stages"], st):
                        sa, sb = dict(view(sa), types=sa.get("types")), dict(view(sb), types=sb.get("types"))
                        d = [k for k in sb if sb.get(k) != sa.get(k)]
                        if d:
                            detail = " %s: %s vs %s" % (d[0], json.dumps(sa.get(d[0]))[:200], json.dumps(sb.get(d[0]))[:200])
                            break
                fails.append(("container-dependence/" + what, "%s rows and %s rows give different %s.%s" % (base[0], route, what, detail)))
    fails.sort(key=lambda f: f[0].startswith("edge-list/duplicate-declared"))
    return fails


def oracle(case, res):
    f = oracle_all(case, res)
    return f[0] if f else None
