"""Independent restatement of property C02 on concrete observations (search for a failing input only).

oracle(case, res) -> None | (class_key, message)
  case : the generated input (vf/impl/c02_gen.py), res : {route: {"stages": [...], "script": [...]}} from the driver.
Written from the property sentence, by brute force on the finished object; shares no code with the Coq model.
"""
import json

CLASSES = ["PointCloud", "PolyLine", "SurfaceMesh", "VolumeMesh"]


def skey(x):
    return tuple(sorted(x))


def cell_face_sets(c):
    """vertex sets of the faces of a tetrahedron / hexahedron, in the order 'face i is opposite vertex i' for a tetra"""
    if len(c) == 4:
        return [skey(c[:i] + c[i + 1:]) for i in range(4)]
    if len(c) == 8:
        bot, top = c[:4], c[4:]
        sides = [skey([bot[i], bot[(i + 1) % 4], top[(i + 1) % 4], top[i]]) for i in range(4)]
        return [skey(bot), skey(top)] + sides
    return None


def attr_value(a, i):
    if a["dense"]:
        return int(a["vals"][i])
    for k, v in a["set"]:
        if k == i:
            return int(v)
    return 0 if a["default"] is None else int(a["default"])


def check_stage0(case, o, route):
    cf, ce = case["cfg"]
    verts, edges, faces, cells = case["verts"], case["edges"], case["faces"], case["cells"]
    N = len(verts)
    valid = lambda e: e[0] != e[1] and 0 <= e[0] < N and 0 <= e[1] < N
    if "err" in o:
        if route == "from_arrays":
            w = len(verts[0]) if verts else 3
            oob = any(x >= N for rows in (edges, faces, cells) for r in rows for x in r)
            if o["err"] == "Exception" and (w > 3 or oob):
                return None
        declared = {skey(f) for f in faces}
        missing = any(k not in declared for c in cells for k in (cell_face_sets(c) or []))
        if o["err"] == "KeyError" and not cf and missing:
            return None  # completion switched off and a cell's face was not supplied
        return ("raises/" + o["err"], "construction raised %s (%s)" % (o["err"], o.get("msg", "")))
    # ---- vertices: 3-D, the input padded with zeros
    want_v = [list(v) + [0] * (3 - len(v)) for v in verts]
    if o["verts"] != want_v or not o["vec_ok"]:
        return ("vertices", "vertices are %s, expected the 3-D points %s (as Vec)" % (o["verts"][:4], want_v[:4]))
    # ---- class = highest-dimensional element present (or the override)
    has_valid_edge = any(valid(e) for e in edges)
    d = 3 if cells else 2 if faces else 1 if has_valid_edge else 0
    if case.get("dim") is not None and route != "from_arrays":
        d = max(d, case["dim"])
    if o["class"] != CLASSES[d]:
        return ("class", "class is %s, highest-dimensional element present asks for %s" % (o["class"], CLASSES[d]))
    for k, need in (("edges", 1), ("faces", 2), ("fc", 2), ("cells", 3), ("cc", 3), ("cf", 3)):
        if (o[k] is not None) != (d >= need):
            return ("class", "a %s %s container %s" % (o["class"], "lacks the" if d >= need else "has a", k))
    fin_faces = o["faces"] if o["faces"] is not None else []
    fin_cells = o["cells"] if o["cells"] is not None else []
    fin_edges = o["edges"] if o["edges"] is not None else []
    # ---- faces completed from cells
    if fin_cells != cells:
        return ("cells", "cells changed: %s -> %s" % (cells, fin_cells))
    if d >= 2:
        if fin_faces[:len(faces)] != faces:
            return ("faces", "declared faces are not kept at the front of the face list")
        added = fin_faces[len(faces):]
        declared = {skey(f) for f in faces}
        cellkeys = []
        for c in cells:
            cellkeys += cell_face_sets(c)
        if cf and cells:
            for c in cells:
                for i, k in enumerate(cell_face_sets(c)):
                    if k not in {skey(f) for f in fin_faces}:
                        return ("faces-from-cells", "face %d of cell %s (vertices %s) is missing from the faces" % (i, c, list(k)))
            ak = [skey(f) for f in added]
            if len(set(ak)) != len(ak) or any(k in declared for k in ak):
                return ("faces-from-cells", "a face shared by two cells (or already declared) was added twice: %s" % added)
            if any(k not in cellkeys for k in ak):
                return ("faces-from-cells", "an added face is not a face of any cell: %s" % added)
        elif added:
            return ("faces-from-cells", "faces were added although completion is off / there is no cell: %s" % added)
    # ---- edges
    if d >= 1:
        if not o["shape_ok"]:
            return ("edge-shape", "an edge is not stored as a 2-tuple")
        for e in fin_edges:
            if not (0 <= e[0] < e[1] < N):
                return ("edge-range", "edge %s is not (a,b) with 0 <= a < b < %d" % (e, N))
        decl = [list(skey(e)) for e in edges if valid(e)]
        new = []
        if ce and fin_faces:
            seen = {skey(e) for e in edges}
            for f in fin_faces:
                for i in range(len(f)):
                    s = skey((f[i], f[(i + 1) % len(f)]))
                    if s not in seen:
                        seen.add(s)
                        if valid(s):
                            new.append(list(s))
        if fin_edges != decl + new:
            return ("edge-list", "edges are %s, expected the declared valid edges %s followed by each new face side once %s"
                    % (fin_edges, decl, new))
        # ---- attributes: a value survives iff its edge survives, at the compacted index
        kept = [i for i, e in enumerate(edges) if valid(e)]
        names = [a["name"] for a in o["eattrs"]]
        for a in case["eattrs"]:
            if a["name"] not in names:
                return ("attr-lost", "edge attribute %s disappeared" % a["name"])
            oa = o["eattrs"][names.index(a["name"])]
            want = [attr_value(a, i) for i in kept] + [0 if a["default"] is None else int(a["default"])] * len(new)
            if oa["vals"] != want:
                return ("attr-values/%s" % ("dense" if a["dense"] else "sparse"),
                        "edge attribute %s (%s, default %s) reads %s on the final edges, the surviving edges' values are %s"
                        % (a["name"], "dense" if a["dense"] else "sparse", a["default"], oa["vals"], want))
            if oa["keys"] is not None and any(k >= len(fin_edges) and k >= len(edges) for k in oa["keys"]):
                return ("attr-keys", "attribute %s holds a key %s beyond the edge list" % (a["name"], oa["keys"]))
        declared_names = [a["name"] for a in case["eattrs"]]
        for n in names:
            if n not in declared_names and n != "hard_edges":
                return ("attr-extra", "unexpected edge attribute %s" % n)
        # ---- hard edges: exactly the declared edges
        if "hard_edges" not in declared_names:
            if ce and fin_faces:
                if "hard_edges" not in names:
                    return ("hard-edges", "no hard_edges attribute although edges were completed from faces")
                hv = o["eattrs"][names.index("hard_edges")]["vals"]
                want = [1] * len(decl) + [0] * len(new)
                if hv != want:
                    return ("hard-edges", "hard_edges flags are %s, the declared edges are exactly the first %d of %d" % (hv, len(decl), len(hv)))
            elif "hard_edges" in names:
                hv = o["eattrs"][names.index("hard_edges")]["vals"]
                if any(hv[len(decl):]):
                    return ("hard-edges", "an edge the caller did not declare is flagged hard: %s" % hv)
    # ---- corner records
    if d >= 2:
        we = [v for f in fin_faces for v in f]
        wa = [i for i, f in enumerate(fin_faces) for _ in f]
        if o["fc"] != [we, wa]:
            return ("face-corners", "face corners are %s, expected one (vertex, face) record per incidence %s" % (o["fc"], [we, wa]))
    if d >= 3:
        we = [v for c in fin_cells for v in c]
        wa = [i for i, c in enumerate(fin_cells) for _ in c]
        if o["cc"] != [we, wa]:
            return ("cell-corners", "cell corners are %s, expected %s" % (o["cc"], [we, wa]))
        if all(len(c) in (4, 8) for c in fin_cells):
            el, ad = o["cf"]
            wa = [i for i, c in enumerate(fin_cells) for _ in range(4 if len(c) == 4 else 6)]
            if ad != wa:
                return ("cell-faces-owner", "cell_faces owners are %s, expected %s" % (ad, wa))
            if len(el) != len(wa):
                return ("cell-faces", "cell_faces holds %d face ids for %d cell-face incidences" % (len(el), len(wa)))
            off = 0
            for c in fin_cells:
                ks = cell_face_sets(c)
                got = []
                for j in range(len(ks)):
                    fid = el[off + j]
                    if not (0 <= fid < len(fin_faces)):
                        return ("cell-faces", "cell_faces id %d out of range" % fid)
                    got.append(skey(fin_faces[fid]))
                if len(c) == 4:
                    if got != ks:
                        return ("cell-faces", "cell %s: cell_faces lists faces %s, face i must be the one opposite vertex i: %s" % (c, got, ks))
                elif sorted(got) != sorted(ks):
                    return ("cell-faces", "cell %s: cell_faces lists faces %s, its six quads are %s" % (c, got, ks))
                off += len(ks)
    return None


CLEARS = {"clear_fc", "clear_cc", "clear_cf"}


def edited_input(case, prev, edits):
    """The raw data a rebuild starts from: what the previous mesh exposed, after the edits (brute force on plain lists).
    Returned in the shape of a generated case, so that the very same restatement (check_stage0) applies to the rebuild."""
    verts = [list(v) for v in prev["verts"]]
    edges = [list(e) for e in (prev["edges"] or [])]
    faces = [list(f) for f in (prev["faces"] or [])]
    cells = [list(c) for c in (prev["cells"] or [])]
    attrs = []
    for a in prev["eattrs"]:
        if a["kind"] == "dense":
            attrs.append({"name": a["name"], "dense": True, "default": a["default"], "vals": list(a["vals"])})
        else:
            attrs.append({"name": a["name"], "dense": False, "default": a["default"],
                          "set": [[k, a["vals"][k]] for k in a["keys"] if k < len(a["vals"])]})
    for e in edits:
        k = e[0]
        if k == "clear_edges":
            edges, attrs = [], []
        elif k == "clear_faces":
            faces = []
        elif k == "clear_cells":
            cells = []
        elif k == "add_vertex":
            verts.append(list(e[1]))
        elif k == "add_edge":
            edges.append(list(e[1]))
            for a in attrs:
                if a["dense"]:
                    a["vals"].append(0 if a["default"] is None else a["default"])
        elif k == "add_face":
            faces.append(list(e[1]))
        elif k == "add_cell":
            cells.append(list(e[1]))
        elif k == "set_face" and faces:
            faces[e[1] % len(faces)] = list(e[2])
        elif k == "set_cell" and cells:
            cells[e[1] % len(cells)] = list(e[2])
        elif k == "pop_face" and faces:
            faces.pop()
        elif k == "pop_cell" and cells:
            cells.pop()
    return {"verts": verts, "edges": edges, "faces": faces, "cells": cells, "eattrs": attrs, "cfg": case["cfg"],
            "dim": case.get("dim")}


def oracle(case, res):
    base = None
    for route in case["routes"]:
        x = res.get(route)
        if x is None or "crash" in x:
            return ("driver", "route %s: %s" % (route, (x or {}).get("crash", "no result")))
        st = x["stages"]
        m = check_stage0(case, st[0], route)
        if m:
            return (m[0], "[%s rows] %s" % (route, m[1]))
        edits = case.get("edits") or []
        for i, s in enumerate(st[1:], 1):
            es = edits[i - 1] if i - 1 < len(edits) else []
            prev = st[i - 1]
            if "err" in prev:
                break
            if all(e[0] in CLEARS for e in es) and json.dumps(s, sort_keys=True) != json.dumps(prev, sort_keys=True):
                # nothing but (possibly) emptied corner containers: building again must change nothing
                diff = [k for k in s if s.get(k) != prev.get(k)] if "err" not in s else ["raised " + s["err"]]
                return ("rebuild/" + (diff[0] if diff else "?"),
                        "[%s rows] building again from the built mesh (pass %d, edits %s) changed %s: %s -> %s"
                        % (route, i, es, diff, {k: prev.get(k) for k in diff}, {k: s.get(k) for k in diff}))
            # every rebuild: the whole property sentence, recomputed by brute force from the edited data
            m = check_stage0(edited_input(case, prev, es), s, route)
            if m:
                return ("rebuild-" + m[0], "[%s rows] pass %d after edits %s: %s" % (route, i, es, m[1]))
        for q, a in zip(case.get("script", []), x["script"]):
            if a[0] == "other":
                return ("query-type", "[%s rows] query %s answered %s" % (route, q, a[1]))
        if route == "from_arrays" and "err" in st[0]:
            continue   # from_arrays legitimately rejects what the raw route normalises (index >= n, width > 3)
        if route != "from_arrays" or len(case["verts"][0] if case["verts"] else [0, 0, 0]) == 3:
            nomsg = [{k: v for k, v in s.items() if k != "msg"} for s in x["stages"]]
            sig = json.dumps({"stages": nomsg, "script": x["script"]}, sort_keys=True)
            if base is None:
                base = (route, sig, x)
            elif sig != base[1]:
                what = "later queries" if json.dumps(x["script"]) != json.dumps(base[2]["script"]) else "stages"
                detail = ""
                if what == "later queries":
                    for q, a, b2 in zip(case["script"], base[2]["script"], x["script"]):
                        if a != b2:
                            detail = " query %s: %s vs %s" % (q, a, b2)
                            break
                return ("container-dependence/" + what, "%s rows and %s rows give different %s.%s" % (base[0], route, what, detail))
    return None
