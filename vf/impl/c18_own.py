"""C18: the harness's OWN geometry (numpy only, nothing imported from mouette): corner cotangents, the dual cotangent edge
weights, face bases with the feature edge first, parallel transport between faces, and from them the connection Laplacians
on faces (Nabla^H D Nabla) and on vertices.  The reference operator of the oracle and the weights handed to the Coq model
come from here, never from the library's own weight functions.

Inputs taken from the observation: the stored edge list, the feature-edge set (feature detection is another property's
business) and, for the vertex-based field only, the transport angles of SurfaceConnectionVertices (they rescale corner
angles around each vertex; the oracle re-derives everything else)."""
import math

import numpy as np


def corner_cots(V, F):
    """cotangent of the angle at each corner of each triangle: <u,v> / |u x v|"""
    V = np.asarray(V, dtype=float)
    out = []
    for f in F:
        row = []
        for k in range(3):
            p, q, r = V[f[k]], V[f[(k + 1) % 3]], V[f[(k + 2) % 3]]
            u, v = q - p, r - p
            row.append(float(u @ v) / float(np.linalg.norm(np.cross(u, v))))
        out.append(row)
    return out


def half_edges(F):
    he = {}
    for t, f in enumerate(F):
        for k in range(3):
            he[(f[k], f[(k + 1) % 3])] = (t, k)
    return he


def edge_cot_sums(V, F, edges):
    """for every stored edge (a, b): cot of the angle opposite to it in the face left of a->b + the same right of it (0 where
    there is no face) -> the SIGNED sum; negative on a non-Delaunay interior edge"""
    cots = corner_cots(V, F)
    he = half_edges(F)
    out = []
    for a, b in edges:
        s = 0.0
        for key in ((a, b), (b, a)):
            if key in he:
                t, k = he[key]
                s += cots[t][(k + 2) % 3]      # the corner opposite to the edge f[k] -> f[k+1]
        out.append(s)
    return out


def edge_weights(V, F, edges):
    """cotan_edge_diagonal as the library documents its use: 1/(cot a + cot b), signed; 1e8 where the sum vanishes"""
    return [1e8 if abs(s) < 1e-8 else 1.0 / s for s in edge_cot_sums(V, F, edges)]


def non_delaunay_edges(V, F, edges):
    he = half_edges(F)
    return [k for k, ((a, b), s) in enumerate(zip(edges, edge_cot_sums(V, F, edges))) if (a, b) in he and (b, a) in he and s < -1e-9]


def face_bases(V, F, edges, feat):
    """X along the first feature edge of the face (cyclic order AB, BC, CA), else along its first edge; Z the normal; Y = Z x X"""
    V = np.asarray(V, dtype=float)
    eid = {}
    for k, (a, b) in enumerate(edges):
        eid[(a, b)] = eid[(b, a)] = k
    fe = set(feat)
    out = []
    for f in F:
        rot = 0
        for k in range(3):
            if eid.get((f[k], f[(k + 1) % 3])) in fe:
                rot = k
                break
        a, b, c = f[rot], f[(rot + 1) % 3], f[(rot + 2) % 3]
        X = V[b] - V[a]
        X /= np.linalg.norm(X)
        Z = np.cross(X, V[c] - V[a])
        Z /= np.linalg.norm(Z)
        Y = np.cross(Z, X)
        out.append((X, Y / np.linalg.norm(Y)))
    return out


def lap_faces(V, F, edges, feat, order, cotan, bases=None):
    """sum over the interior edges e = (a, b), T1 left of a->b, T2 right: w_e d_e^H d_e with d_e = -1 at T1 and
    e^{i order (angle of e in T1 - angle of e in T2)} at T2.  `bases`: the tangent bases the field is expressed in (a gauge the
    implementation is free to choose; validated as direct orthonormal bases of the face planes by the oracle); default: X along
    the first feature edge"""
    V = np.asarray(V, dtype=float)
    B = face_bases(V, F, edges, feat) if bases is None else [(np.asarray(X, dtype=float), np.asarray(Y, dtype=float)) for X, Y in bases]
    he = half_edges(F)
    w = edge_weights(V, F, edges) if cotan else [1.0] * len(edges)
    n = len(F)
    L = np.zeros((n, n), dtype=complex)
    for k, (a, b) in enumerate(edges):
        if (a, b) not in he or (b, a) not in he:
            continue
        t1, t2 = he[(a, b)][0], he[(b, a)][0]
        E = V[b] - V[a]
        a1 = math.atan2(float(E @ B[t1][1]), float(E @ B[t1][0]))
        a2 = math.atan2(float(E @ B[t2][1]), float(E @ B[t2][0]))
        r = complex(math.cos(order * (a1 - a2)), math.sin(order * (a1 - a2)))
        d = {t1: -1.0 + 0j, t2: r}
        for i in d:
            for j in d:
                L[i, j] += w[k] * d[i].conjugate() * d[j]
    return L


def partition(n, F, edges, feat, elem):
    """constrained elements as the property words them: faces next to a feature edge / end points of the feature edges"""
    fixed = set()
    if elem == "faces":
        he = half_edges(F)
        for e in feat:
            a, b = edges[e]
            for key in ((a, b), (b, a)):
                if key in he:
                    fixed.add(he[key][0])
    else:
        for e in feat:
            fixed.update(edges[e])
    return sorted(fixed), [i for i in range(n) if i not in fixed]


def harmonic_extension(L, var0, fixed, free):
    """z with z = var0 on the constrained elements and (L z)_i = 0 on the free ones (dense solve); None if L_II is too ill-conditioned"""
    z = np.array(var0, dtype=complex).copy()
    if not free:
        return z
    LII = L[np.ix_(free, free)]
    rhs = -L[np.ix_(free, fixed)] @ z[fixed] if fixed else np.zeros(len(free), dtype=complex)
    sv = np.linalg.svd(LII, compute_uv=False)
    if sv[-1] <= 1e-9 * sv[0]:
        return None
    z[free] = np.linalg.solve(LII, rhs)
    return z


def lap_vertices(V, F, order, cotan, transport):
    """per face (p, q, r) and per edge (i, j) opposite to the third corner with weight v = cot(third corner)/2 (or 1/2):
    v on the two diagonal entries, -v e^{i order (t_ij - t_ji - pi)} at (i, j) and its conjugate at (j, i)"""
    cots = corner_cots(V, F)
    n = len(V)
    L = np.zeros((n, n), dtype=complex)
    for t, f in enumerate(F):
        for k in range(3):
            i, j = f[k], f[(k + 1) % 3]
            v = cots[t][(k + 2) % 3] / 2 if cotan else 0.5
            L[i, i] += v
            L[j, j] += v
            u = (transport[(i, j)] * transport[(j, i)].conjugate() * (-1)) ** order
            L[i, j] += -v * u
            L[j, i] += -v * u.conjugate()
    return L
