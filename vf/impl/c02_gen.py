"""Seeded structured raw-input generators for C02 (small meshes + a malformed stream) and query scripts."""

TET5 = [(0, 1, 3, 4), (1, 2, 3, 6), (1, 4, 5, 6), (3, 4, 6, 7), (1, 3, 4, 6)]   # 5-tet cube over 0..7 (bit coords)
TET6 = [(0, 1, 3, 7), (0, 3, 2, 7), (0, 2, 6, 7), (0, 6, 4, 7), (0, 4, 5, 7), (0, 5, 1, 7)]


def cube_verts():
    return [[(i >> 0) & 1, (i >> 1) & 1, (i >> 2) & 1] for i in range(8)]


def grid(nu, nv, tri):
    verts = [[i, j, 0] for i in range(nu) for j in range(nv)]
    faces = []
    for i in range(nu - 1):
        for j in range(nv - 1):
            a, b, c, d = i * nv + j, (i + 1) * nv + j, (i + 1) * nv + j + 1, i * nv + j + 1
            if tri:
                faces += [[a, b, c], [a, c, d]]
            else:
                faces.append([a, b, c, d])
    return verts, faces


def perm_tet(rng, c):
    c = list(c)
    rng.shuffle(c)
    return c


def seed_mesh(rng):
    """(kind, verts, faces, cells, wellformed) - wellformed: manifold-ish input on which connectivity queries make sense"""
    k = rng.choice(["tri", "tri", "quad", "poly", "fan", "tet1", "tet2", "tet5", "tet6", "hex1", "hex2", "mixed",
                    "tetchain", "line", "points", "soup", "cellsoup"])
    if k in ("tri", "quad"):
        nu, nv = rng.randint(2, 4), rng.randint(2, 4)
        v, f = grid(nu, nv, k == "tri")
        if rng.random() < 0.3 and len(f) > 1:
            f.pop(rng.randrange(len(f)))
        return k, v, f, [], True
    if k == "poly":
        n = rng.choice([1, 2, 3, 4, 5, 6, 7])
        v = [[i, i * i % 5, 0] for i in range(max(n, 3))]
        return k, v, [list(range(n))], [], n >= 3
    if k == "fan":
        n = rng.randint(3, 6)
        v = [[0, 0, 0]] + [[i + 1, (i * 3) % 4 + 1, 0] for i in range(n)]
        closed = rng.random() < 0.5
        f = [[0, 1 + i, 1 + (i + 1) % n] for i in range(n if closed else n - 1)]
        return k, v, f, [], True
    if k == "tet1":
        return k, [[0, 0, 0], [1, 0, 0], [0, 1, 0], [0, 0, 1]], [], [perm_tet(rng, (0, 1, 2, 3))], True
    if k == "tet2":
        v = [[0, 0, 0], [1, 0, 0], [0, 1, 0], [0, 0, 1], [1, 1, 1]]
        return k, v, [], [perm_tet(rng, (0, 1, 2, 3)), perm_tet(rng, (1, 2, 3, 4))], True
    if k in ("tet5", "tet6"):
        cs = [perm_tet(rng, c) for c in (TET5 if k == "tet5" else TET6)]
        if rng.random() < 0.3:
            cs.pop(rng.randrange(len(cs)))
        return k, cube_verts(), [], cs, True
    if k == "hex1":
        return k, cube_verts(), [], [[0, 1, 3, 2, 4, 5, 7, 6]], True
    if k == "hex2":
        v = [[x, y, z] for z in range(2) for y in range(2) for x in range(3)]
        # vertex id = x + 3*y + 6*z
        h = lambda x0: [x0, x0 + 1, x0 + 4, x0 + 3, x0 + 6, x0 + 7, x0 + 10, x0 + 9]
        return k, v, [], [h(0), h(1)], True
    if k == "mixed":
        v = cube_verts() + [[2, 0, 0], [3, 3, 3], [2, 1, 1], [5, 0, 1]]
        cs = [[0, 1, 3, 2, 4, 5, 7, 6], perm_tet(rng, (8, 9, 10, 11))]
        if rng.random() < 0.5:
            cs.append(perm_tet(rng, (1, 9, 10, 11)))
        rng.shuffle(cs)
        return k, v, [], cs, False
    if k == "tetchain":
        n = rng.randint(2, 5)
        v = [[i, (i * i) % 3, (i * 7) % 4] for i in range(n + 3)]
        return k, v, [], [perm_tet(rng, (i, i + 1, i + 2, i + 3)) for i in range(n)], True
    if k == "line":
        n = rng.randint(2, 6)
        return k, [[i, 0, 0] for i in range(n)], [], [], True
    if k == "points":
        n = rng.randint(0, 4)
        return k, [[i, 1, 2] for i in range(n)], [], [], True
    if k == "soup":
        nvv = rng.randint(1, 7)
        v = [[i, 2 * i % 3, i % 2] for i in range(nvv)]
        f = []
        for _ in range(rng.randint(1, 5)):
            ar = rng.choice([1, 2, 3, 3, 3, 4, 4, 5])
            f.append([rng.randint(-1 if rng.random() < 0.1 else 0, nvv + (1 if rng.random() < 0.15 else -1)) for _ in range(ar)])
        return k, v, f, [], False
    # cellsoup
    nvv = rng.randint(4, 9)
    v = [[i, 2 * i % 3, i % 2] for i in range(nvv)]
    cs = []
    for _ in range(rng.randint(1, 4)):
        ar = rng.choice([4, 4, 4, 8])
        if rng.random() < 0.7 and nvv >= ar:
            cs.append(rng.sample(range(nvv), ar))
        else:
            cs.append([rng.randrange(nvv) for _ in range(ar)])
    return k, v, [], cs, False


def face_sides(faces):
    out = []
    for f in faces:
        n = len(f)
        for i in range(n):
            out.append((f[i], f[(i + 1) % n]))
    return out


TET_T = lambda c: [(c[1], c[3], c[2]), (c[0], c[2], c[3]), (c[3], c[1], c[0]), (c[0], c[1], c[2])]
HEX_T = lambda c: [(c[0], c[1], c[2], c[3]), (c[4], c[5], c[6], c[7]), (c[0], c[3], c[7], c[4]),
                   (c[0], c[1], c[5], c[4]), (c[1], c[2], c[6], c[5]), (c[2], c[3], c[7], c[6])]


def gen_case(rng, quick=True):
    kind, verts, faces, cells, wf = seed_mesh(rng)
    nv = len(verts)
    malformed = False
    # declared faces next to cells: some of the cells' faces (any rotation / orientation), sometimes twice
    if cells and rng.random() < 0.45:
        cand = []
        for c in cells:
            cand += TET_T(c) if len(c) == 4 else HEX_T(c)
        for _ in range(rng.randint(1, 4)):
            f = list(rng.choice(cand))
            r = rng.randrange(len(f))
            f = f[r:] + f[:r]
            if rng.random() < 0.5:
                f.reverse()
            faces.append(f)
        if rng.random() < 0.2:
            faces.append([rng.randrange(max(nv, 1)) for _ in range(3)])
            wf = False
    # declared edges
    edges = []
    sides = face_sides(faces)
    mode = rng.choice(["none", "none", "some", "some", "all", "chords", "bad", "bad"])
    if kind == "line":
        edges = [[i, i + 1] if rng.random() < 0.6 else [i + 1, i] for i in range(nv - 1)]
        if rng.random() < 0.3 and nv > 2:
            edges.append([nv - 1, 0])
    if mode in ("some", "all", "bad") and sides:
        for (a, b) in sides:
            if mode == "all" or rng.random() < 0.35:
                edges.append([a, b] if rng.random() < 0.5 else [b, a])
    if mode in ("chords", "bad") and nv >= 2:
        for _ in range(rng.randint(1, 3)):
            edges.append([rng.randrange(nv), rng.randrange(nv)])
    if mode == "bad":
        malformed = True
        for _ in range(rng.randint(1, 4)):
            t = rng.choice(["loop", "oor", "neg", "dup", "eqN"])
            if t == "loop":
                x = rng.randrange(max(nv, 1))
                e = [x, x]
            elif t == "oor":
                e = [rng.randrange(max(nv, 1)), nv + rng.randint(0, 3)]
            elif t == "eqN":
                e = [nv, rng.randrange(max(nv, 1))]
            elif t == "neg":
                e = [-rng.randint(1, 2), rng.randrange(max(nv, 1))]
            else:
                e = list(rng.choice(edges)) if edges else [0, 0]
                if rng.random() < 0.5:
                    e.reverse()
            edges.insert(rng.randint(0, len(edges)), e)
    rng.random() < 0.5 and rng.shuffle(edges)
    # edge attributes
    eattrs = []
    if edges and rng.random() < 0.55:
        for j in range(rng.choice([1, 1, 2])):
            ty = rng.choice(["int", "int", "bool"])
            name = rng.choice(["w", "w", "label", "hard_edges"]) if j == 0 else "second"
            if any(a["name"] == name for a in eattrs):
                continue
            default = None if rng.random() < 0.6 else (rng.randint(1, 9) if ty == "int" else 1)
            rv = (lambda: rng.randint(-3, 12)) if ty == "int" else (lambda: rng.randint(0, 1))
            if rng.random() < 0.5:
                eattrs.append({"name": name, "dense": True, "default": default, "type": ty,
                               "vals": [rv() for _ in edges]})
            else:
                idx = [i for i in range(len(edges)) if rng.random() < 0.6]
                rng.shuffle(idx)
                eattrs.append({"name": name, "dense": False, "default": default, "type": ty,
                               "set": [[i, rv()] for i in idx]})
    cfg = rng.choice([[True, True]] * 7 + [[False, True], [True, False], [False, False]])
    if cells and not cfg[0] and rng.random() < 0.75:
        # completion off: supply the cells' faces (once each) so that construction is possible
        have = {tuple(sorted(f)) for f in faces}
        for c in cells:
            for f in (TET_T(c) if len(c) == 4 else HEX_T(c)):
                if tuple(sorted(f)) not in have:
                    have.add(tuple(sorted(f)))
                    faces.append(list(f))
    dim = None if rng.random() < 0.85 else rng.randint(0, 3)
    vdim = 3
    routes = ["list", "tuple", "numpy"]
    if rng.random() < 0.3:
        routes.append("append")
    regular = all(len({len(r) for r in rows}) <= 1 for rows in (faces, cells)) and nv > 0
    if regular and not eattrs and dim is None and rng.random() < 0.6:
        routes.append("from_arrays")
        if rng.random() < 0.4 and not cells:
            vdim = rng.choice([1, 2])
            verts = [v[:vdim] for v in verts]
            routes = ["from_arrays"]   # raw containers are given 3-D points; only from_arrays pads
    rewraps = rng.choice([0, 1, 1, 2])
    edits = gen_edits(rng, rewraps, len(verts), faces, cells) if vdim == 3 else [[] for _ in range(rewraps)]
    case = {"edits": edits, "kind": kind, "verts": verts, "edges": edges, "faces": faces, "cells": cells, "eattrs": eattrs,
            "cfg": cfg, "dim": dim, "routes": routes, "rewraps": rewraps, "malformed": malformed or not wf,
            "script": []}
    if wf and cfg == [True, True]:
        case["script"] = gen_script(rng, case)
    return case


CLEAR3 = [["clear_fc"], ["clear_cc"], ["clear_cf"]]


def gen_edits(rng, rewraps, nv, faces, cells):
    """per rebuild: the edits applied to RawMeshData(mesh) before it is built again. Structural edits come with the
    clear() of the corner containers, as the subdivision editors do; mesh.save-like clears of whole containers; clears
    alone; a declared edge added."""
    out = []
    nv = max(nv, 1)
    has_cells, has_faces = bool(cells), bool(faces)
    for _ in range(rewraps):
        kind = rng.choice(["none", "none", "none", "clears", "volume", "surface", "save", "edge", "faces-noclear"])
        es = []
        if kind == "clears":
            es = [e for e in CLEAR3 if rng.random() < 0.6]
            rng.shuffle(es)
        elif kind == "volume":
            es = [list(e) for e in CLEAR3]
            for _ in range(rng.randint(1, 3)):
                t = rng.choice(["add", "add", "set", "pop", "vertex"])
                if t == "vertex":
                    es.append(["add_vertex", [rng.randint(0, 3), rng.randint(0, 3), rng.randint(0, 3)]])
                    nv += 1
                elif t == "pop":
                    es.append(["pop_cell"])
                else:
                    c = rng.sample(range(nv), 4) if nv >= 4 else [rng.randrange(nv) for _ in range(4)]
                    es.append(["add_cell", c] if t == "add" else ["set_cell", rng.randrange(8), c])
            has_cells = True
        elif kind == "surface":
            es = [list(e) for e in (CLEAR3 if (has_cells or rng.random() < 0.5) else CLEAR3[:1])]
            for _ in range(rng.randint(1, 3)):
                t = rng.choice(["add", "add", "set", "pop", "vertex"])
                if t == "vertex":
                    es.append(["add_vertex", [rng.randint(0, 3), rng.randint(0, 3), 0]])
                    nv += 1
                elif t == "pop":
                    es.append(["pop_face"])
                else:
                    ar = rng.choice([3, 3, 4])
                    f = rng.sample(range(nv), ar) if nv >= ar else [rng.randrange(nv) for _ in range(ar)]
                    es.append(["add_face", f] if t == "add" else ["set_face", rng.randrange(8), f])
            has_faces = True
        elif kind == "faces-noclear":
            # faces appended (or the last one removed) WITHOUT clearing face_corners: prepare() must notice by the count
            for _ in range(rng.randint(1, 2)):
                t = rng.choice(["add", "add", "vertex", "pop"])
                if t == "vertex":
                    es.append(["add_vertex", [rng.randint(0, 3), rng.randint(0, 3), 0]])
                    nv += 1
                elif t == "pop" and not has_cells:
                    es.append(["pop_face"])
                else:
                    ar = rng.choice([3, 3, 4])
                    es.append(["add_face", rng.sample(range(nv), ar) if nv >= ar else [rng.randrange(nv) for _ in range(ar)]])
                    has_faces = True
        elif kind == "save":
            w = rng.choice(["edges", "faces", "cells"])
            es = {"edges": [["clear_edges"]], "faces": [["clear_faces"], ["clear_fc"]],
                  "cells": [["clear_cells"], ["clear_cc"], ["clear_cf"]]}[w]
            if w == "faces" and has_cells:
                es = es + [["clear_cf"]]
        elif kind == "edge":
            a, b = rng.randrange(nv), rng.randint(-1, nv + 1)
            es = [["add_edge", [a, b]]]
        out.append(es)
    return out


def gen_script(rng, case):
    """Connectivity queries valid for the class the case will get (indices within range of the *input* counts)."""
    nv = len(case["verts"])
    s = []
    rv = lambda: rng.randrange(nv) if nv else 0
    if case["cells"]:
        nc = len(case["cells"])
        tet = all(len(c) == 4 for c in case["cells"])
        for _ in range(6):
            c = rng.randrange(nc)
            q = rng.choice(["cell_to_face", "vertex_to_cell", "cell_to_edge", "face_to_cells", "in_cell_index",
                            "edge_to_cell", "in_cell_face_index", "cell_to_cell", "is_tetrahedral", "boundary_faces",
                            "face_id", "edge_id"])
            if q in ("cell_to_face", "cell_to_edge"):
                s.append(["sorted", q, c] if not tet or q == "cell_to_edge" else [q, c])
            elif q == "vertex_to_cell":
                s.append(["sorted", q, rv()])
            elif q == "face_to_cells":
                s.append(["sorted", q, rng.randrange(4)])
            elif q == "edge_to_cell":
                s.append(["sorted", q, rng.randrange(6)])
            elif q == "in_cell_index":
                s.append([q, c, rv()])
            elif q == "in_cell_face_index":
                s.append([q, c, rng.randrange(4)])
            elif q == "cell_to_cell" and tet:
                s.append(["sorted", q, c])
            elif q in ("is_tetrahedral",):
                s.append([q])
            elif q == "boundary_faces":
                s.append([q])
            elif q == "face_id":
                cc = case["cells"][c]
                f = TET_T(cc)[rng.randrange(4)] if len(cc) == 4 else HEX_T(cc)[rng.randrange(6)]
                s.append([q] + list(f))
            elif q == "edge_id":
                cc = case["cells"][c]
                s.append([q, cc[0], cc[1]])
    elif case["faces"]:
        nf = len(case["faces"])
        for _ in range(6):
            f = rng.randrange(nf)
            F = case["faces"][f]
            q = rng.choice(["face_to_vertices", "face_to_edges", "edge_id", "vertex_to_faces", "vertex_to_vertices",
                            "face_id", "edge_to_faces", "boundary_edges", "is_vertex_on_border", "face_to_faces",
                            "in_face_index", "is_triangular", "ith_vertex_of_face"])
            if q in ("face_to_vertices", "face_to_edges"):
                s.append([q, f])
            elif q == "face_to_faces":
                s.append(["sorted", q, f])
            elif q == "edge_id":
                s.append([q, F[0], F[1 % len(F)]])
            elif q in ("vertex_to_faces", "vertex_to_vertices"):
                s.append(["sorted", q, rv()])
            elif q == "face_id":
                s.append([q] + list(F))
            elif q == "edge_to_faces":
                s.append([q, F[0], F[1 % len(F)]])
            elif q == "boundary_edges":
                s.append([q])
            elif q == "is_vertex_on_border":
                s.append([q, rv()])
            elif q == "in_face_index":
                s.append([q, f, rv()])
            elif q == "is_triangular":
                s.append([q])
            elif q == "ith_vertex_of_face":
                s.append([q, f, rng.randrange(len(F))])
    elif case["edges"]:
        for _ in range(4):
            q = rng.choice(["vertex_to_vertices", "edge_id", "vertex_to_edges"])
            if q == "edge_id":
                e = rng.choice(case["edges"])
                s.append([q, e[0], e[1]])
            else:
                s.append(["sorted", q, rv()])
    return s
