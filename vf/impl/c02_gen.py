"""Seeded structured raw-input generators for C02 (small meshes + a malformed stream) and query scripts."""

TET5 = [(0, 1, 3, 4), (1, 2, 3, 6), (1, 4, 5, 6), (3, 4, 6, 7), (1, 3, 4, 6)]   # 5-tet cube over 0..7 (bit coords)
TET6 = [(0, 1, 3, 7), (0, 3, 2, 7), (0, 2, 6, 7), (0, 6, 4, 7), (0, 4, 5, 7), (0, 5, 1, 7)]


def cube_verts():
    return [[(i >> 0) & 1, (i >> 1) & 1, (i >> 2) & 1] for i in range(8)]


def grid(nu, nv, tri):
    verts = [[i, j, 0] for i in range(nu) for j in range(nv)]
    faces = []
    for i in range(nu - 1):
        for j in range(nv - 1):
            a, b, c, d = i * nv + j, (i + 1) * nv + j, (i + 1) * nv + j + 1, i * nv + j + 1
            if tri:
                faces += [[a, b, c], [a, c, d]]
            else:
                faces.append([a, b, c, d])
    return verts, faces


def perm_tet(rng, c):
    c = list(c)
    rng.shuffle(c)
    return c


def seed_mesh(rng):
    """(kind, verts, faces, cells, wellformed) - wellformed: manifold-ish input on which connectivity queries make sense"""
    k = rng.choice(["tri", "tri", "quad", "poly", "fan", "tet1", "tet2", "tet5", "tet6", "hex1", "hex2", "mixed",
                    "tetchain", "line", "points", "soup", "cellsoup"] * 3 + ["bigindex"])
    if k == "bigindex":
        # indices beyond 256 (small-int identity, uint8 range): a strip of triangles / one tetrahedron among 300 vertices
        n = 300
        v = [[i % 17, i // 17, (i * 7) % 5] for i in range(n)]
        base = rng.choice([250, 255, 256, 257, 290])
        if rng.random() < 0.5:
            return k, v, [[base, base + 1, base + 2], [base + 1, base + 3, base + 2], [0, base, base + 2]], [], True
        return k, v, [], [perm_tet(rng, (base, base + 1, base + 2, base + 3)), perm_tet(rng, (base + 1, base + 2, base + 3, 0))], True
    if k in ("tri", "quad"):
        nu, nv = rng.randint(2, 4), rng.randint(2, 4)
        v, f = grid(nu, nv, k == "tri")
        if rng.random() < 0.3 and len(f) > 1:
            f.pop(rng.randrange(len(f)))
        return k, v, f, [], True
    if k == "poly":
        n = rng.choice([1, 2, 3, 4, 5, 6, 7])
        v = [[i, i * i % 5, 0] for i in range(max(n, 3))]
        return k, v, [list(range(n))], [], n >= 3
    if k == "fan":
        n = rng.randint(3, 6)
        v = [[0, 0, 0]] + [[i + 1, (i * 3) % 4 + 1, 0] for i in range(n)]
        closed = rng.random() < 0.5
        f = [[0, 1 + i, 1 + (i + 1) % n] for i in range(n if closed else n - 1)]
        return k, v, f, [], True
    if k == "tet1":
        return k, [[0, 0, 0], [1, 0, 0], [0, 1, 0], [0, 0, 1]], [], [perm_tet(rng, (0, 1, 2, 3))], True
    if k == "tet2":
        v = [[0, 0, 0], [1, 0, 0], [0, 1, 0], [0, 0, 1], [1, 1, 1]]
        return k, v, [], [perm_tet(rng, (0, 1, 2, 3)), perm_tet(rng, (1, 2, 3, 4))], True
    if k in ("tet5", "tet6"):
        cs = [perm_tet(rng, c) for c in (TET5 if k == "tet5" else TET6)]
        if rng.random() < 0.3:
            cs.pop(rng.randrange(len(cs)))
        return k, cube_verts(), [], cs, True
    if k == "hex1":
        return k, cube_verts(), [], [[0, 1, 3, 2, 4, 5, 7, 6]], True
    if k == "hex2":
        v = [[x, y, z] for z in range(2) for y in range(2) for x in range(3)]
        # vertex id = x + 3*y + 6*z
        h = lambda x0: [x0, x0 + 1, x0 + 4, x0 + 3, x0 + 6, x0 + 7, x0 + 10, x0 + 9]
        return k, v, [], [h(0), h(1)], True
    if k == "mixed":
        v = cube_verts() + [[2, 0, 0], [3, 3, 3], [2, 1, 1], [5, 0, 1]]
        cs = [[0, 1, 3, 2, 4, 5, 7, 6], perm_tet(rng, (8, 9, 10, 11))]
        if rng.random() < 0.5:
            cs.append(perm_tet(rng, (1, 9, 10, 11)))
        rng.shuffle(cs)
        return k, v, [], cs, False
    if k == "tetchain":
        n = rng.randint(2, 5)
        v = [[i, (i * i) % 3, (i * 7) % 4] for i in range(n + 3)]
        return k, v, [], [perm_tet(rng, (i, i + 1, i + 2, i + 3)) for i in range(n)], True
    if k == "line":
        n = rng.randint(2, 6)
        return k, [[i, 0, 0] for i in range(n)], [], [], True
    if k == "points":
        n = rng.randint(0, 4)
        return k, [[i, 1, 2] for i in range(n)], [], [], True
    if k == "soup":
        nvv = rng.randint(1, 7)
        v = [[i, 2 * i % 3, i % 2] for i in range(nvv)]
        f = []
        for _ in range(rng.randint(1, 5)):
            ar = rng.choice([1, 2, 3, 3, 3, 4, 4, 5])
            f.append([rng.randint(-1 if rng.random() < 0.1 else 0, nvv + (1 if rng.random() < 0.15 else -1)) for _ in range(ar)])
        return k, v, f, [], False
    # cellsoup
    nvv = rng.randint(4, 9)
    v = [[i, 2 * i % 3, i % 2] for i in range(nvv)]
    cs = []
    for _ in range(rng.randint(1, 4)):
        ar = rng.choice([4, 4, 4, 8])
        if rng.random() < 0.7 and nvv >= ar:
            cs.append(rng.sample(range(nvv), ar))
        else:
            cs.append([rng.randrange(nvv) for _ in range(ar)])
    return k, v, [], cs, False


def face_sides(faces):
    out = []
    for f in faces:
        n = len(f)
        for i in range(n):
            out.append((f[i], f[(i + 1) % n]))
    return out


TET_T = lambda c: [(c[1], c[3], c[2]), (c[0], c[2], c[3]), (c[3], c[1], c[0]), (c[0], c[1], c[2])]
HEX_T = lambda c: [(c[0], c[1], c[2], c[3]), (c[4], c[5], c[6], c[7]), (c[0], c[3], c[7], c[4]),
                   (c[0], c[1], c[5], c[4]), (c[1], c[2], c[6], c[5]), (c[2], c[3], c[7], c[6])]


def gen_case(rng, quick=True):
    kind, verts, faces, cells, wf = seed_mesh(rng)
    nv = len(verts)
    malformed = False
    # declared faces next to cells: some of the cells' faces (any rotation / orientation), sometimes twice
    if cells and rng.random() < 0.45:
        cand = []
        for c in cells:
            cand += TET_T(c) if len(c) == 4 else HEX_T(c)
        for _ in range(rng.randint(1, 4)):
            f = list(rng.choice(cand))
            r = rng.randrange(len(f))
            f = f[r:] + f[:r]
            if rng.random() < 0.5:
                f.reverse()
            faces.append(f)
        if rng.random() < 0.2:
            faces.append([rng.randrange(max(nv, 1)) for _ in range(3)])
            wf = False
    # declared edges
    edges = []
    sides = face_sides(faces)
    mode = rng.choice(["none", "none", "some", "some", "all", "chords", "bad", "bad"])
    if kind == "bigindex":
        # declared edges among the big indices: a self-loop (equal values held by distinct int objects), a valid edge
        b0 = max(x for rows in (faces, cells) for r in rows for x in r)
        edges += [[b0, b0], [b0 - 1, b0], [nv, b0 - 2], [b0 - 2, 299]]
        mode = "chords"      # (declared edges that are sides of no face: no connectivity script)
    if kind == "line":
        edges = [[i, i + 1] if rng.random() < 0.6 else [i + 1, i] for i in range(nv - 1)]
        if rng.random() < 0.3 and nv > 2:
            edges.append([nv - 1, 0])
    if mode in ("some", "all", "bad") and sides:
        for (a, b) in sides:
            if mode == "all" or rng.random() < 0.35:
                edges.append([a, b] if rng.random() < 0.5 else [b, a])
    if mode in ("chords", "bad") and nv >= 2:
        for _ in range(rng.randint(1, 3)):
            edges.append([rng.randrange(nv), rng.randrange(nv)])
    if mode == "bad":
        malformed = True
        for _ in range(rng.randint(1, 4)):
            t = rng.choice(["loop", "oor", "neg", "dup", "eqN"])
            if t == "loop":
                x = rng.randrange(max(nv, 1))
                e = [x, x]
            elif t == "oor":
                e = [rng.randrange(max(nv, 1)), nv + rng.randint(0, 3)]
            elif t == "eqN":
                e = [nv, rng.randrange(max(nv, 1))]
            elif t == "neg":
                e = [-rng.randint(1, 2), rng.randrange(max(nv, 1))]
            else:
                e = list(rng.choice(edges)) if edges else [0, 0]
                if rng.random() < 0.5:
                    e.reverse()
            edges.insert(rng.randint(0, len(edges)), e)
    rng.random() < 0.5 and rng.shuffle(edges)
    # edge attributes
    eattrs = []
    if edges and rng.random() < 0.55:
        for j in range(rng.choice([1, 1, 2])):
            ty = rng.choice(["int", "int", "bool"])
            name = rng.choice(["w", "w", "label", "hard_edges"]) if j == 0 else "second"
            if any(a["name"] == name for a in eattrs):
                continue
            default = None if rng.random() < 0.5 else (rng.choice([0, 0, rng.randint(1, 9)]) if ty == "int" else rng.randint(0, 1))
            rv = (lambda: rng.randint(-3, 12)) if ty == "int" else (lambda: rng.randint(0, 1))
            if rng.random() < 0.5:
                eattrs.append({"name": name, "dense": True, "default": default, "type": ty,
                               "vals": [rv() for _ in edges]})
            else:
                idx = [i for i in range(len(edges)) if rng.random() < 0.6]
                rng.shuffle(idx)
                eattrs.append({"name": name, "dense": False, "default": default, "type": ty,
                               "set": [[i, rv()] for i in idx]})
    cfg = rng.choice([[True, True]] * 7 + [[False, True], [True, False], [False, False]])
    if cells and not cfg[0] and rng.random() < 0.75:
        # completion off: supply the cells' faces (once each) so that construction is possible
        have = {tuple(sorted(f)) for f in faces}
        for c in cells:
            for f in (TET_T(c) if len(c) == 4 else HEX_T(c)):
                if tuple(sorted(f)) not in have:
                    have.add(tuple(sorted(f)))
                    faces.append(list(f))
    dim = None if rng.random() < 0.85 else rng.randint(0, 3)
    # coordinates in quarter units; points of width 3, 2 (padded with z=0 by every route) or, rarely, 1
    jitter = rng.random() < 0.3
    verts = [[4 * x + (rng.randint(0, 3) if jitter else 0) for x in v] for v in verts]
    if rng.random() < 0.08:
        verts = [[8, 8, 8] for _ in verts]      # all vertices coincide: the property is combinatorial
    vints = rng.random() < 0.4
    width = rng.choice([3] * 6 + [2] * 3 + [1])
    mixed = width == 2 and rng.random() < 0.2
    verts = [v[:(3 if mixed and rng.random() < 0.5 else width)] for v in verts]
    uniform = len({len(v) for v in verts}) <= 1
    in_range = all(0 <= x < nv for rows in (edges, faces, cells) for r in rows for x in r)
    routes = ["list", "tuple", "numpy"]
    if rng.random() < 0.3:
        routes.append("append")
    regular = all(len({len(r) for r in rows}) <= 1 for rows in (faces, cells)) and nv > 0
    if regular and uniform and not eattrs and dim is None and rng.random() < 0.6:
        routes.append("from_arrays")
    if width == 1 and not mixed:
        # 1-D points: only from_arrays promises to pad them (raw containers keep them, see C02_vertices_3d)
        routes = [r for r in routes if r == "from_arrays"] or ["list"]
    if uniform and in_range and not cells and not eattrs and nv > 0 and all(len(f) >= 3 for f in faces):
        for ext in ("obj", "off"):
            if rng.random() < 0.3:
                routes.append("file2d_" + ext)
    if uniform and width == 3 and in_range and nv > 0 and rng.random() < 0.25:
        routes.append("save_" + rng.choice(["obj", "off", "mesh", "geogram_ascii"]))
    rewraps = rng.choice([0, 1, 1, 2])
    edits = gen_edits(rng, rewraps, len(verts), faces, cells)
    # a construction that raises (completion off, a cell's face not supplied), then the faces are supplied to the very same
    # raw data object and it is built again
    missing = []
    if cells and not cfg[0]:
        have = {tuple(sorted(f)) for f in faces}
        for c in cells:
            for f in (TET_T(c) if len(c) == 4 else HEX_T(c)):
                if tuple(sorted(f)) not in have:
                    have.add(tuple(sorted(f)))
                    missing.append(list(f))
    if missing:
        rewraps = max(rewraps, 1)
        supplied = missing if rng.random() < 0.7 else missing[:len(missing) // 2]
        edits = [[["add_face", f] for f in supplied]] + [[] for _ in range(rewraps - 1)]
        routes = [r for r in routes if r in ("list", "tuple", "numpy", "append")]
    for es in edits:
        if rng.random() < 0.2:
            es.insert(rng.randint(0, len(es)), ["peek"])
    extra = {"peek": rng.choice([None, None, None, 0, 1, 2, 3, 4]), "prep_calls": rng.choice([0, 0, 0, 1, 2]),
             "callform": rng.randrange(60), "twin": rng.random() < 0.3,
             "idtype": rng.choice(["int64", "int64", "int32", "uint8", "pyint"]), "cfgrepr": rng.randrange(3),
             "dimrepr": rng.random() < 0.3}
    case = {**extra, "edits": edits, "kind": kind, "verts": verts, "vints": vints, "edges": edges, "faces": faces, "cells": cells,
            "eattrs": eattrs, "cfg": cfg, "dim": dim, "routes": routes, "rewraps": rewraps, "malformed": malformed or not wf,
            "script": []}
    quiet = all(e[0] in ("clear_fc", "clear_cc", "clear_cf", "peek") for es in edits for e in es)
    if width != 1:   # 1-D points: construction only (writers and geometry expect at least planar points)
        case["script"] = gen_script(rng, case, connectivity=bool(wf and cfg == [True, True] and quiet and dim is None
                                                                 and (mode in ("none", "some", "all") or kind == "line")))
    if any(a["name"] == "hard_edges" for a in eattrs):
        # a caller attribute that takes the exporters' reserved name: saving it is the exporters' (C04's) business
        case["script"] = [q for q in case["script"] if q[0] != "save"]
    return case


SAFE_OPS = ["copy", "merge", "attr_edges", "attr_faces", "attr_vertices", "save", "row_face", "row_cell", "row_edge"]
SURF_Q = ["face_to_vertices", "face_to_edges", "vertex_to_faces", "vertex_to_vertices", "vertex_to_edges", "face_to_faces",
          "in_face_index", "edge_to_vertices", "is_vertex_on_border", "boundary_edges", "interior_edges",
          "boundary_vertices", "is_triangular", "is_quad"]
VOL_Q = ["cell_to_face", "cell_to_vertex", "cell_to_edge", "vertex_to_cell", "face_to_cells", "edge_to_cell", "in_cell_index",
         "in_cell_face_index", "is_tetrahedral", "boundary_faces", "face_to_vertices", "vertex_to_vertices", "face_to_edges"]
LINE_Q = ["vertex_to_vertices", "vertex_to_edges", "edge_to_vertices"]


def gen_script(rng, case, connectivity):
    """later behaviour on the finished mesh: copies, merges, attributes, save/load and the rows the containers hand back
    (always); connectivity queries (well-formed inputs, both completion switches on, no structural edit).  Index arguments
    are reduced modulo the container sizes by the driver."""
    s = []
    for _ in range(rng.randint(3, 5)):
        op = rng.choice(SAFE_OPS)
        s.append([op, rng.randrange(64), rng.randrange(4)] if op.startswith("attr_") else [op, rng.randrange(64)]
                 if op in ("save", "row_face", "row_cell", "row_edge") else [op])
    if connectivity:
        pool = VOL_Q if case["cells"] else SURF_Q if case["faces"] else LINE_Q if case["edges"] else []
        tet = all(len(c) == 4 for c in case["cells"])
        for _ in range(rng.randint(8, 14) if pool else 0):
            q = rng.choice(pool)
            if q == "cell_to_face" and not tet:
                q = "cell_to_vertex"
            s.append([q, rng.randrange(64), rng.randrange(64)])
        if case["cells"] and tet and rng.random() < 0.7:
            s.append(["cell_to_cell", rng.randrange(64)])
        # keyed lookups with arguments taken from the input rows
        for _ in range(rng.randint(1, 3)):
            if case["faces"] and not case["cells"]:
                F = rng.choice(case["faces"])
                s.append(rng.choice([["edge_id", F[0], F[1 % len(F)]], ["face_id"] + list(F), ["edge_to_faces", F[0], F[1 % len(F)]]]))
            elif case["cells"]:
                C = rng.choice(case["cells"])
                s.append(["edge_id", C[0], C[1]])
            elif case["edges"]:
                e = rng.choice(case["edges"])
                s.append(["edge_id", e[0], e[1]])
    rng.shuffle(s)
    return s


CLEAR3 = [["clear_fc"], ["clear_cc"], ["clear_cf"]]


def gen_edits(rng, rewraps, nv, faces, cells):
    """per rebuild: the edits applied to RawMeshData(mesh) before it is built again. Structural edits come with the
    clear() of the corner containers, as the subdivision editors do; mesh.save-like clears of whole containers; clears
    alone; a declared edge added."""
    out = []
    nv = max(nv, 1)
    has_cells, has_faces = bool(cells), bool(faces)
    for _ in range(rewraps):
        kind = rng.choice(["none", "none", "none", "clears", "volume", "surface", "save", "edge", "faces-noclear"])
        es = []
        if kind == "clears":
            es = [e for e in CLEAR3 if rng.random() < 0.6]
            rng.shuffle(es)
        elif kind == "volume":
            es = [list(e) for e in CLEAR3]
            for _ in range(rng.randint(1, 3)):
                t = rng.choice(["add", "add", "set", "pop", "vertex"])
                if t == "vertex":
                    es.append(["add_vertex", [rng.randint(0, 12), rng.randint(0, 12), rng.randint(0, 12)]])
                    nv += 1
                elif t == "pop":
                    es.append(["pop_cell"])
                else:
                    c = rng.sample(range(nv), 4) if nv >= 4 else [rng.randrange(nv) for _ in range(4)]
                    es.append(["add_cell", c] if t == "add" else ["set_cell", rng.randrange(8), c])
            has_cells = True
        elif kind == "surface":
            es = [list(e) for e in (CLEAR3 if (has_cells or rng.random() < 0.5) else CLEAR3[:1])]
            for _ in range(rng.randint(1, 3)):
                t = rng.choice(["add", "add", "set", "pop", "vertex"])
                if t == "vertex":
                    es.append(["add_vertex", [rng.randint(0, 12), rng.randint(0, 12), 0]])
                    nv += 1
                elif t == "pop":
                    es.append(["pop_face"])
                else:
                    ar = rng.choice([3, 3, 4])
                    f = rng.sample(range(nv), ar) if nv >= ar else [rng.randrange(nv) for _ in range(ar)]
                    es.append(["add_face", f] if t == "add" else ["set_face", rng.randrange(8), f])
            has_faces = True
        elif kind == "faces-noclear":
            # faces appended (or the last one removed) WITHOUT clearing face_corners: prepare() must notice by the count
            for _ in range(rng.randint(1, 2)):
                t = rng.choice(["add", "add", "vertex"])   # (removing and adding could leave the corner COUNT unchanged:
                if t == "vertex":                           #  stale corners with the right count cannot be noticed)
                    es.append(["add_vertex", [rng.randint(0, 12), rng.randint(0, 12), 0]])
                    nv += 1
                else:
                    ar = rng.choice([3, 3, 4])
                    es.append(["add_face", rng.sample(range(nv), ar) if nv >= ar else [rng.randrange(nv) for _ in range(ar)]])
                    has_faces = True
        elif kind == "save":
            w = rng.choice(["edges", "faces", "cells"])
            es = {"edges": [["clear_edges"]], "faces": [["clear_faces"], ["clear_fc"]],
                  "cells": [["clear_cells"], ["clear_cc"], ["clear_cf"]]}[w]
            if w == "faces" and has_cells:
                es = es + [["clear_cf"]]
        elif kind == "edge":
            a, b = rng.randrange(nv), rng.randint(-1, nv + 1)
            es = [["add_edge", [a, b]]]
        out.append(es)
    return out
