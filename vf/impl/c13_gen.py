"""Structured input generators for C13: small manifold surfaces (triangle / quad / polygon faces, closed or
bordered, several components), conforming tetrahedral meshes, polylines; all with integer coordinates that are
multiples of a highly divisible unit, so that a few levels of midpoints and barycentres stay exact in binary64.
Every generator returns {"V": [[x,y,z],..], "F"|"C"|"E": [...], "planar": bool, "seed_kind": str}.
"""
UNIT = 2 ** 10 * 3 ** 5 * 5 * 7      # 8 709 120; coordinates stay below 2**40


def _scale(pts, k=1):
    return [[int(x) * UNIT * k, int(y) * UNIT * k, int(z) * UNIT * k] for x, y, z in pts]


def generic_coords(rng, n):
    """pairwise distinct integer points in general position (no embedding intended)"""
    seen = set()
    out = []
    while len(out) < n:
        p = (rng.randint(-2000, 2000), rng.randint(-2000, 2000), rng.randint(-2000, 2000))
        if p not in seen:
            seen.add(p)
            out.append(list(p))
    return out


# ---------------------------------------------------------------------- surfaces
def grid_disk(rng, nu, nv, mode):
    V = [[i, j, 0] for i in range(nu) for j in range(nv)]
    F = []
    for i in range(nu - 1):
        for j in range(nv - 1):
            a, b, c, d = i * nv + j, (i + 1) * nv + j, (i + 1) * nv + j + 1, i * nv + j + 1   # counter-clockwise
            m = mode if mode != "mixed" else rng.choice(["quad", "tri"])
            if m == "quad":
                F.append([a, b, c, d])
            elif rng.random() < 0.5:
                F += [[a, b, c], [a, c, d]]
            else:
                F += [[a, b, d], [b, c, d]]
    return V, F, True


def torus(rng, nu, nv, mode):
    V = None
    F = []
    for i in range(nu):
        for j in range(nv):
            a, b = i * nv + j, ((i + 1) % nu) * nv + j
            c, d = ((i + 1) % nu) * nv + (j + 1) % nv, i * nv + (j + 1) % nv
            m = mode if mode != "mixed" else rng.choice(["quad", "tri"])
            if m == "quad":
                F.append([a, b, c, d])
            else:
                F += [[a, b, c], [a, c, d]]
    return generic_coords(rng, nu * nv), F, False


def annulus(rng, nu, nv, mode):
    """nu >= 3 around, nv >= 2 across; planar (concentric convex polygons would need irrational points: generic coords)"""
    F = []
    for i in range(nu):
        for j in range(nv - 1):
            a, b = i * nv + j, ((i + 1) % nu) * nv + j
            c, d = ((i + 1) % nu) * nv + j + 1, i * nv + j + 1
            m = mode if mode != "mixed" else rng.choice(["quad", "tri"])
            if m == "quad":
                F.append([a, b, c, d])
            else:
                F += [[a, b, c], [a, c, d]]
    return generic_coords(rng, nu * nv), F, False


def convex_polygon_pts(n):
    return [[i, i * i, 0] for i in range(n)]       # points of a parabola: strictly convex, counter-clockwise


def polygon(rng, n):
    return convex_polygon_pts(n), [list(range(n))], True


def polygon_with_ears(rng, n):
    """an n-gon with a triangle glued on some of its sides: the ear tips have exactly two incident edges"""
    F = [list(range(n))]
    nv = n
    for i in range(n):
        if rng.random() < 0.6:
            F.append([(i + 1) % n, i, nv])
            nv += 1
    return generic_coords(rng, nv), F, False


def strip_with_ear(rng, k):
    """k triangles in a row plus one ear triangle on top: the configuration split_double_boundary_edges_triangles targets"""
    V = [[2 * i, 0, 0] for i in range(k + 1)] + [[2 * i + 1, 2, 0] for i in range(k)]
    F = []
    for i in range(k):
        F.append([i, i + 1, k + 1 + i])
        if i + 1 < k:
            F.append([i + 1, k + 2 + i, k + 1 + i])
    if k >= 2:
        j = rng.randrange(k - 1)
        V.append([2 * j + 2, 4, 0])
        F.append([k + 1 + j, k + 2 + j, len(V) - 1])
    return V, F, True


def tetra_surface(rng):
    return generic_coords(rng, 4), [[0, 1, 2], [0, 3, 1], [1, 3, 2], [2, 3, 0]], False


def octahedron(rng):
    V = [[1, 0, 0], [-1, 0, 0], [0, 1, 0], [0, -1, 0], [0, 0, 1], [0, 0, -1]]
    F = [[0, 2, 4], [2, 1, 4], [1, 3, 4], [3, 0, 4], [2, 0, 5], [1, 2, 5], [3, 1, 5], [0, 3, 5]]
    return V, F, False


def cube_quads(rng):
    V = [[x, y, z] for x in (0, 1) for y in (0, 1) for z in (0, 1)]
    idx = lambda x, y, z: 4 * x + 2 * y + z
    F = [[idx(0, 0, 0), idx(0, 0, 1), idx(0, 1, 1), idx(0, 1, 0)], [idx(1, 0, 0), idx(1, 1, 0), idx(1, 1, 1), idx(1, 0, 1)],
         [idx(0, 0, 0), idx(1, 0, 0), idx(1, 0, 1), idx(0, 0, 1)], [idx(0, 1, 0), idx(0, 1, 1), idx(1, 1, 1), idx(1, 1, 0)],
         [idx(0, 0, 0), idx(0, 1, 0), idx(1, 1, 0), idx(1, 0, 0)], [idx(0, 0, 1), idx(1, 0, 1), idx(1, 1, 1), idx(0, 1, 1)]]
    return V, F, False


def merge_some_triangles(rng, F):
    """merge pairs of triangles sharing an edge into quads (keeps manifoldness and orientation)"""
    F = [list(f) for f in F]
    out = []
    used = set()
    for i, f in enumerate(F):
        if i in used:
            continue
        done = False
        if len(f) == 3 and rng.random() < 0.35:
            for j in range(i + 1, len(F)):
                g = F[j]
                if j in used or len(g) != 3:
                    continue
                for k in range(3):
                    a, b, c = f[k], f[(k + 1) % 3], f[(k + 2) % 3]
                    for l in range(3):
                        if g[l] == b and g[(l + 1) % 3] == a:
                            d = g[(l + 2) % 3]
                            if d != c:
                                out.append([a, d, b, c])
                                used.add(j)
                                done = True
                            break
                    if done:
                        break
                if done:
                    break
        if not done:
            out.append(f)
        used.add(i)
    return out


def remove_isolated(V, F):
    used = sorted({v for f in F for v in f})
    ren = {v: i for i, v in enumerate(used)}
    return [V[v] for v in used], [[ren[v] for v in f] for f in F]


def punch_hole(rng, V, F):
    """delete one face none of whose vertices lies on the border (keeps every vertex manifold)"""
    if len(F) < 3:
        return V, F
    he = {(f[k], f[(k + 1) % len(f)]) for f in F for k in range(len(f))}
    bv = {a for (a, b) in he if (b, a) not in he} | {b for (a, b) in he if (b, a) not in he}
    cand = [k for k, f in enumerate(F) if not (set(f) & bv)]
    if not cand:
        return V, F
    k = rng.choice(cand)
    F2 = F[:k] + F[k + 1:]
    return remove_isolated(V, F2)


def shuffle_surface(rng, V, F):
    n = len(V)
    perm = list(range(n))
    rng.shuffle(perm)              # old -> new
    V2 = [None] * n
    for o, nw in enumerate(perm):
        V2[nw] = V[o]
    F2 = []
    for f in F:
        g = [perm[v] for v in f]
        r = rng.randrange(len(g))
        F2.append(g[r:] + g[:r])
    rng.shuffle(F2)
    return V2, F2


def union(A, B):
    VA, FA, pa = A
    VB, FB, pb = B
    off = len(VA)
    shift = 1 + max(abs(c) for p in VA for c in p) + max(abs(c) for p in VB for c in p)
    VB2 = [[x + 2 * shift, y, z] for x, y, z in VB]
    return VA + VB2, FA + [[v + off for v in f] for f in FB], pa and pb


SURF_KINDS = ["triangle", "quad", "polygon", "ears", "strip", "grid-tri", "grid-quad", "grid-mixed", "torus-tri",
              "torus-quad", "torus-mixed", "annulus", "tetra", "octa", "cube", "merged", "holed", "two"]


def gen_surface(rng, size="small", kind=None):
    kind = kind or rng.choice(SURF_KINDS)
    big = size != "small"
    if kind == "triangle":
        S = ([[0, 0, 0], [3, 0, 0], [1, 2, 0]], [[0, 1, 2]], True)
    elif kind == "quad":
        S = ([[0, 0, 0], [3, 0, 0], [4, 3, 0], [1, 2, 0]], [[0, 1, 2, 3]], True)
    elif kind == "polygon":
        S = polygon(rng, rng.choice([5, 5, 6, 7]))
    elif kind == "ears":
        S = polygon_with_ears(rng, rng.choice([3, 4, 5, 6]))
    elif kind == "strip":
        S = strip_with_ear(rng, rng.randint(2, 5))
    elif kind.startswith("grid"):
        m = kind.split("-")[1]
        S = grid_disk(rng, rng.randint(2, 6 if big else 4), rng.randint(2, 6 if big else 4), m)
    elif kind.startswith("torus"):
        m = kind.split("-")[1]
        S = torus(rng, rng.randint(3, 5 if big else 4), rng.randint(3, 5 if big else 3), m)
    elif kind == "annulus":
        S = annulus(rng, rng.randint(3, 5), rng.randint(2, 3), rng.choice(["quad", "tri", "mixed"]))
    elif kind == "tetra":
        S = tetra_surface(rng)
    elif kind == "octa":
        S = octahedron(rng)
    elif kind == "cube":
        S = cube_quads(rng)
    elif kind == "merged":
        V, F, p = rng.choice([octahedron(rng), grid_disk(rng, 3, 4, "tri"), torus(rng, 3, 4, "tri")])
        S = (generic_coords(rng, len(V)), merge_some_triangles(rng, F), False)   # merged quads need not be convex: no embedding claimed
    elif kind == "holed":
        V, F, p = rng.choice([torus(rng, 3, 3, "tri"), torus(rng, 3, 4, "quad"), octahedron(rng), grid_disk(rng, 4, 4, "tri")])
        V, F = punch_hole(rng, V, F)
        S = (V, F, p)
    else:
        S = union(gen_surface_raw(rng, rng.choice(["triangle", "quad", "grid-tri", "tetra", "polygon"])),
                  gen_surface_raw(rng, rng.choice(["triangle", "grid-quad", "octa", "torus-tri"])))
    V, F, planar = S
    if rng.random() < 0.7:
        V, F = shuffle_surface(rng, V, F)
    return {"V": _scale(V), "F": [list(f) for f in F], "planar": bool(planar), "seed_kind": kind}


def gen_surface_raw(rng, kind):
    d = gen_surface(rng, kind=kind)
    return [[c // UNIT for c in p] for p in d["V"]], d["F"], d["planar"]


# ---------------------------------------------------------------------- tetrahedral meshes
def kuhn_cubes(nx, ny, nz):
    """nx*ny*nz unit cubes, each cut into 6 tetrahedra along the main diagonal (conforming across cubes)"""
    idx = lambda i, j, k: (i * (ny + 1) + j) * (nz + 1) + k
    V = [[i, j, k] for i in range(nx + 1) for j in range(ny + 1) for k in range(nz + 1)]
    C = []
    import itertools
    for i in range(nx):
        for j in range(ny):
            for k in range(nz):
                for perm in itertools.permutations(range(3)):
                    p = [i, j, k]
                    cell = [idx(*p)]
                    for ax in perm:
                        p = list(p)
                        p[ax] += 1
                        cell.append(idx(*p))
                    C.append(cell)
    return V, C


def five_tet_cube():
    V = [[x, y, z] for x in (0, 1) for y in (0, 1) for z in (0, 1)]
    i = lambda x, y, z: 4 * x + 2 * y + z
    C = [[i(0, 0, 0), i(1, 0, 0), i(0, 1, 0), i(0, 0, 1)], [i(1, 1, 0), i(0, 1, 0), i(1, 0, 0), i(1, 1, 1)],
         [i(1, 0, 1), i(0, 0, 1), i(1, 1, 1), i(1, 0, 0)], [i(0, 1, 1), i(1, 1, 1), i(0, 0, 1), i(0, 1, 0)],
         [i(1, 0, 0), i(0, 1, 0), i(0, 0, 1), i(1, 1, 1)]]
    return V, C


VOL_KINDS = ["tet", "two", "five", "kuhn1", "kuhn2", "fan"]


def gen_volume(rng, kind=None):
    kind = kind or rng.choice(VOL_KINDS)
    if kind == "tet":
        V, C = [[0, 0, 0], [1, 0, 0], [0, 1, 0], [0, 0, 1]], [[0, 1, 2, 3]]
    elif kind == "two":
        V, C = [[0, 0, 0], [1, 0, 0], [0, 1, 0], [0, 0, 1], [0, 0, -1]], [[0, 1, 2, 3], [0, 2, 1, 4]]
    elif kind == "five":
        V, C = five_tet_cube()
    elif kind == "kuhn1":
        V, C = kuhn_cubes(1, 1, 1)
    elif kind == "kuhn2":
        V, C = kuhn_cubes(*rng.choice([(2, 1, 1), (1, 2, 1), (2, 2, 1)]))
    else:
        # four tets around an interior vertex
        V, C = [[0, 0, 0], [4, 0, 0], [0, 4, 0], [0, 0, 4], [1, 1, 1]], [[4, 1, 2, 3], [0, 4, 2, 3], [0, 1, 4, 3], [0, 1, 2, 4]]
    # generic skew so that nothing is axis-aligned by accident (keeps conformity, it is a linear map)
    if rng.random() < 0.5:
        a, b = rng.randint(-2, 2), rng.randint(-2, 2)
        V = [[x + a * y, y + b * z, z] for x, y, z in V]
    n = len(V)
    if rng.random() < 0.7:
        perm = list(range(n))
        rng.shuffle(perm)
        V2 = [None] * n
        for o, nw in enumerate(perm):
            V2[nw] = V[o]
        V = V2
        C = [[perm[v] for v in c] for c in C]
        rng.shuffle(C)
    C2 = []
    for c in C:
        c = list(c)
        if rng.random() < 0.5:
            rng.shuffle(c)          # any vertex order, both orientations
        C2.append(c)
    return {"V": _scale(V, 4), "C": C2, "seed_kind": kind}


# ---------------------------------------------------------------------- polylines
POLY_KINDS = ["path", "cycle", "two", "star"]


def gen_polyline(rng, kind=None):
    kind = kind or rng.choice(POLY_KINDS)
    n = rng.randint(2, 7)
    if kind == "path":
        E = [[i, i + 1] for i in range(n - 1)]
    elif kind == "cycle":
        n = max(n, 3)
        E = [[i, (i + 1) % n] for i in range(n)]
    elif kind == "two":
        n = max(n, 4)
        k = n // 2
        E = [[i, i + 1] for i in range(k - 1)] + [[i, i + 1] for i in range(k, n - 1)]
    else:
        E = [[0, i] for i in range(1, n)]
    V = generic_coords(rng, n)
    E = [e if rng.random() < 0.5 else [e[1], e[0]] for e in E]
    rng.shuffle(E)
    return {"V": _scale(V), "E": E, "seed_kind": kind}
