"""C01 - generator of oriented manifold polygon surfaces (combinatorial only) and of query scripts.

A mesh is {"nv": int, "faces": [[v,...],...]}.  Everything is driven by one random.Random.
`validate` is the brute-force definition of "oriented manifold polygon surface" used by the generator to
accept/reject an edit (the Coq side re-checks it with its own boolean checker `wf_mesh_b`).
"""


# ---------------------------------------------------------------------- validity (brute force)
def directed_edges(faces):
    d = {}
    for f, F in enumerate(faces):
        n = len(F)
        for i in range(n):
            d.setdefault((F[i], F[(i + 1) % n]), []).append((f, i))
    return d


def validate(nv, faces):
    """None if (nv, faces) is an oriented manifold polygon surface, else a reason."""
    for F in faces:
        if len(F) < 3:
            return "face with < 3 vertices"
        if len(set(F)) != len(F):
            return "repeated vertex in a face"
        if any((not isinstance(v, int)) or v < 0 or v >= nv for v in F):
            return "vertex out of range"
    de = directed_edges(faces)
    for k, l in de.items():
        if len(l) > 1:
            return "directed edge %s used twice" % (k,)
    # vertex manifoldness: the corners at v form ONE fan (cycle, or chain from a border edge to a border edge)
    at = {}
    for f, F in enumerate(faces):
        for i, v in enumerate(F):
            at.setdefault(v, []).append((f, i))
    for v, cs in at.items():
        # step clockwise: corner (f,i) -> the corner at v in the face across edge (prev(v), v)
        def cw(c):
            f, i = c
            F = faces[f]
            p = F[(i - 1) % len(F)]
            o = de.get((v, p))
            return o[0] if o else None

        def ccw(c):
            f, i = c
            F = faces[f]
            nx = F[(i + 1) % len(F)]
            o = de.get((nx, v))
            if not o:
                return None
            g, j = o[0]
            return (g, (j + 1) % len(faces[g]))
        seen = {cs[0]}
        c = cs[0]
        while True:
            c = cw(c)
            if c is None or c in seen:
                break
            seen.add(c)
        c = cs[0]
        while True:
            c = ccw(c)
            if c is None or c in seen:
                break
            seen.add(c)
        if len(seen) != len(cs):
            return "vertex %d is not manifold (several fans)" % v
    return None


# ---------------------------------------------------------------------- seeds
def seed_polygon(n):
    return n, [list(range(n))]


def seed_tetra():
    return 4, [[0, 1, 2], [0, 3, 1], [1, 3, 2], [0, 2, 3]]


def seed_octa():
    # 0,1 poles; 2..5 equator
    eq = [2, 3, 4, 5]
    fs = []
    for k in range(4):
        a, b = eq[k], eq[(k + 1) % 4]
        fs.append([0, a, b])
        fs.append([1, b, a])
    return 6, fs


def seed_cube():
    return 8, [[0, 3, 2, 1], [4, 5, 6, 7], [0, 1, 5, 4], [1, 2, 6, 5], [2, 3, 7, 6], [3, 0, 4, 7]]


def seed_grid(n, m, wrap_i=False, wrap_j=False, tri=False, rng=None):
    """n x m vertices; quads (or each quad cut in two triangles, diagonal chosen at random)."""
    def vid(i, j):
        return (i % n) * m + (j % m)
    fs = []
    for i in range(n if wrap_i else n - 1):
        for j in range(m if wrap_j else m - 1):
            a, b, c, d = vid(i, j), vid(i, j + 1), vid(i + 1, j + 1), vid(i + 1, j)
            if tri:
                if rng is not None and rng.random() < 0.5:
                    fs += [[a, b, c], [a, c, d]]
                else:
                    fs += [[a, b, d], [b, c, d]]
            else:
                fs.append([a, b, c, d])
    return n * m, fs


def union(m1, m2):
    n1, f1 = m1
    n2, f2 = m2
    return n1 + n2, [list(F) for F in f1] + [[v + n1 for v in F] for F in f2]


def random_seed_mesh(rng, size):
    """size: 'tiny' | 'mid' | 'big'"""
    if size == "tiny":
        k = rng.choice(["tri", "quad", "poly", "tetra", "grid", "trigrid", "union", "octa"])
    elif size == "mid":
        k = rng.choice(["octa", "cube", "grid", "trigrid", "annulus", "torus", "union", "grid", "trigrid"])
    else:
        k = rng.choice(["grid", "trigrid", "annulus", "torus", "union"])
    lo, hi = {"tiny": (2, 3), "mid": (3, 6), "big": (5, 9)}[size]
    if k == "tri":
        return "tri", seed_polygon(3)
    if k == "quad":
        return "quad", seed_polygon(4)
    if k == "poly":
        return "poly", seed_polygon(rng.randint(5, 8))
    if k == "tetra":
        return k, seed_tetra()
    if k == "octa":
        return k, seed_octa()
    if k == "cube":
        return k, seed_cube()
    if k == "grid":
        return k, seed_grid(rng.randint(lo, hi + 1), rng.randint(lo, hi + 1))
    if k == "trigrid":
        return k, seed_grid(rng.randint(lo, hi), rng.randint(lo, hi), tri=True, rng=rng)
    if k == "annulus":
        return k, seed_grid(rng.randint(max(3, lo), max(3, hi)), rng.randint(lo, hi), wrap_i=True, tri=rng.random() < 0.5, rng=rng)
    if k == "torus":
        return k, seed_grid(rng.randint(max(3, lo), max(3, hi)), rng.randint(max(3, lo), max(3, hi)), wrap_i=True, wrap_j=True,
                            tri=rng.random() < 0.5, rng=rng)
    a = random_seed_mesh(rng, "tiny" if size != "big" else "mid")[1]
    b = random_seed_mesh(rng, "tiny" if size == "tiny" else "mid")[1]
    return "union", union(a, b)


# ---------------------------------------------------------------------- edits (each returns (nv, faces) or None)
def ed_split13(rng, nv, faces):
    f = rng.randrange(len(faces))
    F = faces[f]
    w = nv
    new = [[F[i], F[(i + 1) % len(F)], w] for i in range(len(F))]
    return nv + 1, faces[:f] + faces[f + 1:] + new


def ed_edge_split(rng, nv, faces):
    f = rng.randrange(len(faces))
    F = faces[f]
    i = rng.randrange(len(F))
    u, v = F[i], F[(i + 1) % len(F)]
    w = nv
    out = []
    for G in faces:
        n = len(G)
        H = []
        for j in range(n):
            H.append(G[j])
            a, b = G[j], G[(j + 1) % n]
            if (a, b) == (u, v) or (a, b) == (v, u):
                H.append(w)
        out.append(H)
    return nv + 1, out


def ed_flip(rng, nv, faces):
    de = directed_edges(faces)
    cands = [(k, l[0]) for k, l in de.items() if (k[1], k[0]) in de and k[0] < k[1]
             and len(faces[l[0][0]]) == 3 and len(faces[de[(k[1], k[0])][0][0]]) == 3]
    if not cands:
        return None
    (u, v), (f, i) = rng.choice(cands)
    g, j = de[(v, u)][0]
    a = faces[f][(i + 2) % 3]
    b = faces[g][(j + 2) % 3]
    if a == b or (a, b) in de or (b, a) in de:
        return None
    out = [list(F) for k, F in enumerate(faces) if k not in (f, g)]
    out += [[a, u, b], [b, v, a]]
    return nv, out


def ed_merge(rng, nv, faces):
    de = directed_edges(faces)
    cands = [k for k in de if (k[1], k[0]) in de and k[0] < k[1]]
    if not cands:
        return None
    u, v = rng.choice(cands)
    f, i = de[(u, v)][0]
    g, j = de[(v, u)][0]
    if f == g:
        return None
    F, G = faces[f], faces[g]
    if len(set(F) & set(G)) != 2:
        return None
    # F = ... u v ...  ; G = ... v u ...   merged: (v ... around F ... u) + (around G from after u ... to before v)
    nF, nG = len(F), len(G)
    partF = [F[(i + 1 + k) % nF] for k in range(nF)]      # v ... u
    partG = [G[(j + 2 + k) % nG] for k in range(nG - 2)]  # after u ... before v
    out = [list(H) for k, H in enumerate(faces) if k not in (f, g)]
    out.append(partF + partG)
    return nv, out


def ed_delete(rng, nv, faces):
    if len(faces) < 2:
        return None
    f = rng.randrange(len(faces))
    return nv, faces[:f] + faces[f + 1:]


def ed_ear(rng, nv, faces):
    de = directed_edges(faces)
    border = [k for k in de if (k[1], k[0]) not in de]
    if not border:
        return None
    u, v = rng.choice(border)
    if rng.random() < 0.6:
        # new vertex: the old border edge becomes an interior edge joining two border vertices
        if rng.random() < 0.3:
            return nv + 2, faces + [[v, u, nv, nv + 1]]
        return nv + 1, faces + [[v, u, nv]]
    # close a notch: (u,v) and (v,w) consecutive border half-edges -> triangle (w,v,u)
    nxt = [k for k in border if k[0] == v]
    if not nxt:
        return None
    w = nxt[0][1]
    if w == u:
        return None
    return nv, faces + [[w, v, u]]


def ed_isolated(rng, nv, faces):
    return nv + 1, faces


EDITS = [("split13", ed_split13, 3), ("edge_split", ed_edge_split, 3), ("flip", ed_flip, 3), ("merge", ed_merge, 3),
         ("delete", ed_delete, 4), ("ear", ed_ear, 4), ("isolated", ed_isolated, 1)]


def finalize(rng, nv, faces, spread=False):
    if spread:
        # vertex ids beyond 256 (small-int identity vs equality), many isolated vertices in between
        nv2 = rng.randint(max(nv, 300), max(nv, 300) + 120)
        perm = rng.sample(range(nv2), nv)
        nv = nv2
    else:
        perm = list(range(nv))
        rng.shuffle(perm)
    out = []
    for F in faces:
        G = [perm[v] for v in F]
        r = rng.randrange(len(G))
        out.append(G[r:] + G[:r])
    rng.shuffle(out)
    return nv, out


def gen_mesh(rng, size=None, max_faces=80):
    """Returns (mesh, info).  Size profile: 40 % tiny (1-9 faces), 50 % mid (10..max_faces), 10 % big (max_faces/2..max_faces)."""
    if size is None:
        r = rng.random()
        size = "tiny" if r < 0.4 else ("mid" if r < 0.9 else "big")
    lo_f = {"tiny": 1, "mid": 10, "big": max(10, max_faces // 2)}[size]
    hi_f = 9 if size == "tiny" else max_faces
    for _ in range(200):
        kind, (nv, faces) = random_seed_mesh(rng, size)
        if len(faces) <= hi_f:
            break
    faces = [list(F) for F in faces]
    assert validate(nv, faces) is None, (kind, nv, faces, validate(nv, faces))
    n_ed = rng.choice([0, 0, 1, 2, 3, 5, 8, 12]) if size != "tiny" else rng.choice([0, 0, 1, 1, 2, 3, 4])
    applied = []
    names = [e[0] for e in EDITS]
    fns = {e[0]: e[1] for e in EDITS}
    wts = [e[2] for e in EDITS]
    tries = 0
    # keep growing (1->3 splits, ears) until the lower size bound is met, then apply the random edits
    while len(faces) < lo_f and tries < 400:
        tries += 1
        nm = rng.choice(["split13", "ear", "split13", "edge_split"])
        r = fns[nm](rng, nv, faces)
        if r is None:
            continue
        nv2, f2 = r
        if len(f2) > hi_f or validate(nv2, f2) is not None:
            continue
        nv, faces = nv2, [list(F) for F in f2]
        applied.append(nm)
    for _ in range(n_ed):
        nm = rng.choices(names, wts)[0]
        r = fns[nm](rng, nv, faces)
        if r is None:
            continue
        nv2, f2 = r
        if not f2 or len(f2) > hi_f or validate(nv2, f2) is not None:
            continue
        nv, faces = nv2, [list(F) for F in f2]
        applied.append(nm)
    spread = rng.random() < 0.1
    nv, faces = finalize(rng, nv, faces, spread)
    assert validate(nv, faces) is None
    return {"nv": nv, "faces": faces}, {"seed_kind": kind, "size": size, "edits": applied, "spread": spread}


# ---------------------------------------------------------------------- statistics of a mesh (for the evidence)
def mesh_stats(mesh):
    nv, faces = mesh["nv"], mesh["faces"]
    de = directed_edges(faces)
    und = {tuple(sorted(k)) for k in de}
    border_e = {tuple(sorted(k)) for k in de if (k[1], k[0]) not in de}
    used = {v for F in faces for v in F}
    bv = {v for e in border_e for v in e}
    # components by union-find over faces' vertices
    par = list(range(nv))

    def find(x):
        while par[x] != x:
            par[x] = par[par[x]]
            x = par[x]
        return x
    for F in faces:
        for v in F[1:]:
            a, b = find(F[0]), find(v)
            if a != b:
                par[a] = b
    comps = len({find(v) for v in used})
    # border loops: each border vertex has exactly one outgoing border half-edge
    nxt = {k[0]: k[1] for k in de if (k[1], k[0]) not in de}
    seen = set()
    loops = 0
    for s in nxt:
        if s in seen:
            continue
        loops += 1
        x = s
        while x not in seen:
            seen.add(x)
            x = nxt[x]
    chi = len(used) - len(und) + len(faces)
    ar = sorted({len(F) for F in faces})
    return {"nf": len(faces), "nv": nv, "ne": len(und), "border_edges": len(border_e), "border_vertices": len(bv),
            "interior_vertices": len(used - bv), "isolated": nv - len(used), "components": comps, "border_loops": loops,
            "chi": chi, "arities": ar}


# ---------------------------------------------------------------------- query scripts
# name -> argument signature ; V vertex, F face, C corner, E edge id, UV an ordered vertex pair, VS a vertex tuple
QUERIES = {
    "vertex_to_faces": "V", "vertex_to_corners": "V", "vertex_to_corner_in_face": "VF",
    "previous_corner": "C", "next_corner": "C", "opposite_corner": "C", "corner_to_half_edge": "C",
    "corner_to_face": "C", "half_edge_to_corner": "UV", "direct_face": "UV", "direct_face_inds": "UV",
    "edge_to_faces": "UV", "opposite_face": "UVF", "opposite_face_inds": "UVF", "common_edge": "FF",
    "face_to_vertices": "F", "in_face_index": "FV", "face_to_edges": "F", "face_to_first_corner": "F",
    "face_to_corners": "F", "face_to_faces": "F", "face_id": "VS", "edge_id": "UV", "other_edge_end": "EV",
    "vertex_to_vertices": "V", "vertex_to_edges": "V", "edge_to_vertices": "E",
    "boundary_edges": "", "interior_edges": "", "boundary_vertices": "", "interior_vertices": "",
    "is_edge_on_border": "UV", "is_vertex_on_border": "V",
    "clear": "", "clear_boundary_data": "",
}
QNAMES = sorted(QUERIES)


def gen_script(rng, mesh, length=None):
    nv, faces = mesh["nv"], mesh["faces"]
    nf = len(faces)
    nc = sum(len(F) for F in faces)
    de = list(directed_edges(faces).keys())
    und = []          # undirected edges in order of first appearance (the order mouette numbers them in)
    _seen = set()
    for Fl in faces:
        for i in range(len(Fl)):
            e = tuple(sorted((Fl[i], Fl[(i + 1) % len(Fl)])))
            if e not in _seen:
                _seen.add(e)
                und.append(e)
    ne = len(und)
    if length is None:
        length = rng.randint(40, 60)

    def V(valid_only=False):
        if not valid_only and rng.random() < 0.04:
            return nv + rng.randint(0, 1)
        return rng.randrange(nv)

    def F(valid_only=True):
        return rng.randrange(nf)

    def C():
        if rng.random() < 0.04:
            return nc + rng.randint(0, 1)
        return rng.randrange(nc)

    def UV():
        r = rng.random()
        if r < 0.75:
            u, v = rng.choice(de)
            if rng.random() < 0.4:
                u, v = v, u
            return [u, v]
        if r < 0.8:
            u = rng.randrange(nv)
            return [u, u]
        return [rng.randrange(nv), rng.randrange(nv)]

    # an id one past the end, for the accessors that index a container directly (their exception is the answer)
    ABSENT = {"face_to_first_corner": lambda: [nf], "face_to_corners": lambda: [nf], "face_to_vertices": lambda: [nf],
              "face_to_edges": lambda: [nf], "vertex_to_vertices": lambda: [nv], "vertex_to_faces": lambda: [nv],
              "corner_to_face": lambda: [nc], "edge_to_vertices": lambda: [ne], "other_edge_end": lambda: [ne, 0]}
    out = []
    names = [q for q in QNAMES]
    weights = [0.25 if q in ("clear", "clear_boundary_data") else 1.0 for q in names]
    for _ in range(length):
        q = rng.choices(names, weights)[0]
        sig = QUERIES[q]
        if out and rng.random() < 0.1:
            out.append(list(out[-1]))      # the same call again, immediately
            continue
        if q in ABSENT and rng.random() < 0.06:
            out.append([q] + ABSENT[q]())
            continue
        if sig == "":
            args = []
        elif sig == "V":
            # vertex_to_corners(V) tolerates an absent vertex (dict.get); the others index a dict/attribute
            args = [V(valid_only=(q != "vertex_to_corners"))]
        elif sig == "F":
            args = [F()]
        elif sig == "C":
            args = [C() if q != "corner_to_face" else rng.randrange(nc)]
        elif sig == "E":
            args = [rng.randrange(ne)]
        elif sig == "UV":
            args = UV()
        elif sig == "VF":
            f = F()
            args = [rng.choice(faces[f]) if rng.random() < 0.7 else rng.randrange(nv), f]
        elif sig == "FV":
            f = F()
            args = [f, rng.choice(faces[f]) if rng.random() < 0.7 else rng.randrange(nv)]
        elif sig == "UVF":
            u, v = UV()
            d = directed_edges(faces)
            fs = [x[0][0] for x in (d.get((u, v)), d.get((v, u))) if x]
            args = [u, v, rng.choice(fs) if fs and rng.random() < 0.8 else F()]
        elif sig == "FF":
            f = F()
            Fl = faces[f]
            i = rng.randrange(len(Fl))
            d = directed_edges(faces)
            o = d.get((Fl[(i + 1) % len(Fl)], Fl[i]))
            g = o[0][0] if (o and rng.random() < 0.75) else F()
            args = [f, g]
        elif sig == "EV":
            e = rng.randrange(ne)
            args = [e, rng.choice(und[e]) if rng.random() < 0.8 else rng.randrange(nv)]
        elif sig == "VS":
            if rng.random() < 0.75:
                vs = list(faces[F()])
                rng.shuffle(vs)
            else:
                vs = [rng.randrange(nv) for _ in range(rng.choice([3, 3, 4]))]
            args = vs
        out.append([q] + args)
    return out
