"""Regenerate /verif/MANIFEST.json from the META of every vf/props/Cxx.py and merge known_findings.d/*.json
into /verif/known_findings.json (development-time only; never run by a check)."""
import importlib
import json
import os
import pkgutil

from . import core
from . import props as P

NOT_APPLICABLE = {}


def main():
    ids = [json.loads(l)["id"] for l in open(os.path.join(core.ROOT, "properties.jsonl"))]
    mods = {m.name: importlib.import_module("vf.props." + m.name) for m in pkgutil.iter_modules(P.__path__)}
    checks = []
    na = []
    ready = set(open(os.path.join(core.ROOT, "READY")).read().split())
    for pid in ids:
        mod = mods.get(pid) if pid in ready else None
        if mod is None or getattr(mod, "META", {}).get("disabled"):
            reason = NOT_APPLICABLE.get(pid) or (getattr(mod, "META", {}).get("disabled") if mod else None) or \
                "check not built yet in this round (planned in DESIGN.md section 5); not claimed"
            na.append({"property_id": pid, "reason": reason})
            continue
        M = mod.META
        checks.append({
            "property_id": pid,
            "quick_cmd": "./check %s --tier quick" % pid,
            "thorough_cmd": "./check %s --tier thorough" % pid,
            "evidence_file": "/verif/evidence/%s.json" % pid,
            "replay_cmd_template": "./check %s --replay {path}" % pid,
            "engine": "coq-proof+correspondence",
            "level_claimed": {"category": "proof", "text": M["level_text"], "design_ref": M.get("design_ref", "DESIGN.md section 5")},
            "level_note": M["level_note"],
            "technique": M["technique"],
        })
    man = {
        "version": 1,
        "setup_cmd": "./setup.sh",
        "hooks": {
            "guard": "MOUETTE_VERIF",
            "enable": "no hook in /repo is needed: every observation is public API or a public attribute; checks export MOUETTE_VERIF=1 anyway",
            "baseline_off_cmd": "cd /repo && /venv/bin/python -m pytest -ra -q -p no:cacheprovider --timeout=900 --continue-on-collection-errors",
            "source_commits": [],
            "add_only": True,
        },
        "engines": [{
            "name": "coq-proof+correspondence",
            "path": "/verif/check",
            "serves_properties": [c["property_id"] for c in checks],
            "kind_free_text": "Coq 8.16.1 theorems about executable Gallina models (coq/theories/Cxx), models regenerated "
                              "from /repo by fail-closed ast translators (vf/translate) and/or tied to it by kernel-evaluated "
                              "correspondence batches (vf/props, vf/impl); Python oracle only searches for the failing input",
        }],
        "checks": checks,
        "notes": "See DESIGN.md. known_findings.json lists recorded findings and fixed defects; seeded/ holds validated mutations.",
        "not_applicable": na,
    }
    open(os.path.join(core.ROOT, "MANIFEST.json"), "w").write(json.dumps(man, indent=1) + "\n")
    # merge known findings
    kf = {"findings": [], "fixed": []}
    d = os.path.join(core.ROOT, "known_findings.d")
    for f in sorted(os.listdir(d)):
        if f.endswith(".json"):
            x = json.load(open(os.path.join(d, f)))
            kf["findings"] += x.get("findings", [])
            kf["fixed"] += x.get("fixed", [])
    open(os.path.join(core.ROOT, "known_findings.json"), "w").write(json.dumps(kf, indent=1) + "\n")
    print("MANIFEST: %d checks, %d not claimed; known findings: %d, fixed: %d"
          % (len(checks), len(na), len(kf["findings"]), len(kf["fixed"])))


if __name__ == "__main__":
    main()
